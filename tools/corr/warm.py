#!/venv/bin/python
"""Correspondence harness for the state-passing twins `<fn>__warm` (Gen/warm.json) of the functions that memoise
in a module-level dictionary (eu.vat / vatin / iban `_get_cc_module`).

The generated `<fn>` is the cold-cache function (the dictionary starts empty); `<fn>__warm cache args` starts from an
arbitrary content and also returns the new content.  Props/C13w.lean proves that, for every content satisfying the
invariant that the real code maintains, both return the same result and the invariant is kept.  Here the warm twin
is run against the real function with the real module-level dictionary replaced by the same content - arbitrary
content, including entries the real code never writes - and result, exception class and the dictionary afterwards
are compared.

  python warm.py --n 3000 [--driver <native driver>]
Prints a JSON summary {"evaluations","agree","disagreements","distribution"}; exit 1 on any disagreement.
"""
import argparse
import importlib
import json
import os
import random
import subprocess
import sys

sys.path.insert(0, os.path.dirname(os.path.dirname(os.path.abspath(__file__))))
import common  # noqa: E402
sys.path.insert(0, os.path.join(common.VERIF, 'tools', 'harness'))
import diffrun  # noqa: E402


def country_packages():
    res = []
    for name in sorted(os.listdir(os.path.join(common.REPO, 'stdnum'))):
        if os.path.isfile(os.path.join(common.REPO, 'stdnum', name, '__init__.py')):
            res.append(name)
    return res


def main():
    ap = argparse.ArgumentParser()
    ap.add_argument('--n', type=int, default=3000)
    ap.add_argument('--driver', default=diffrun.DRIVER)
    ap.add_argument('--lean-dir', default=common.LEAN_DIR)
    a = ap.parse_args()
    rng = random.Random(common.seed())
    try:
        warm = json.load(open(os.path.join(a.lean_dir, 'Gen', 'warm.json')))
    except (OSError, ValueError):
        warm = {}
    from stdnum.util import get_cc_module
    pk = country_packages()
    codes = sorted(set(p.rstrip('_') for p in pk) | {'el', 'xi', 'eu', 'im', 'gb', 'gr', 'zz', 'uk', 'en'})
    kinds = ['vat', 'iban', 'personalid', 'businessid']
    mods = {}     # every module value that can legitimately occur, by name
    for cc in codes:
        for k in kinds:
            try:
                m = get_cc_module(cc, k)
            except Exception:   # noqa: B902
                m = None
            if m is not None:
                mods[m.__name__] = m
    modlist = sorted(mods)
    spell = lambda cc: rng.choice([cc, cc.upper(), cc.capitalize(), cc[:1].upper() + cc[1:], cc + ' ', ' ' + cc, cc[:1], cc + cc,   # noqa: E731
                                   cc.replace('i', 'İ'), cc.replace('s', 'ſ'), 'ß', ''])
    lines, expect, meta = [], [], []
    dist = {}
    per = max(1, a.n // max(1, len(warm)))
    for key, w in sorted(warm.items()):
        modname, fname = key.split(':')
        mod = importlib.import_module(modname)
        cache = getattr(mod, w['cache'])
        fn = getattr(mod, fname)
        kind = 'iban' if modname.endswith('iban') else 'vat'
        ctype, rtype = w['cache_type'], 'tuple[%s,%s]' % (w['rtype'], w['cache_type'])
        saved = dict(cache)
        try:
            for i in range(per):
                # cache content: reachable entries (what the code writes), plus - in a third of the cases - foreign ones
                content = {}
                for cc in rng.sample(codes, rng.randrange(0, 6)):
                    content[cc] = get_cc_module(cc, kind)
                style = rng.randrange(3)
                if style == 2:
                    for _ in range(rng.randrange(1, 4)):
                        k = rng.choice([rng.choice(codes), rng.choice(codes).upper(), 'gb', 'xi', 'el', 'eu', ''])
                        content[k] = rng.choice([None, mods[rng.choice(modlist)]])
                cc = rng.choice(codes)
                arg = cc if rng.random() < 0.55 else spell(cc)
                if content and rng.random() < 0.3:
                    arg = rng.choice(sorted(content))
                    arg = arg if rng.random() < 0.5 else arg.upper()
                cache.clear()
                cache.update(content)
                wire_cache = diffrun.to_wire(dict(content), ctype)
                o = common.outcome(fn, arg)
                after = dict(cache)
                if o[0] == 'ok':
                    try:
                        e = ['ok', diffrun.to_wire((o[1], after), rtype)]
                    except diffrun.Mismatch:
                        e = ['ok?', repr(o[1])[:80]]
                elif o[0] == 'verr':
                    e = ['err', o[1] if o[1] in diffrun.VERR else 'ValidationError']
                else:
                    e = ['err', 'NonValidation']
                lines.append('%s__warm\t%s' % (key, json.dumps([wire_cache, diffrun.to_wire(arg, 'str')], separators=(',', ':'))))
                expect.append(e)
                meta.append({'target': key + '__warm', 'cache': {k: (v.__name__ if v is not None else None) for k, v in content.items()}, 'arg': arg})
                d = dist.setdefault(key, {'n': 0, 'ok': 0, 'err': 0, 'hit': 0, 'foreign_content': 0})
                d['n'] += 1
                d['ok' if e[0] == 'ok' else 'err'] += 1
                d['hit'] += 1 if arg.lower() in content else 0
                d['foreign_content'] += 1 if style == 2 else 0
        finally:
            cache.clear()
            cache.update(saved)
    if not lines:
        print(json.dumps({'evaluations': 0, 'agree': 0, 'disagreements': [{'detail': 'Gen/warm.json lists no state-passing twin'}], 'distribution': {}}))
        return 1
    p = subprocess.run([a.driver], input='\n'.join(lines) + '\n', capture_output=True, text=True)
    got = p.stdout.split('\n')
    dis, agree = [], 0
    for m, e, g in zip(meta, expect, got):
        gp = diffrun.parse_response(g)
        if gp == e:
            agree += 1
        elif len(dis) < 50:
            dis.append(dict(m, python=e, model=gp))
    if len(got) < len(lines):
        dis.append({'target': '<driver>', 'detail': 'driver produced %d of %d lines; stderr: %s' % (len(got), len(lines), p.stderr[-300:])})
    print(json.dumps({'evaluations': len(lines), 'agree': agree, 'disagreements': dis, 'distribution': dist, 'samples': lines[:2]}))
    return 1 if dis else 0


if __name__ == '__main__':
    sys.exit(main())
