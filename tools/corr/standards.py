#!/venv/bin/python
"""Correspondence harness for Spec/Standards.lean (property C07).

The declarative Lean predicates `Std_M` (with the canonicalisation `canon_M`) are executable (IBAN: `Std_iban` with
the registry table `ibanRegistry` read off the embedded iban.dat, i.e. the `check_country=False` rule).  This script
evaluates them through `Driver/Standards.lean` and compares the verdicts (canonical form or None) with the
independent Python transcription of the same published rules, tools/search/c07_reference.py, on

  * the corpus (`common.corpus()`: numbers mined from docstrings and tests, valid and invalid),
  * every single-edit neighbour of (a sample of) the valid corpus numbers: substitutions, deletions,
    insertions, adjacent transpositions,
  * random strings over the format's alphabet and hostile characters.

A disagreement is an error of the MACHINERY (one of the two transcriptions is wrong), not a violation of C07.

  VERIF_SEED=3 python standards.py --n 20000 --lean-dir /verif/lean
  python standards.py --driver "/path/to/driver" ...      (any command reading lines on stdin)

Prints a JSON summary {"evaluations", "agree", "disagreements", "distribution", ...}; exit 1 on disagreement.
"""
import argparse
import json
import os
import random
import shlex
import subprocess
import sys
import tempfile

HERE = os.path.dirname(os.path.abspath(__file__))
sys.path.insert(0, os.path.dirname(HERE))
sys.path.insert(0, os.path.join(os.path.dirname(HERE), 'search'))

import common  # noqa: E402
import c07_reference  # noqa: E402

# format (driver target std.<format>) -> stdnum module name
FORMATS = {
    'issn': 'stdnum.issn', 'ean': 'stdnum.ean', 'isbn': 'stdnum.isbn', 'ismn': 'stdnum.ismn',
    'imo': 'stdnum.imo', 'casrn': 'stdnum.casrn', 'imei': 'stdnum.imei', 'isin': 'stdnum.isin',
    'cusip': 'stdnum.cusip', 'sedol': 'stdnum.gb.sedol', 'figi': 'stdnum.figi', 'lei': 'stdnum.lei',
    'iso11649': 'stdnum.iso11649', 'isni': 'stdnum.isni', 'grid': 'stdnum.grid', 'bic': 'stdnum.bic',
    'isrc': 'stdnum.isrc', 'iban': 'stdnum.iban',
}

D = '0123456789'
U = 'ABCDEFGHIJKLMNOPQRSTUVWXYZ'
ALPHABETS = {
    'issn': D + 'X', 'ean': D, 'isbn': D + 'X', 'ismn': D + 'M', 'imo': D + 'IMO', 'casrn': D + '-',
    'imei': D, 'isin': D + U, 'cusip': D + U + '*@#', 'sedol': D + U, 'figi': D + U, 'lei': D + U,
    'iso11649': D + U, 'isni': D + 'X', 'grid': D + U, 'bic': D + U, 'isrc': D + U, 'iban': D + U,
}
LENGTHS = {
    'issn': (8,), 'ean': (8, 12, 13, 14), 'isbn': (9, 10, 13), 'ismn': (10, 13), 'imo': (7, 10),
    'casrn': (7, 8, 9, 10, 11, 12), 'imei': (14, 15, 16), 'isin': (12,), 'cusip': (9,), 'sedol': (7,),
    'figi': (12,), 'lei': (20,), 'iso11649': (5, 8, 12, 25), 'isni': (16,), 'grid': (18, 23), 'bic': (8, 11),
    'isrc': (12,), 'iban': (15, 16, 18, 20, 22, 24, 27, 28, 29, 31),
}
HOSTILE = ' \t\n\x1c-+_.,/:xX*@#aAzZ²①é٣１൩– \x00\x7f`'


def to_wire(s):
    return {'s': [ord(c) for c in s]}


def expected(fmt, s):
    r = c07_reference.reference(FORMATS[fmt], s)
    return 'ok null' if r is None else 'ok ' + json.dumps(to_wire(r), separators=(',', ':'))


def neighbours(rnd, s, alphabet, limit):
    out = []
    for i in range(len(s)):
        for c in alphabet:
            if c != s[i]:
                out.append(s[:i] + c + s[i + 1:])
        out.append(s[:i] + s[i + 1:])
        if i + 1 < len(s) and s[i] != s[i + 1]:
            out.append(s[:i] + s[i + 1] + s[i] + s[i + 2:])
    for i in range(len(s) + 1):
        for c in alphabet:
            out.append(s[:i] + c + s[i:])
    if len(out) > limit:
        out = rnd.sample(out, limit)
    return out


def prefixed(fmt, rnd, w):
    """random words that pass the cheap prefix gates more often"""
    if fmt == 'iso11649':
        return 'RF' + w[2:]
    if fmt == 'isbn' and len(w) == 13:
        return rnd.choice(('978', '979')) + w[3:]
    if fmt == 'ismn':
        return ('9790' + w[4:]) if len(w) == 13 else ('M' + w[1:])
    if fmt == 'grid':
        return 'A1' + w[2:]
    if fmt == 'figi':
        return w[:2] + 'G' + w[3:]
    if fmt == 'iban':
        # a registered country, its own length and (often) field classes and the right check digits: random words
        # would otherwise never get past the country / length gates of either transcription
        reg = c07_reference.iban_registry()
        cc = rnd.choice(sorted(reg))
        if rnd.random() < 0.3:
            return cc + w[2:]
        cls = {'n': D, 'a': U, 'c': D + U}
        bban = ''.join(rnd.choice(cls[k] if rnd.random() < 0.97 else D + U) for n, k in reg[cc] for _ in range(n))
        if rnd.random() < 0.6:
            kk = '%02d' % (98 - int(''.join(str(int(c, 36)) for c in bban + cc + '00')) % 97)
        else:
            kk = ''.join(rnd.choice(D + U if rnd.random() < 0.3 else D) for _ in range(2))
        return cc + kk + bban
    if fmt in ('isin', 'isrc'):
        return rnd.choice(('US', 'GB', 'XS', 'QM', 'EU', 'ZZ')) + w[2:]
    if fmt == 'casrn' and len(w) >= 7 and rnd.random() < 0.7:
        return w[:-4] + '-' + w[-4:-2] + '-' + w[-1:] if rnd.random() < 0.5 else w.replace('-', '1')
    return w


def generate(seed, n):
    rnd = random.Random(seed)
    corpus = common.corpus()
    ops = []     # (stream, format, string)
    per = max(1, n // len(FORMATS))
    for fmt in sorted(FORMATS):
        c = corpus.get(FORMATS[fmt], {'valid': [], 'invalid': []})
        valid = [s for s in c['valid'] if isinstance(s, str)]
        invalid = [s for s in c['invalid'] if isinstance(s, str)]
        for s in valid:
            ops.append(('corpus-valid', fmt, s))
        for s in invalid:
            ops.append(('corpus-invalid', fmt, s))
        alphabet = ALPHABETS[fmt]
        # single-edit neighbours of valid numbers (canonical presentation and as written)
        budget = per // 2
        sample = valid if len(valid) <= 12 else rnd.sample(valid, 12)
        for s in sample:
            canon = c07_reference.reference(FORMATS[fmt], s) or s
            for base in {s, canon}:
                for w in neighbours(rnd, base, alphabet, max(8, budget // (2 * max(1, len(sample))))):
                    ops.append(('neighbour', fmt, w))
        # random strings over the alphabet at the interesting lengths, then arbitrary lengths
        for _ in range(per // 3):
            k = rnd.choice(LENGTHS[fmt]) if rnd.random() < 0.8 else rnd.randint(0, 26)
            w = ''.join(rnd.choice(alphabet) for _ in range(k))
            if rnd.random() < 0.6:
                w = prefixed(fmt, rnd, w)
            ops.append(('random', fmt, w))
        # hostile characters inserted into valid numbers and random words
        for _ in range(max(4, per // 8)):
            base = rnd.choice(valid) if (valid and rnd.random() < 0.7) else \
                ''.join(rnd.choice(alphabet) for _ in range(rnd.choice(LENGTHS[fmt])))
            w = list(base)
            for _ in range(rnd.randint(1, 2)):
                w.insert(rnd.randint(0, len(w)), rnd.choice(HOSTILE))
            ops.append(('hostile', fmt, ''.join(w)))
            if base and rnd.random() < 0.5:
                ops.append(('hostile', fmt, base.lower()))
        ops.append(('hostile', fmt, ''))
    return ops


def main():
    ap = argparse.ArgumentParser()
    ap.add_argument('--n', type=int, default=20000)
    ap.add_argument('--driver', default='lake env lean --run Driver/StandardsMain.lean')
    ap.add_argument('--lean-dir', default=common.LEAN_DIR)
    ap.add_argument('--keep', help='write the request lines to this file (default: temporary file)')
    args = ap.parse_args()
    seed = common.seed()

    ops = generate(seed, args.n)
    lines, exp = [], []
    for _, fmt, s in ops:
        lines.append('std.%s\t%s' % (fmt, json.dumps([to_wire(s)], separators=(',', ':'))))
        exp.append(expected(fmt, s))

    if args.keep:
        path = args.keep
    else:
        fd, path = tempfile.mkstemp(prefix='corr_standards_', suffix='.req')
        os.close(fd)
    with open(path, 'w') as f:
        f.write('\n'.join(lines) + '\n')
    with open(path) as f:
        proc = subprocess.run(shlex.split(args.driver), stdin=f, stdout=subprocess.PIPE,
                              stderr=subprocess.PIPE, cwd=args.lean_dir, text=True)
    got = proc.stdout.splitlines()
    if not args.keep:
        os.unlink(path)

    disagreements, agree = [], 0
    distribution = {}
    for k, ((stream, fmt, s), e) in enumerate(zip(ops, exp)):
        d = distribution.setdefault('std.' + fmt, {'accept': 0, 'reject': 0})
        d['reject' if e == 'ok null' else 'accept'] += 1
        g = got[k] if k < len(got) else '<no output>'
        if g == e:
            agree += 1
        else:
            disagreements.append({
                'stream': stream, 'target': 'std.' + fmt, 'arg': s, 'codepoints': [ord(c) for c in s],
                'reference': e, 'lean': g,
                'reference_reason': c07_reference.explain(FORMATS[fmt], s)[1]})
    summary = {
        'seed': seed, 'evaluations': len(ops), 'agree': agree,
        'disagreements': disagreements[:20], 'n_disagreements': len(disagreements),
        'distribution': distribution,
        'streams': {s: sum(1 for o in ops if o[0] == s) for s in sorted({o[0] for o in ops})},
    }
    if proc.returncode != 0 or len(got) != len(ops):
        summary['driver_error'] = {
            'returncode': proc.returncode, 'lines_out': len(got), 'stderr': proc.stderr[-2000:]}
    print(json.dumps(summary))
    sys.exit(1 if (disagreements or 'driver_error' in summary) else 0)


if __name__ == '__main__':
    main()
