#!/venv/bin/python
"""Correspondence harness for Spec/Checksum.lean (property C06).

Generates request lines for the eight generic checksum modules (luhn, verhoeff, damm and the five
iso7064 modules), evaluates the real python-stdnum functions in-process, runs the Lean model driver
on the same lines and diffs the responses.

  VERIF_SEED=3 python checksum.py --n 5000 --lean-dir /verif/lean
  python checksum.py --driver "/path/to/driver" ...      (any command reading lines on stdin)
  python checksum.py --unicode                           (also emit the non-ASCII-digit stream; the
                                                          ASCII-only model defaults disagree there)

Prints a JSON summary and exits 1 on any disagreement.
"""
import argparse
import json
import os
import random
import shlex
import subprocess
import sys
import tempfile

from stdnum import damm, luhn, verhoeff
from stdnum.exceptions import (
    InvalidChecksum, InvalidComponent, InvalidFormat, InvalidLength, ValidationError)
from stdnum.iso7064 import mod_11_2, mod_11_10, mod_37_2, mod_37_36, mod_97_10

MODULES = {
    'luhn': luhn, 'verhoeff': verhoeff, 'damm': damm, 'mod_11_2': mod_11_2, 'mod_37_2': mod_37_2,
    'mod_11_10': mod_11_10, 'mod_37_36': mod_37_36, 'mod_97_10': mod_97_10}

DIGITS = '0123456789'
HEX = '0123456789abcdef'
D_X = '0123456789X'
B36 = '0123456789ABCDEFGHIJKLMNOPQRSTUVWXYZ'
B37 = B36 + '*'

# module -> (kind of extra argument, alphabets to draw words from)
EXTRA = {
    'luhn': 'alphabet', 'mod_37_2': 'alphabet', 'mod_37_36': 'alphabet', 'damm': 'table',
    'verhoeff': None, 'mod_11_2': None, 'mod_11_10': None, 'mod_97_10': None}

DAMM_DOC_TABLE = (
    (0, 2, 3, 4, 5, 6, 7, 8, 9, 1), (2, 0, 4, 1, 7, 9, 5, 3, 8, 6), (3, 7, 0, 5, 2, 8, 1, 6, 4, 9),
    (4, 1, 8, 0, 6, 3, 9, 2, 7, 5), (5, 6, 2, 9, 0, 7, 4, 1, 3, 8), (6, 9, 7, 3, 1, 0, 8, 5, 2, 4),
    (7, 5, 1, 8, 4, 2, 0, 9, 6, 3), (8, 4, 6, 2, 9, 5, 3, 0, 1, 7), (9, 8, 5, 7, 3, 1, 6, 4, 0, 2),
    (1, 3, 9, 6, 8, 4, 2, 7, 5, 0))

UNICODE_DIGITS = '٣１൩𝟗०९۴߂๕'          # str.isdigit() and int() accept these
HOSTILE_CHARS = ' \t\n\x1c-+_.xX*aAzZ²①é/:@[`{\x00\x7f'


def calc_name(mod):
    return 'calc_check_digits' if mod == 'mod_97_10' else 'calc_check_digit'


def to_wire(v):
    if isinstance(v, bool) or v is None or isinstance(v, int):
        return v
    if isinstance(v, str):
        return {'s': [ord(c) for c in v]}
    if isinstance(v, tuple):
        return {'t': [to_wire(x) for x in v]}
    if isinstance(v, list):
        return [to_wire(x) for x in v]
    raise TypeError(type(v))


def dumps(v):
    return json.dumps(to_wire(v), separators=(',', ':'))


def exc_name(e):
    for cls in (InvalidLength, InvalidFormat, InvalidChecksum, InvalidComponent):
        if type(e) is cls:
            return cls.__name__
    if isinstance(e, ValidationError):
        return 'ValidationError' if type(e) is ValidationError else type(e).__name__
    return 'NonValidation'


def call(mod, fn, args):
    """evaluate the real function; returns the wire response line"""
    f = getattr(MODULES[mod], fn)
    try:
        if EXTRA[mod] == 'table' and len(args) == 2:
            r = f(args[0], table=args[1])
        else:
            r = f(*args)
    except Exception as e:  # noqa: B902
        return 'err ' + exc_name(e)
    return 'ok ' + dumps(r)


class Gen:
    def __init__(self, seed, n, unicode_stream):
        self.rnd = random.Random(seed)
        self.n = n
        self.unicode_stream = unicode_stream
        self.ops = []        # (stream, module, fn, args)

    def emit(self, stream, mod, fn, *args):
        self.ops.append((stream, mod, fn, list(args)))

    def emit_all(self, stream, mod, number, extra=()):
        for fn in ('checksum', 'validate', 'is_valid', calc_name(mod)):
            self.emit(stream, mod, fn, number, *extra)

    def word(self, alphabet, lo=0, hi=24):
        k = self.rnd.randint(lo, hi)
        return ''.join(self.rnd.choice(alphabet) for _ in range(k)) if alphabet else ''

    def random_alphabet(self, even=True):
        pool = [chr(c) for c in range(33, 127)] + list('äßçøλЖ中')
        size = self.rnd.randint(1, 20) * 2 if even else self.rnd.randint(0, 41)
        return ''.join(self.rnd.sample(pool, size))

    def configs(self):
        """(module, payload alphabet, check alphabet or None, extra args)"""
        r = self.rnd
        cfgs = [
            ('luhn', DIGITS, ()), ('luhn', DIGITS, (DIGITS,)), ('luhn', HEX, (HEX,)), ('luhn', B36, (B36,)),
            ('luhn', '01', ('01',)),
            ('verhoeff', DIGITS, ()), ('damm', DIGITS, ()), ('damm', DIGITS, (None,)),
            ('damm', DIGITS, (DAMM_DOC_TABLE,)), ('damm', DIGITS, ([list(x) for x in DAMM_DOC_TABLE],)),
            ('mod_11_2', DIGITS, ()), ('mod_11_2', D_X, ()),
            ('mod_37_2', B37, ()), ('mod_37_2', B36, ()), ('mod_37_2', D_X, (D_X,)), ('mod_37_2', DIGITS, (D_X,)),
            ('mod_11_10', DIGITS, ()),
            ('mod_37_36', B36, ()), ('mod_37_36', DIGITS, (DIGITS,)), ('mod_37_36', HEX, (HEX,)),
            ('mod_97_10', DIGITS, ()), ('mod_97_10', B36, ()), ('mod_97_10', B36 + B36.lower(), ()),
        ]
        for _ in range(4):
            a = self.random_alphabet(even=True)
            cfgs.append(('luhn', a, (a,)))
            cfgs.append(('mod_37_36', a, (a,)))
        for _ in range(3):
            a = self.random_alphabet(even=False)
            cfgs.append(('luhn', a, (a,)))
            cfgs.append(('mod_37_2', a, (a,)))
            cfgs.append(('mod_37_36', a, (a,)))
        r.shuffle(cfgs)
        return cfgs

    def valid_word(self, mod, alphabet, extra):
        p = self.word(alphabet, 0, 16)
        try:
            if EXTRA[mod] == 'table' and extra:
                c = getattr(MODULES[mod], calc_name(mod))(p, table=extra[0])
            else:
                c = getattr(MODULES[mod], calc_name(mod))(p, *extra)
        except Exception:  # noqa: B902
            return None
        return p + c

    def generate(self):
        r = self.rnd
        cfgs = self.configs()
        # budget: about n lines in total
        # (the same share for every module, split over the module's configurations)
        n_cfg = {m: sum(1 for c in cfgs if c[0] == m) for m in MODULES}
        for mod, alphabet, extra in cfgs:
            per_cfg = max(1, (self.n * 7) // (10 * len(MODULES) * n_cfg[mod] * 15))
            sub_alpha = extra[0] if (extra and isinstance(extra[0], str)) else \
                (D_X if mod == 'mod_11_2' else alphabet)
            for _ in range(per_cfg):
                # random words (uniform length 0..24)
                self.emit_all('random', mod, self.word(alphabet), extra)
                # valid words and their neighbours
                w = self.valid_word(mod, alphabet, extra)
                if w is None:
                    continue
                self.emit('valid', mod, 'validate', w, *extra)
                self.emit('valid', mod, 'is_valid', w, *extra)
                if w and r.random() < 0.5:
                    i = r.randrange(len(w))
                    for c in (sub_alpha if len(sub_alpha) <= 12 else r.sample(sub_alpha, 12)):
                        if c != w[i]:
                            self.emit('subst', mod, 'validate', w[:i] + c + w[i + 1:], *extra)
                if len(w) > 1:
                    for i in (range(len(w) - 1) if r.random() < 0.3 else [r.randrange(len(w) - 1)]):
                        if w[i] != w[i + 1]:
                            self.emit('swap', mod, 'validate', w[:i] + w[i + 1] + w[i] + w[i + 2:], *extra)
        # hostile inputs
        hostile_n = max(1, self.n // 700)
        for mod in MODULES:
            extras = [()]
            if EXTRA[mod] == 'alphabet':
                extras += [('',), ('a',), ('ab',), ('abc',), ('aab',), ('0123456789',), ('0120',), ('é中',)]
            if EXTRA[mod] == 'table':
                extras += [(None,), ([],), ((),), (((1, 0), (0, 1)),), (((0, 1, 2),),), (((10,),),)]
            for extra in extras:
                base = extra[0] if (extra and isinstance(extra[0], str)) else DIGITS
                self.emit_all('hostile', mod, '', extra)
                for _ in range(hostile_n):
                    w = list(self.word(base or 'a', 0, 10))
                    for _ in range(r.randint(1, 2)):
                        w.insert(r.randint(0, len(w)), r.choice(HOSTILE_CHARS + B36.lower()))
                    self.emit_all('hostile', mod, ''.join(w), extra)
        # X / * in the middle (mod_11_2 accepts X anywhere)
        for _ in range(hostile_n * 4):
            self.emit_all('hostile', 'mod_11_2', self.word(D_X, 1, 12))
            self.emit_all('hostile', 'mod_37_2', self.word(B37, 1, 12))
        # the int() digit limit in mod_97_10 (4300 digits on CPython >= 3.11)
        for k in (4297, 4298, 4299, 4300, 4301):
            self.emit_all('limit', 'mod_97_10', r.choice(DIGITS) * k)
        for k in (2148, 2149, 2150, 2151):
            self.emit_all('limit', 'mod_97_10', 'Z' * k)
        for mod in ('luhn', 'verhoeff', 'damm', 'mod_11_2', 'mod_11_10', 'mod_37_2', 'mod_37_36'):
            self.emit_all('limit', mod, self.word(DIGITS, 4400, 4500))
        # non-ASCII digits (model default tables are ASCII-only)
        if self.unicode_stream:
            for mod in ('verhoeff', 'damm', 'mod_11_2', 'mod_11_10', 'mod_97_10'):
                for _ in range(hostile_n * 2):
                    w = list(self.word(DIGITS, 0, 10))
                    w.insert(r.randint(0, len(w)), r.choice(UNICODE_DIGITS))
                    self.emit_all('unicode', mod, ''.join(w))
        return self.ops


def main():
    ap = argparse.ArgumentParser()
    ap.add_argument('--n', type=int, default=5000)
    ap.add_argument('--driver', default='lake env lean --run Driver/ChecksumMain.lean')
    ap.add_argument('--lean-dir', default='/verif/lean')
    ap.add_argument('--unicode', action='store_true')
    ap.add_argument('--keep', help='write the request lines to this file (default: temporary file)')
    args = ap.parse_args()
    seed = int(os.environ.get('VERIF_SEED', '1'))

    ops = Gen(seed, args.n, args.unicode).generate()
    lines, expected = [], []
    for stream, mod, fn, a in ops:
        lines.append('%s.%s\t%s' % (mod, fn, json.dumps([to_wire(x) for x in a], separators=(',', ':'))))
        expected.append(call(mod, fn, a))

    if args.keep:
        path = args.keep
    else:
        fd, path = tempfile.mkstemp(prefix='corr_checksum_', suffix='.req')
        os.close(fd)
    with open(path, 'w') as f:
        f.write('\n'.join(lines) + '\n')
    with open(path) as f:
        proc = subprocess.run(shlex.split(args.driver), stdin=f, stdout=subprocess.PIPE,
                              stderr=subprocess.PIPE, cwd=args.lean_dir, text=True)
    got = proc.stdout.splitlines()
    if not args.keep:
        os.unlink(path)

    disagreements, agree = [], 0
    distribution = {}
    for k, (op, exp) in enumerate(zip(ops, expected)):
        stream, mod, fn, a = op
        d = distribution.setdefault('%s.%s' % (mod, fn), {'ok': 0, 'err': 0})
        d['ok' if exp.startswith('ok') else 'err'] += 1
        g = got[k] if k < len(got) else '<no output>'
        if g == exp:
            agree += 1
        else:
            disagreements.append({
                'stream': stream, 'target': '%s.%s' % (mod, fn), 'args': repr(a), 'python': exp, 'lean': g})
    summary = {
        'seed': seed, 'evaluations': len(ops), 'agree': agree,
        'disagreements': disagreements[:20], 'n_disagreements': len(disagreements),
        'distribution': distribution,
        'streams': {s: sum(1 for o in ops if o[0] == s) for s in sorted({o[0] for o in ops})},
    }
    if proc.returncode != 0 or len(got) != len(ops):
        summary['driver_error'] = {
            'returncode': proc.returncode, 'lines_out': len(got), 'stderr': proc.stderr[-2000:]}
    print(json.dumps(summary))
    sys.exit(1 if (disagreements or 'driver_error' in summary) else 0)


if __name__ == '__main__':
    main()
