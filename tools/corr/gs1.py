#!/venv/bin/python
"""Correspondence harness for Spec/GS1.lean (property C16): the model of stdnum/gs1_128.py against the real code.

What is compared (outcome = returned value, or the error class: one of the five ValidationError classes by
name, everything else `NonValidation`):

(t)  the generated registry (`Spec/GS1Data.lean`) against `gs1_128._gs1_aidb.prefixes`;
(m)  `_max_length` / `_pad_value` on every (format, type) of the registry and on mutated format strings;
(v)  `_encode_value` / `_decode_value` / `Decimal(text)` on every (format, type) x well-typed, ill-typed and edge
     values / texts (decimals in exponent notation, NaN, Infinity, signs, underscores, non-ASCII digits, huge
     exponents; dates at the %y pivot, day 00, spaces, odd lengths; ints with signs / leading zeros ...);
(e)  `encode(mapping, separator, parentheses)` for generated mappings of 1..5 identifiers drawn from ALL
     registered identifiers (including the formats `_max_length` cannot parse), separators '' / GS / '^' / '~' /
     a two-character one, parentheses on/off, plus ill-typed values, unknown / over-long / empty keys;
(w)  the witnesses of the negated theorems of Props/C16/Witness.lean (R8, R14, R16–R20) are replayed on the REAL
     code: each must still show its defect (otherwise the hand model / the theorems are out of date), and the same
     inputs go through the model like every other request;
(i)  `info`, `validate`, `is_valid` on: the encodings from (e), hand-built element strings (random order, separator
     after every / no / some variable-length values, padded or not), and malformed strings (mutations: deleted,
     inserted, replaced characters, truncation, non-ASCII digits and spaces, stray parentheses and separators,
     empty string, unknown identifiers).

`stdnum.iban.validate` (the validator of identifier 8007) is not modelled: the harness records the verdicts of the
real function during the Python run and passes them to the driver as an oracle.

  VERIF_SEED=3 python gs1.py --n 4000 --lean-dir /verif/lean
  python gs1.py --driver /path/to/native/driver     (any command reading request lines on stdin)

The default driver is the interpreter (`lake env lean --run Driver/GS1Main.lean`).
Prints a JSON summary {"evaluations","agree","disagreements","distribution","witnesses",...}; exit 1 on any
disagreement or when a witness no longer shows its defect on the real code.
"""
import argparse
import datetime
import decimal
import json
import os
import random
import shlex
import subprocess
import sys
import tempfile

import stdnum.iban
from stdnum import gs1_128
from stdnum.exceptions import ValidationError

DEFAULT_DRIVER = 'lake env lean --run Driver/GS1Main.lean'
CLASSES = ('InvalidFormat', 'InvalidLength', 'InvalidChecksum', 'InvalidComponent', 'ValidationError')
D = decimal.Decimal

CSET82 = '!"%&\'()*+,-./0123456789:;<=>?ABCDEFGHIJKLMNOPQRSTUVWXYZ_abcdefghijklmnopqrstuvwxyz'
CSET82_NOPAR = CSET82.replace('(', '').replace(')', '')
CSET39 = '#-/0123456789ABCDEFGHIJKLMNOPQRSTUVWXYZ'
CSET64 = 'ABCDEFGHIJKLMNOPQRSTUVWXYZabcdefghijklmnopqrstuvwxyz0123456789-_'
DIGITS = '0123456789'
SEPARATORS = ['', '', '\x1d', '\x1d', '^', '~', '#|']


# ---------------------------------------------------------------- wire encoding

def to_wire(v):
    if isinstance(v, bool) or v is None:
        return v
    if isinstance(v, int):
        return v
    if isinstance(v, str):
        return {'s': [ord(c) for c in v]}
    if isinstance(v, D):
        return {'dec': to_wire(str(v))}
    if isinstance(v, datetime.datetime):
        return {'dt': [v.year, v.month, v.day, v.hour, v.minute, v.second]}
    if isinstance(v, datetime.date):
        return {'date': [v.year, v.month, v.day]}
    if isinstance(v, tuple):
        return {'t': [to_wire(x) for x in v]}
    if isinstance(v, list):
        return [to_wire(x) for x in v]
    if isinstance(v, dict):
        return {'d': [[to_wire(k), to_wire(x)] for k, x in v.items()]}
    raise TypeError(type(v))


def request(target, args):
    return '%s\t%s' % (target, json.dumps(args, separators=(',', ':')))


def outcome(f):
    """evaluate the real code; ('ok', wire value) | ('err', class)"""
    try:
        r = f()
    except RecursionError:
        raise
    except ValidationError as e:
        n = type(e).__name__
        return ('err', n if n in CLASSES else 'ValidationError')
    except Exception:  # noqa: B902
        return ('err', 'NonValidation')
    return ('ok', to_wire(r))


def parse_response(line):
    if line.startswith('ok '):
        try:
            return ('ok', json.loads(line[3:]))
        except ValueError:
            return ('bad', line[:200])
    if line.startswith('err '):
        return ('err', line[4:].strip())
    return ('other', line.strip()[:200])


# ---------------------------------------------------------------- the IBAN oracle

class IbanRecorder:
    """records the verdicts of the real stdnum.iban.validate while a request is evaluated"""

    def __init__(self):
        self.real = stdnum.iban.validate
        self.calls = []

    def __call__(self, number, *args, **kwargs):
        key = None
        if isinstance(number, str):
            key = number
        elif isinstance(number, tuple) and len(number) == 2 and all(isinstance(x, str) for x in number):
            key = ''.join(number)
        try:
            r = self.real(number, *args, **kwargs)
        except ValidationError as e:
            n = type(e).__name__
            if key is not None:
                self.calls.append((key, n if n in CLASSES else 'ValidationError'))
            raise
        except Exception:  # noqa: B902
            if key is not None:
                self.calls.append((key, 'NonValidation'))
            raise
        if key is not None:
            self.calls.append((key, 'ok'))
        return r

    def take(self):
        calls, self.calls = self.calls, []
        seen, out = set(), []
        for k, v in calls:
            if k not in seen:
                seen.add(k)
                out.append([to_wire(k), v])
        return {'d': out}


# ---------------------------------------------------------------- the registry, read independently

class AI:
    def __init__(self, ai, props):
        self.ai = ai
        self.format = props.get('format', '')
        self.type = props.get('type', '')
        self.fnc1 = bool(props.get('fnc1', False))
        self.comps = parse_format(self.format)

    def maxlen(self):
        return sum(c[2] for c in self.comps) + (1 if self.type == 'decimal' else 0)


def parse_format(fmt):
    """[(class, minlen, maxlen, optional)] by an independent reading of the GS1 format notation"""
    comps, i, optional = [], 0, False
    while i < len(fmt):
        ch = fmt[i]
        if ch == '[':
            optional, i = True, i + 1
        elif ch == ']':
            optional, i = False, i + 1
        elif ch == '+':
            i += 1
        elif ch == '-':
            comps.append(('-', 1, 1, optional))
            i += 1
        elif ch in 'NXYZ':
            j = i + 1
            var = fmt[j:j + 2] == '..'
            if var:
                j += 2
            k = j
            while k < len(fmt) and fmt[k] in DIGITS:
                k += 1
            n = int(fmt[j:k] or '1')
            comps.append((ch, 1 if var else n, n, optional))
            i = k
        else:
            i += 1
    return comps


def load_ais():
    res = []
    for length, low, high, props, children in gs1_128._gs1_aidb.prefixes:
        if low == high:
            res.append(AI(low, props))
        else:
            for n in range(int(low), int(high) + 1):
                res.append(AI(str(n).zfill(len(low)), props))
    return res


def dump(prefixes):
    return [[length, low, high, props, dump(children)] for length, low, high, props, children in prefixes]


# ---------------------------------------------------------------- value generators

def rs(rnd, alphabet, n):
    return ''.join(rnd.choice(alphabet) for _ in range(n))


def gen_date(rnd):
    y = rnd.choice([1969, 1970, 1999, 2000, 2024, 2068, rnd.randint(1969, 2068), rnd.randint(1969, 2068),
                    rnd.randint(1969, 2068), rnd.choice([1, 999, 1900, 1968, 2069, 2100, 9999])])
    m = rnd.randint(1, 12)
    last = (datetime.date(y + (m == 12) if y < 9999 else y, m % 12 + 1 if y < 9999 or m < 12 else 1, 1)
            - datetime.timedelta(days=1)).day if not (y == 9999 and m == 12) else 31
    d = rnd.choice([1, last, rnd.randint(1, last)])
    return datetime.date(y, m, d)


def gen_datetime(rnd):
    d = gen_date(rnd)
    h = rnd.choice([0, 0, 23, 10, 20, rnd.randint(0, 23)])
    mi = rnd.choice([0, 0, 59, 10, rnd.randint(0, 59)])
    s = rnd.choice([0, 0, 0, 59, rnd.randint(0, 59)])
    return datetime.datetime(d.year, d.month, d.day, h, mi, s)


def gen_decimal(rnd, k):
    """a Decimal for a field of k digits: mostly admitted ones, some not"""
    x = rnd.random()
    if x < 0.72:
        n = rnd.choice([k, k, rnd.randint(1, k), rnd.randint(1, k)])
        p = min(rnd.choice([0, 1, 2, 3, rnd.randint(0, 9), rnd.randint(0, 9)]), 9)
        s = rnd.choice([rs(rnd, DIGITS, n), rnd.choice('123456789') + rs(rnd, DIGITS, n - 1),
                        '0' * rnd.randint(0, n - 1) + rnd.choice('123456789') + '0' * n, '0' * n])[:n]
        return D((0, tuple(int(c) for c in str(int(s))), -p))
    if x < 0.8:
        return D(rnd.choice(['NaN', 'sNaN', 'NaN123', '-NaN', 'Infinity', '-Infinity', '-0', '-1.5', '-0.00', '0E-7',
                             '0E+3', '1E+3', '1.5E+20', '1E-7', '1.23E-7', '12.3E-10', '0.000001', '0.0000001',
                             '1E-20', '123456789012345678901234567890', '1E+999999999999999999',
                             '1E-1999999999999999997', '0.1', '1.0', '1.10', '100', '0', '0.0', '0.000000']))
    if x < 0.9:
        return D(rs(rnd, DIGITS, rnd.randint(1, k + 3)) + '.' + rs(rnd, DIGITS, rnd.randint(1, 11)))
    return D((rnd.randint(0, 1), tuple(rnd.randint(0, 9) for _ in range(rnd.randint(1, k + 2))), rnd.randint(-12, 3)))


def gen_text(rnd, cls, n, tame):
    alpha = {'N': DIGITS, 'X': CSET82_NOPAR if tame else CSET82, 'Y': CSET39, 'Z': CSET64, '-': '-'}[cls]
    return rs(rnd, alpha, n)


def gen_value(rnd, ai, tame):
    """a value the declared format admits (tame: no parentheses in text)"""
    if ai.ai in ('01', '02'):
        body = rs(rnd, DIGITS, 13)
        return body + str((10 - sum((3, 1)[i % 2] * int(n) for i, n in enumerate(reversed(body)))) % 10)
    if ai.ai == '8007':
        bban = 'ABCD' + rs(rnd, DIGITS, 10)
        n = ''.join(str(int(ch, 36)) for ch in bban + 'NL00')
        return 'NL%02d%s' % (98 - int(n) % 97, bban)
    typ, comps = ai.type, ai.comps
    if typ == 'date':
        f = ai.format
        if f == 'N6':
            return gen_date(rnd)
        if f == 'N10':
            return gen_datetime(rnd).replace(second=0)
        if f == 'N6[+N6]':
            return gen_date(rnd) if rnd.random() < 0.5 else (gen_date(rnd), gen_date(rnd))
        if f == 'N6[+N4]':
            return gen_date(rnd) if rnd.random() < 0.4 else gen_datetime(rnd).replace(second=0)
        return gen_datetime(rnd)
    if typ == 'decimal':
        k = comps[-1][2]
        v = gen_decimal(rnd, k)
        if len(comps) == 2:
            return (rs(rnd, DIGITS, 3), v)
        return v
    if typ == 'int':
        c = comps[0]
        n = rnd.choice([c[1], c[2], rnd.randint(c[1], c[2])])
        return int(rnd.choice([rs(rnd, DIGITS, n), '9' * n, '0' * n, rnd.choice('123456789') + rs(rnd, DIGITS, n - 1)]))
    out = ''
    for cls, lo, hi, optional in comps:
        if optional and rnd.random() < 0.4:
            break
        out += gen_text(rnd, cls, rnd.choice([lo, hi, rnd.randint(lo, hi)]), tame)
    return out


def gen_odd_value(rnd):
    """values of any modelled Python type, regardless of the identifier"""
    return rnd.choice([
        lambda: '', lambda: ' ', lambda: rs(rnd, CSET82 + ' ', rnd.randint(1, 8)), lambda: ' A ', lambda: 'A\x1dB',
        lambda: 'a`b', lambda: 'x\xa0y', lambda: '١٢٣', lambda: '12.5', lambda: '1.5', lambda: rs(rnd, DIGITS, rnd.randint(1, 20)),
        lambda: rnd.randint(-50, 10 ** rnd.randint(0, 12)), lambda: 0, lambda: -7, lambda: 10 ** 4299, lambda: -(10 ** 4298),
        lambda: gen_decimal(rnd, rnd.choice([4, 6, 15])), lambda: D('NaN'), lambda: D('-1.5'),
        lambda: gen_date(rnd), lambda: gen_datetime(rnd),
        lambda: (rs(rnd, DIGITS, rnd.choice([1, 3, 3, 4])), gen_decimal(rnd, 15)),
        lambda: (gen_date(rnd), gen_date(rnd)), lambda: (gen_date(rnd), gen_datetime(rnd)),
        lambda: ('978', '12'), lambda: (5, D('1.5')), lambda: (D('1'), D('2')), lambda: ('12', ('34', D('1.5'))),
        lambda: ((gen_date(rnd), gen_date(rnd)), gen_date(rnd)), lambda: ('1234567890123', '1'),
    ])()


def text_of(rnd, ai, value):
    """the text of an admitted value inside a hand-built element string (None if there is no plain reading)"""
    if isinstance(value, str):
        return value
    if isinstance(value, bool):
        return None
    if isinstance(value, int):
        s = str(value) if value >= 0 else None
        if s is not None and rnd.random() < 0.3:
            s = s.rjust(rnd.randint(len(s), max(len(s), ai.maxlen())), '0')
        return s
    if isinstance(value, tuple) and len(value) == 2 and isinstance(value[0], str) and isinstance(value[1], D):
        t = dec_text(value[1])
        return None if t is None else t[0] + value[0] + t[1:]
    if isinstance(value, D):
        return dec_text(value)
    if isinstance(value, tuple) and all(type(x) is datetime.date for x in value):
        return ''.join(x.strftime('%y%m%d') for x in value)
    if isinstance(value, datetime.datetime):
        s = value.strftime('%y%m%d%H%M%S')
        if ai.format in ('N10', 'N6[+N4]'):
            s = s[:10]
        if rnd.random() < 0.5:
            for _ in range(2):
                if s.endswith('00') and len(s) > 8:
                    s = s[:-2]
        return s
    if isinstance(value, datetime.date):
        s = value.strftime('%y%m%d')
        if rnd.random() < 0.2 and value < datetime.date.max and (value + datetime.timedelta(days=1)).day == 1:
            s = s[:4] + '00'
        return s
    return None


def dec_text(v):
    sign, digits, exp = v.as_tuple()
    if not isinstance(exp, int) or sign or exp > 0 or exp < -9:
        return None
    return str(-exp) + ''.join(str(d) for d in digits)


# ---------------------------------------------------------------- element strings

def pad(ai, text):
    n = ai.maxlen()
    return text.rjust(n, '0') if ai.type in ('decimal', 'int') else text.ljust(n)


def handbuilt(rnd, table, items, sep, par):
    """items: [(ai string, value)]; random order; None if some value has no plain text"""
    seq = list(items)
    rnd.shuffle(seq)
    out = []
    mode = rnd.choice(['strict', 'strict', 'all-sep', 'no-sep', 'no-pad'])
    for pos, (k, value) in enumerate(seq):
        ai = table.get(k)
        if ai is None:
            return None
        text = text_of(rnd, ai, value)
        if text is None:
            return None
        last = pos == len(seq) - 1
        s = '(%s)' % k if par else k
        if mode == 'strict':
            if ai.fnc1 and not last:
                s += (text + sep) if sep else pad(ai, text)
            else:
                s += text
        elif mode == 'all-sep':
            s += text + sep
        elif mode == 'no-sep':
            s += pad(ai, text) if ai.fnc1 and not last else text
        else:
            s += text + (sep if rnd.random() < 0.5 else '')
        out.append(s)
    return ''.join(out)


MUT_CHARS = ['0', '1', '9', ' ', '(', ')', '\x1d', '^', 'A', 'z', '.', '-', '+', '_', '٣', '\xa0', ' ', '`', '\n', '\t',
             'E', '%', '０', '\x1c']


def mutate(rnd, s, sep):
    k = rnd.choice([1, 1, 1, 2, 3])
    for _ in range(k):
        x = rnd.random()
        i = rnd.randint(0, len(s))
        if x < 0.25 and s:
            i = min(i, len(s) - 1)
            s = s[:i] + s[i + 1:]
        elif x < 0.5:
            s = s[:i] + rnd.choice(MUT_CHARS + [sep or '^']) + s[i:]
        elif x < 0.75 and s:
            i = min(i, len(s) - 1)
            s = s[:i] + rnd.choice(MUT_CHARS + [sep or '^']) + s[i + 1:]
        elif x < 0.85:
            s = s[:i]
        elif x < 0.92:
            s = s + rnd.choice(['', ' ', sep, '00', '11', '3100', '99', '(', ')'])
        else:
            s = rnd.choice([' ', sep, '(', '']) + s
    return s


FIXED_STRINGS = [
    '', ' ', '()', '11', '10', '1', '0', '00', '99', '310', '3100', '3909', '390', '39', '4330123456', '8030ABC',
    '3106000123', '3900NaN', '3900Infinity', '39070000000', '3909000000123', '10^21ABC', '3105000012', '11200100', '11201300',
    '11200230', '11200229', '11 00101', '112001 5', '11٢٠0101', '7003200101', '70032001012', '700320010123', '70032001012359',
    '7003200101235959', '70032001012359591', '7007200101200202', '7007200101', '70072001012002', '7011200101', '70112001011',
    '701120010110', '7011200101100', '7011200101103059', '800820010110', '80082001011030', '8008200101103059',
    '80082001011030590', '42256', '422056', '422-56', '422+5', '422 ５', '30-5', '30 12', '301_2', '3012345678', '30123456789',
    '0112345678901231', '0112345678901234', '01123456789012', '011234567890123x', '8007NL91ABNA0417164300',
    '8007NL91ABNA0417164301', '8007XX', '(01)12345678901231(10)ABC', '(10)A(B)C', '10A(B)C', '10ABC                 21X',
    '3920 15', '39101234', '3911978', '39119781', '391197815', '3911٣78150', '3922 15', '391', '3911', '39111',
    '91', '91X', '99' + 'X' * 95, '253123456789012' + 'X' * 20, '10' + 'A' * 25, '00123456789012345678', '0012345',
    '2012', '20123', '201', '4326200101', '43262001', '4324200101100', '43242001011030', '7040 1AB', '70401ABC', '7040',
    '3100000000', '31000000001', '3109999999', '310A123456', '310٣123456', '3101 23456', '31011234.5', '3101_23456',
    '3101E23456', '39003E5', '39001E-9', '3900 1', '39001 ', '3900+1', '3900-1', '3900.5', '39005.', '3900.', '39001_0',
    '3900__', '39001e5', '3900sNaN12', '3900-NaN', '3900nan01', '3900inf', '3900-iNfInItY', '3900infinit',
    '39001E999999999999999999', '39001E1000000000000000000', '390010E999999999999999999', '39001E-1999999999999999997',
    '39001E-1999999999999999998', '39000E999999999999999999', '39000E1000000000000000000', '39000E-1999999999999999997',
    '39000E-1999999999999999998', '39010.0E-1999999999999999996', '39010.0E-1999999999999999997',
]

DECIMAL_TEXTS = [
    '', ' ', '0', '00', '0.', '.0', '.', '0.0', '1', '12', '1.5', '01.50', '1..5', '1.5.', '+1', '-1', '+-1', '--1', '+', '-',
    '1e5', '1E5', '1e+5', '1e-5', '1e', '1e+', 'e5', '.e5', '0.e5', '1.e5', '.5e5', '1e5e5', '1e5.', '1e.5', '1e 5', '1 e5',
    '1_0', '_1', '1_', '1__0', '1_._5', '1e_5', '1_e5', '_', '1e5_', ' 1', '1 ', ' 1 ', '\x1c1\x1f', '\xa01', '1　', '1 2',
    '٣', '٣.٣', '1٠', '１２', '1E٣', 'x', '1x', '0x10', 'nan', 'NaN', 'NAN', 'nAn', 'nan1', 'nan01', 'nan00', 'nanx', 'nan1.5',
    'nan_1', 'n_an', 'na', 'snan', 'sNaN12', 'SNAN', 'snan0', 'sna', 's', '-nan', '+snan5', 'inf', 'Inf', 'INF', 'infinity',
    'INFINITY', 'iNfInItY', 'infinit', 'infinityx', 'inf1', '-inf', '+Infinity', 'inf_', 'in_f', 'i', 'Infinity ', ' nan ',
    '1E999999999999999999', '1E1000000000000000000', '10E999999999999999999', '10E999999999999999998',
    '1E-1999999999999999997', '1E-1999999999999999998', '10E-1999999999999999998', '0E999999999999999999',
    '0E1000000000000000000', '0E-1999999999999999997', '0E-1999999999999999998', '0.0E-1999999999999999996',
    '0.0E-1999999999999999997', '1E99999999999999999999999999', '1E-99999999999999999999999999',
    '0E99999999999999999999999999', '0.000001', '0.0000001', '0.00000012', '123E-9', '123E-8', '1.23E+5', '100E-2',
    '0E-7', '0E+3', '-0', '-0.00', '0.000000', '00000.000000', '\x00', '1\x00', 'é', '²', '½', '1²',
]


# ---------------------------------------------------------------- the witnesses of Props/C16/Witness.lean

def _raises(f, cls):
    try:
        f()
    except cls:
        return True
    except Exception:  # noqa: B902
        return False
    return False


def _same(a, b):
    """equal as mappings of Python values: same keys, same types, same values"""
    return (isinstance(a, dict) and sorted(a) == sorted(b) and
            all(type(a[k]) is type(b[k]) and a[k] == b[k] and str(a[k]) == str(b[k]) for k in b))


INFO_ENCODE_WITNESSES = [
    # name, mapping, separator, parentheses, expected observation
    ('R8', {'4330': '123456'}, '', False, 'info raises AttributeError'),
    ('R16', {'10': 'A(B)C'}, '', True, "{'10': 'ABC'}"),
    ('R17', {'310': D('0.000123')}, '', False, "{'310': Decimal('0.00012')}"),
    ('R18', {'390': D('1.5'), '91': 'x'}, '', False, "{'390': Decimal('115'), '91': 'x'}"),
    ('R19', {'7007': datetime.date(2020, 1, 1), '91': 'x'}, '', False, 'info raises ValueError'),
    ('R20', {'7011': datetime.datetime(2020, 1, 1, 0, 0)}, '', False, "{'7011': datetime.date(2020, 1, 1)}"),
]
VALIDATE_FIXED_WITNESSES = [
    # name, x, separator, validated form
    ('R14', '11', '', '11000101'),
    ('R17', '3106000123', '', '3105000012'),
    ('R18', '390100000000000001591x', '', '390000000000000011591x'),
    ('R19', '7011200101100091x', '', '701120010110  91x'),
    ('R20', '70112001010000', '', '7011200101'),
]


def check_witnesses():
    """replay the counter-examples on the real code; returns the list of those that no longer show the defect"""
    gone = []
    for name, m, sep, par, _ in INFO_ENCODE_WITNESSES:
        try:
            w = gs1_128.encode(m, sep, par)
            back = gs1_128.info(w, sep)
            if _same(back, m):
                gone.append('info_encode_false_' + name)
        except Exception:  # noqa: B902
            pass            # raising is a failure of the round trip as well
    for name, x, sep, v in VALIDATE_FIXED_WITNESSES:
        try:
            got = gs1_128.validate(x, sep)
        except Exception:  # noqa: B902
            gone.append('validate_fixed_false_%s (validate(x) raises)' % name)
            continue
        if got != v:
            gone.append('validate_fixed_false_%s (validate(x) = %r, the theorem says %r)' % (name, got, v))
            continue
        try:
            fixed = gs1_128.validate(v, sep) == v and _same(gs1_128.info(v, sep), gs1_128.info(x, sep))
        except Exception:  # noqa: B902
            fixed = False
        if fixed:
            gone.append('validate_fixed_false_' + name)
    if not (gs1_128.validate('') == '' and gs1_128.is_valid('') is False):
        gone.append('validate_empty')
    return gone


# ---------------------------------------------------------------- main

class Run:
    def __init__(self):
        self.requests = []
        self.checks = []      # (kind label, expected, detail)

    def add(self, label, target, args, expected, detail):
        self.requests.append(request(target, args))
        self.checks.append((label, expected, detail))


def short(s, k=400):
    s = repr(s)
    return s if len(s) <= k else s[:k] + '...(%d chars)' % len(s)


def main():
    ap = argparse.ArgumentParser()
    ap.add_argument('--n', type=int, default=3000, help='number of generated mappings')
    ap.add_argument('--driver', default=DEFAULT_DRIVER)
    ap.add_argument('--lean-dir', default='/verif/lean')
    ap.add_argument('--keep', help='write the request lines to this file')
    args = ap.parse_args()
    seed = int(os.environ.get('VERIF_SEED', '1'))
    rnd = random.Random(seed)

    recorder = IbanRecorder()
    stdnum.iban.validate = recorder

    ais = load_ais()
    table = dict((a.ai, a) for a in ais)
    keys = sorted(table)
    run = Run()
    dist = {'targets': {}, 'python_outcomes': {}, 'formats': {}, 'separators': {}, 'mapping_sizes': {},
            'string_kinds': {}, 'value_types': {}, 'skipped_unmodelled': 0, 'registered_ais': len(ais)}

    def count(d, k):
        dist[d][k] = dist[d].get(k, 0) + 1

    def add(label, target, wire_args, f, detail, oracle=False):
        recorder.calls = []
        exp = outcome(f)
        a = list(wire_args)
        if oracle:
            a.append(recorder.take())
        run.add(label, target, a, exp, detail)
        count('targets', target)
        count('python_outcomes', '%s:%s' % (target, exp[0] if exp[0] == 'ok' else exp[1]))
        return exp

    # (t) the generated registry
    add('table', 'gs1.table_dump', [], lambda: dump(gs1_128._gs1_aidb.prefixes), {})

    # (m) _max_length / _pad_value
    fts = sorted(set((a.format, a.type) for a in ais))
    extra_formats = ['', 'N', 'N6', 'N06', 'N6\n', 'N6\n\n', 'n6', 'X..', 'X..20', 'X...20', 'X.20', 'N6..12', 'N6+', '+N6', 'N6++N2',
                     'N6[', 'N6]', 'N6[]', '[N6]', 'N6[+N6]', 'N6+[-]', 'Z..90', 'Y..30', 'N٣', 'N3 ', ' N3', 'N1_0', 'NN6', 'N6N6',
                     'N' + '9' * 60, 'N' + '0' * 45 + '7', 'X2+X..28', 'N14+N2+N2', 'N3+N..15', 'N-5', 'N+5', 'X..0', 'N0']
    for fmt, typ in fts + [(f, rnd.choice(['str', 'decimal', 'int', 'date', 'foo'])) for f in extra_formats]:
        add('max_length', 'gs1.max_length', [to_wire(fmt), to_wire(typ)],
            lambda: gs1_128._max_length(fmt, typ), {'fmt': fmt, 'type': typ})
        if len(fmt) > 30:
            continue            # the padding itself would not fit into memory
        for text in ['', '1', 'AB', '123456789012345678901234567890']:
            add('pad_value', 'gs1.pad_value', [to_wire(fmt), to_wire(typ), to_wire(text)],
                lambda: gs1_128._pad_value(fmt, typ, text), {'fmt': fmt, 'type': typ, 'text': text})

    # (v) Decimal(text), _encode_value, _decode_value
    for text in DECIMAL_TEXTS:
        add('decimal', 'gs1.decimal', [to_wire(text)], lambda: D(text), {'text': text})
    for _ in range(max(50, args.n // 10)):
        text = rs(rnd, '0123456789' * 3 + '.eE+-_ nNaAiIfsS٣', rnd.randint(0, 9))
        add('decimal', 'gs1.decimal', [to_wire(text)], lambda: D(text), {'text': text})
    reps = max(2, args.n // 400)
    for fmt, typ in fts:
        a = [x for x in ais if (x.format, x.type) == (fmt, typ) and x.ai not in ('01', '02', '8007')] or \
            [x for x in ais if (x.format, x.type) == (fmt, typ)]
        ai = a[0]
        count('formats', '%s/%s' % (fmt, typ))
        for _ in range(reps):
            for value in (gen_value(rnd, ai, False), gen_odd_value(rnd)):
                add('encode_value', 'gs1.encode_value', [to_wire(fmt), to_wire(typ), to_wire(value)],
                    lambda: gs1_128._encode_value(fmt, typ, value), {'fmt': fmt, 'type': typ, 'value': value})
                text = text_of(rnd, ai, value)
                texts = [] if text is None else [text, pad(ai, text), mutate(rnd, text, '')]
                texts.append(rs(rnd, DIGITS + DIGITS + ' .-E٣A', rnd.randint(0, ai.maxlen() + 2)))
                for text in texts:
                    add('decode_value', 'gs1.decode_value', [to_wire(fmt), to_wire(typ), to_wire(text)],
                        lambda: gs1_128._decode_value(fmt, typ, text), {'fmt': fmt, 'type': typ, 'text': text})
    for fmt, typ, text in [('N3+N3+N..5', 'decimal', '2ABCDEF1234'), ('N3+N3+N..5', 'decimal', '2ABC'), ('N3+', 'decimal', '1AAA5'),
                           ('N3+N..15', 'decimal', ''), ('N12', 'date', '200101210202'), ('N6..12', 'date', '200100210200'),
                           ('N6', 'date', '200101210202'), ('N6[+N6]', 'date', '200101      '), ('N6', 'int', ' 12 '),
                           ('N6', 'foo', ' a b '), ('N6', 'str', '\x1dA\x1d')]:
        add('decode_value', 'gs1.decode_value', [to_wire(fmt), to_wire(typ), to_wire(text)],
            lambda: gs1_128._decode_value(fmt, typ, text), {'fmt': fmt, 'type': typ, 'text': text})

    # (e) + (i) mappings and element strings
    def check_string(kind, x, sep):
        count('string_kinds', kind)
        for target, f in (('gs1.info', gs1_128.info), ('gs1.validate', gs1_128.validate), ('gs1.is_valid', gs1_128.is_valid)):
            add(kind, target, [to_wire(x), to_wire(sep)], lambda: f(x, sep), {'x': x, 'sep': sep}, oracle=True)

    for x in FIXED_STRINGS:
        for sep in ('', '^', '\x1d'):
            check_string('fixed-list', x, sep)

    # (w) the witnesses of the negated theorems
    witnesses_gone = check_witnesses()
    for name, m, sep, par, _ in INFO_ENCODE_WITNESSES:
        exp = add('witness:' + name, 'gs1.encode', [to_wire(m), to_wire(sep), par],
                  lambda: gs1_128.encode(m, sep, par), {'m': m, 'sep': sep, 'par': par}, oracle=True)
        if exp[0] == 'ok':
            check_string('witness:' + name, gs1_128.encode(m, sep, par), sep)
    for name, x, sep, v in VALIDATE_FIXED_WITNESSES:
        check_string('witness:' + name, x, sep)
        check_string('witness:' + name, v, sep)

    mappings = []
    for k in keys:                              # every identifier alone
        mappings.append(([(k, gen_value(rnd, table[k], True))], 'admitted'))
    for i in range(args.n):
        size = rnd.choice([1, 2, 2, 3, 3, 4, 5])
        chosen = rnd.sample(keys, size)
        x = rnd.random()
        if x < 0.6:
            mappings.append(([(k, gen_value(rnd, table[k], True)) for k in chosen], 'admitted'))
        elif x < 0.8:
            mappings.append(([(k, gen_value(rnd, table[k], False)) for k in chosen], 'admitted+parens'))
        elif x < 0.93:
            mappings.append(([(k, gen_odd_value(rnd) if rnd.random() < 0.5 else gen_value(rnd, table[k], False))
                              for k in chosen], 'odd-values'))
        else:
            items = [(k, gen_value(rnd, table[k], True)) for k in chosen]
            j = rnd.randrange(len(items))
            k, v = items[j]
            items[j] = (rnd.choice([k + rnd.choice(DIGITS), k[:-1], '', 'AB', k + 'x', '9', '٣' + k, ' ' + k, k + ' ']), v)
            mappings.append((items, 'odd-keys'))

    for items, kind in mappings:
        m = dict(items)
        count('mapping_sizes', str(len(m)))
        for k, v in m.items():
            count('value_types', type(v).__name__)
        seps = [rnd.choice(SEPARATORS), rnd.choice(SEPARATORS)]
        for sep in seps:
            par = rnd.random() < 0.5
            count('separators', repr(sep))
            exp = add('encode:' + kind, 'gs1.encode', [to_wire(m), to_wire(sep), par],
                      lambda: gs1_128.encode(m, sep, par), {'m': m, 'sep': sep, 'par': par}, oracle=True)
            if exp[0] == 'ok':
                enc = gs1_128.encode(m, sep, par)
                check_string('encoded:' + kind, enc, sep)
                if rnd.random() < 0.5:
                    check_string('encoded-mutated', mutate(rnd, enc, sep), sep)
            if kind.startswith('admitted'):
                hb = handbuilt(rnd, table, list(m.items()), sep, par)
                if hb is not None:
                    check_string('handbuilt', hb, sep)
                    if rnd.random() < 0.4:
                        check_string('handbuilt-mutated', mutate(rnd, hb, sep), sep)
    stdnum.iban.validate = recorder.real

    # run the model
    if args.keep:
        path = args.keep
    else:
        fd, path = tempfile.mkstemp(prefix='corr_gs1_', suffix='.req')
        os.close(fd)
    with open(path, 'w') as f:
        f.write('\n'.join(run.requests) + '\n')
    with open(path) as f:
        proc = subprocess.run(shlex.split(args.driver), stdin=f, stdout=subprocess.PIPE,
                              stderr=subprocess.PIPE, cwd=args.lean_dir, text=True)
    got = proc.stdout.splitlines()
    if not args.keep:
        os.unlink(path)

    evaluations = agree = 0
    disagreements = []
    for k, (label, exp, detail) in enumerate(run.checks):
        g = parse_response(got[k]) if k < len(got) else ('bad', '<no output>')
        if g == ('other', 'unmodelled'):
            dist['skipped_unmodelled'] += 1
            continue
        evaluations += 1
        if g[0] == exp[0] and g[1] == exp[1]:
            agree += 1
        else:
            disagreements.append({'check': label, 'request': short(run.requests[k], 300),
                                  'detail': {a: short(b, 300) for a, b in detail.items()},
                                  'python': short(exp, 500), 'lean': short(g, 500)})
    summary = {'seed': seed, 'evaluations': evaluations, 'agree': agree, 'disagreements': disagreements[:25],
               'n_disagreements': len(disagreements), 'distribution': dist,
               'witnesses': {'checked': len(INFO_ENCODE_WITNESSES) + len(VALIDATE_FIXED_WITNESSES) + 1,
                             'no_longer_reproduced_on_real_code': witnesses_gone}}
    if proc.returncode != 0 or len(got) != len(run.checks):
        summary['driver_error'] = {'returncode': proc.returncode, 'lines_out': len(got),
                                   'lines_expected': len(run.checks), 'stderr': proc.stderr[-2000:]}
    print(json.dumps(summary))
    sys.exit(1 if (disagreements or witnesses_gone or 'driver_error' in summary) else 0)


if __name__ == '__main__':
    main()
