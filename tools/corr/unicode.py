#!/venv/bin/python
"""Correspondence harness for PyRt/Unicode.lean, PyRt/Strip.lean, PyRt/Int.lean.

Part 1 (exhaustive): every per-character function of the model is evaluated on all 0x110000 code
points (`uni.range name lo hi`, 4096 code points per request line) and compared with CPython.
Part 2 (generated): >= --n strings / integers from structured generators (ASCII, mixed scripts, all
white-space variants at both ends, signs, underscores, final-sigma contexts, digit strings around
the 4300-digit limit, bases 2..36 with prefixes, %-formats of the library) through the string-level
targets of Driver/Unicode.lean.

  VERIF_SEED=3 python unicode.py --n 20000 --lean-dir /verif/lean
  python unicode.py --driver "/path/to/native/driver"     (any command reading lines on stdin)
  python unicode.py --no-exhaustive                       (generated part only)

Prints a JSON summary {"evaluations","agree","disagreements","distribution",...}; exit 1 on any
disagreement or driver failure.  All randomness comes from random.Random(VERIF_SEED).
"""
import argparse
import ctypes
import json
import os
import random
import shlex
import subprocess
import sys
import tempfile
import unicodedata
import _sre

from stdnum.de import handelsregisternummer

N = 0x110000
BLOCK = 0x1000


def capi(name):
    f = getattr(ctypes.pythonapi, name)
    f.restype = ctypes.c_uint32
    f.argtypes = [ctypes.c_uint32]
    return f


_to_upper = capi('_PyUnicode_ToUppercase')
_is_cased = capi('_PyUnicode_IsCased')
_is_ci = capi('_PyUnicode_IsCaseIgnorable')
AZ = 'abcdefghijklmnopqrstuvwxyz'


def _int1(s):
    try:
        return int(s)
    except ValueError:
        return None


def _intspace(ch):
    try:
        return int('1' + ch) == 1 and int(ch + '1') == 1
    except ValueError:
        return False


# per-character oracles: name -> function(code point, chr) -> JSON value
CHAR_FNS = {
    'decimal': lambda c, ch: unicodedata.decimal(ch, None),
    'digit': lambda c, ch: unicodedata.digit(ch, None),
    'isdecimal': lambda c, ch: ch.isdecimal(),
    'isdigit': lambda c, ch: ch.isdigit(),
    'isnumeric': lambda c, ch: ch.isnumeric(),
    'isalpha': lambda c, ch: ch.isalpha(),
    'isalnum': lambda c, ch: ch.isalnum(),
    'isspace': lambda c, ch: ch.isspace(),
    'islower': lambda c, ch: ch.islower(),
    'isupper': lambda c, ch: ch.isupper(),
    'istitle': lambda c, ch: unicodedata.category(ch) == 'Lt',
    'iscased': lambda c, ch: _is_cased(c) != 0,
    'iscaseignorable': lambda c, ch: _is_ci(c) != 0,
    'iszs': lambda c, ch: unicodedata.category(ch) == 'Zs',
    'isintspace': lambda c, ch: _intspace(ch),
    'upper': lambda c, ch: [ord(x) for x in ch.upper()],
    'lower': lambda c, ch: [ord(x) for x in ch.lower()],
    'upper1': lambda c, ch: _to_upper(c),
    'lower1': lambda c, ch: _sre.unicode_tolower(c),
    'nfdaz': lambda c, ch: [ord(x) for x in unicodedata.normalize('NFD', ch) if x in AZ],
    # string-level functions on the one-character string
    's.int': lambda c, ch: _int1(ch),
    's.tomin': lambda c, ch: [ord(x) for x in handelsregisternummer._to_min(ch)],
    's.isupper': lambda c, ch: ch.isupper(),
    's.islower': lambda c, ch: ch.islower(),
    's.strip': lambda c, ch: [ord(x) for x in ch.strip()],
}

# --------------------------------------------------------------------------- wire encoding


def enc_int(i):
    if abs(i) < 10 ** 18:
        return i
    return {'hex': ('-' if i < 0 else '') + '%x' % abs(i)}


def enc(x):
    if isinstance(x, bool) or x is None:
        return x
    if isinstance(x, int):
        return enc_int(x)
    if isinstance(x, str):
        return {'s': [ord(c) for c in x]}
    if isinstance(x, tuple):
        return {'t': [enc(y) for y in x]}
    raise TypeError(x)


def show(a):
    """repr of an argument tuple that survives integers above the 4300-digit limit"""
    return '(' + ', '.join(hex(x) if isinstance(x, int) and not isinstance(x, bool) and abs(x) >= 10 ** 18
                           else repr(x) for x in a)[:300] + ')'


def dumps(x):
    return json.dumps(x, separators=(',', ':'))


def outcome(f, *a):
    """canonical response line for the CPython result"""
    try:
        r = f(*a)
    except Exception:
        return 'err NonValidation'
    return 'ok ' + dumps(enc(r))


def same(exp, got):
    if exp == got:
        return True
    if exp.startswith('ok ') and got.startswith('ok '):
        try:
            return json.loads(exp[3:]) == json.loads(got[3:])
        except ValueError:
            return False
    return False


# --------------------------------------------------------------------------- oracles for targets

def py_fmt(f, *ints):
    return f % (ints if len(ints) != 1 else ints[0])


STR1 = {
    'str.upper': str.upper, 'str.lower': str.lower, 'str.isdigit': str.isdigit,
    'str.isdecimal': str.isdecimal, 'str.isnumeric': str.isnumeric, 'str.isalpha': str.isalpha,
    'str.isalnum': str.isalnum, 'str.isspace': str.isspace, 'str.isupper': str.isupper,
    'str.islower': str.islower, 'to_min': handelsregisternummer._to_min,
}
TARGETS = dict(STR1)
TARGETS.update({
    'str.strip': str.strip, 'str.lstrip': str.lstrip, 'str.rstrip': str.rstrip,
    'int': int, 'str_of_int': str, 'fmt': py_fmt,
    'int.mod': lambda a, b: a % b, 'int.floordiv': lambda a, b: a // b, 'int.divmod': divmod,
    'int.bit_length': lambda a: a.bit_length(),
})

# --------------------------------------------------------------------------- generators

SPACES = [chr(c) for c in range(N) if chr(c).isspace()]
NEAR_SPACES = ['\x00', '\x08', '\x0e', '\x1b', '\x7f', '\x84', '\x86', '\xad', '\u180e', '\u200b', '\u200c',
               '\u2060', '\ufeff', '\u2027', '\u202a']
DEC_ZEROS = [c for c in range(N) if unicodedata.decimal(chr(c), None) == 0]
DIGIT_NOT_DECIMAL = [chr(c) for c in range(N) if chr(c).isdigit() and not chr(c).isdecimal()]
NUMERIC_NOT_DIGIT = [chr(c) for c in range(N) if chr(c).isnumeric() and not chr(c).isdigit()][::7]
SPECIAL_CASE = [chr(c) for c in range(128, N)
                if len(chr(c).upper()) != 1 or len(chr(c).lower()) != 1
                or unicodedata.category(chr(c)) == 'Lt']
CASE_IGNORABLE = [chr(c) for c in range(N) if _is_ci(c)][::9] + ["'", '.', ':', '^', '`', '\xad', '\u0345', '\u02b0']
CASED_AND_CI = [chr(c) for c in range(N) if _is_ci(c) and _is_cased(c)]
LETTERS_MIXED = ('abcxyzABCXYZ'
                 '\xe4\xf6\xfc\xc4\xd6\xdc\xdf\xe9\xe8\xea\xf1\xe7\xf8\xe5\xc6\u0152\u0131\u0130\u0149\u017f\u01c5\u01c6\u01c8'
                 '\u03b1\u03b2\u03b3\u03c3\u03c2\u03a3\u0391\u03a9\u03ac\u0390\u03b0'
                 '\u0430\u0431\u0432\u0410\u0411\u0412\u0451\u0401' '\u0561\u0562\u0531\u0532\u0587'
                 '\u2170\u2177\u2160\u24d0\u24b6' '\uff58\uff38\uff41\uff21' '\u212a\u212b\u2126'
                 '\U00010400\U00010428\U0001e900\U0001e922' '\u1f80\u1f88\u1fb3\u1fbc\u1ffc'
                 '\ufb01\ufb02\ufb06\ufb13' '\u4e2d\u3042\u30a2\ud55c' '\ua641\ua640')
COMBINING = '\u0300\u0301\u0308\u0327\u0323\u031b\u0307\u0345\u093c\u05b0'
HANGUL = '\ud55c\uae00\uac01\ud7a3\uac00'
SURROGATES = '\ud800\U0010fc00\udfff'
SIGMA_ALPHABET = ['\u03a3', '\u03a3', '\u0391', '\u03c3', '\u03c2', 'a', 'B', '.', "'", ' ', '1', '\u0345', '\xad',
                  '\u0301', '\u02b0', '\u01c5', '\xdf', '-', '\u4e2d', '\U0001d400']
LIB_FORMATS = ['%d', '%02d', '%03d', '%010d', '%08d', '%08X', '%06X', '%02x', '%s', '%d%d', '%08X%06X',
               '%010d%08d', '%02d%02d%02d%03d', '%i', '%5d|', '%x', '%X', '%1d', '%0d', 'a%%b%03dc', '%12s|']


class Gen:
    def __init__(self, seed, n):
        self.r = random.Random(seed)
        self.n = n
        self.ops = []   # (stream, target, args)

    def emit(self, stream, target, *args):
        self.ops.append((stream, target, args))

    def emit_str_all(self, stream, s):
        for t in STR1:
            self.emit(stream, t, s)

    # -- building blocks
    def rand_char(self):
        r = self.r
        k = r.random()
        if k < 0.25:
            return chr(r.randrange(32, 127))
        if k < 0.45:
            return r.choice(LETTERS_MIXED)
        if k < 0.55:
            return r.choice(SPECIAL_CASE)
        if k < 0.62:
            return self.rand_digit()
        if k < 0.68:
            return r.choice(SPACES + NEAR_SPACES)
        if k < 0.74:
            return r.choice(COMBINING + HANGUL)
        if k < 0.78:
            return r.choice(DIGIT_NOT_DECIMAL + NUMERIC_NOT_DIGIT)
        if k < 0.82:
            return r.choice(CASE_IGNORABLE + CASED_AND_CI)
        if k < 0.84:
            return r.choice(SURROGATES)
        if k < 0.92:
            return chr(r.randrange(0x80, 0x3000))
        return chr(r.randrange(0, N))

    def rand_digit(self, ascii_p=0.5):
        r = self.r
        if r.random() < ascii_p:
            return r.choice('0123456789')
        return chr(r.choice(DEC_ZEROS) + r.randrange(10))

    def rand_text(self, lo=0, hi=12):
        return ''.join(self.rand_char() for _ in range(self.r.randint(lo, hi)))

    def ws(self, lo=0, hi=3, extra=True):
        pool = SPACES + (NEAR_SPACES if extra and self.r.random() < 0.15 else [])
        return ''.join(self.r.choice(pool) for _ in range(self.r.randint(lo, hi)))

    def rand_int(self):
        r = self.r
        k = r.random()
        if k < 0.3:
            v = r.randrange(0, 1000)
        elif k < 0.6:
            v = r.getrandbits(r.randint(1, 80))
        elif k < 0.9:
            v = r.getrandbits(r.randint(60, 400))
        else:
            v = r.choice([0, 1, 9, 10, 99, 100, 255, 256, 2 ** 31, 2 ** 32 - 1, 2 ** 32, 2 ** 64, 10 ** 17, 10 ** 18])
        return -v if r.random() < 0.3 else v

    # -- streams
    def gen_case(self, k):
        for _ in range(k):
            kind = self.r.random()
            if kind < 0.3:
                s = ''.join(chr(self.r.randrange(0, 128)) for _ in range(self.r.randint(0, 12)))
            elif kind < 0.4:
                s = ''.join(self.r.choice(LETTERS_MIXED) for _ in range(self.r.randint(1, 6)))
            else:
                s = self.rand_text()
            self.emit_str_all('case', s)

    def gen_sigma(self, k):
        S, A = '\u03a3', '\u0391'
        fixed = [S, A + S, A + S + '.', A + S + '.' + A, A + S + A, A + '.' + S, '.' + S, S + '.', S + S, A + S + S,
                 A + "'" + S + "'", A + "'" + S + "'" + '\u0392', 'a' + S, '1' + S, A + ' ' + S, A + S + ' ',
                 '\u1fbc' + S, '\u0345' + S, A + '\xad' + S + '\xad' + A, A + S + '\xad', '\u01c5' + S, S + A + S,
                 '\u1f48\u0394\u03a5\u03a3\u03a3\u0395\u038e\u03a3', A + S + '\u0301', '\u02b0' + S,
                 A + S + '\u02b0', S * 5, '\u0130' + S, A + S + '\u0130', '\xdf' + S]
        for s in fixed:
            self.emit('sigma', 'str.lower', s)
            self.emit('sigma', 'str.upper', s)
            self.emit('sigma', 'to_min', s)
        for _ in range(k):
            s = ''.join(self.r.choice(SIGMA_ALPHABET) for _ in range(self.r.randint(1, 7)))
            self.emit('sigma', 'str.lower', s)
            if self.r.random() < 0.2:
                self.emit('sigma', 'to_min', s)

    def gen_strip(self, k):
        for _ in range(k):
            core = self.rand_text(0, 6)
            s = self.ws() + core + self.ws()
            if self.r.random() < 0.2:
                s = self.ws(0, 2) + self.rand_text(0, 2) + self.ws(1, 2) + self.rand_text(0, 2) + self.ws(0, 2)
            which = self.r.choice(['str.strip', 'str.lstrip', 'str.rstrip'])
            self.emit('strip', which, s)
            if self.r.random() < 0.1:
                self.emit('strip', which, s, None)
            # with a chars argument
            pool = list(set(s)) + list('0 -.xX') + [self.rand_char()]
            chars = ''.join(self.r.choice(pool) for _ in range(self.r.randint(0, 4)))
            self.emit('strip', self.r.choice(['str.strip', 'str.lstrip', 'str.rstrip']), s, chars)

    def digits(self, n, ascii_p=0.7, alphabet=None):
        if alphabet:
            return ''.join(self.r.choice(alphabet) for _ in range(n))
        return ''.join(self.rand_digit(ascii_p) for _ in range(n))

    def with_underscores(self, d):
        r = self.r
        k = r.random()
        if k < 0.6 or not d:
            return d
        out = []
        for ch in d:
            out.append(ch)
            if r.random() < 0.25:
                out.append('_' if r.random() < 0.85 else '__')
        s = ''.join(out)
        if r.random() < 0.15:
            s = '_' + s
        if r.random() < 0.7:
            s = s.rstrip('_')
        return s

    def gen_int(self, k):
        r = self.r
        b36 = '0123456789abcdefghijklmnopqrstuvwxyzABCDEFGHIJKLMNOPQRSTUVWXYZ'
        for _ in range(k):
            kind = r.random()
            if kind < 0.45:     # int(s)
                body = self.with_underscores(self.digits(r.randint(0, 12), r.choice([1.0, 0.7, 0.0])))
                sign = r.choice(['', '', '', '+', '-', '+-', '- ', '\u2212'])
                s = self.ws() + sign + body + self.ws()
                if r.random() < 0.1:
                    i = r.randint(0, len(s))
                    s = s[:i] + self.rand_char() + s[i:]
                self.emit('int', 'int', s)
            elif kind < 0.9:    # int(s, base)
                base = r.choice([13, 16, 36, 13, 16, 36, 2, 8, 10, 0, 3, 7, 32, 35, 1, 37, 4, 11])
                alpha = b36 if r.random() < 0.3 else (b36[:max(base, 2)] + b36[36:36 + max(base - 10, 0)])
                body = self.with_underscores(self.digits(r.randint(0, 10), alphabet=alpha))
                if r.random() < 0.25:
                    body = body[:r.randint(0, len(body))] + self.rand_digit(0.0) + body[r.randint(0, len(body)):]
                prefix = r.choice(['', '', '', '0x', '0X', '0b', '0B', '0o', '0O', '0x_', '0b_', '0o_', '0x__', '0_x',
                                   '\uff10x', '0', '00', '0\uff58'])
                sign = r.choice(['', '', '', '+', '-'])
                s = self.ws(0, 2) + sign + prefix + body + self.ws(0, 2)
                if r.random() < 0.05:
                    i = r.randint(0, len(s))
                    s = s[:i] + self.rand_char() + s[i:]
                self.emit('int', 'int', s, base)
            else:               # the library's typical calls
                self.emit('int', 'int', self.digits(r.randint(1, 20), 1.0))
                self.emit('int', 'int', self.digits(r.randint(1, 8), alphabet='0123456789ABCDEFabcdef'), 16)
                self.emit('int', 'int', self.digits(r.randint(1, 8), alphabet=b36), 36)

    def gen_long(self):
        r = self.r
        for n in (639, 640, 641, 4298, 4299, 4300, 4301, 4302, 5000, 10000):
            for lead in ('', '0', '000'):
                d = lead + self.digits(n - len(lead), 1.0)
                self.emit('long', 'int', d)
                self.emit('long', 'int', '-' + d)
                self.emit('long', 'int', self.ws(1, 3, False) + d + self.ws(1, 3, False))
                self.emit('long', 'int', '_'.join(d[i:i + 3] for i in range(0, len(d), 3)))
                self.emit('long', 'int', self.digits(n, 0.5))
                for base in (13, 16, 36, 2, 8, 32, 3, 10, 0):
                    alpha = '0123456789abcdefghijklmnopqrstuvwxyz'[:base or 10]
                    nz = r.choice(alpha[1:])
                    self.emit('long', 'int', nz + self.digits(n - 1, alphabet=alpha), base)
            self.emit('long', 'int', '0x' + self.digits(n, alphabet='0123456789abcdef'), 16)
            self.emit('long', 'int', '0x' + self.digits(n, alphabet='0123456789abcdef'), 0)
            self.emit('long', 'int', '0' * n, 0)
            self.emit('long', 'int', ' ' * n + '7')
        for e in (4298, 4299, 4300, 4301, 5000):
            for v in (10 ** e - 1, 10 ** e, 10 ** e + r.getrandbits(64), -(10 ** e - 1), -(10 ** e)):
                self.emit('long', 'str_of_int', v)
                self.emit('long', 'fmt', '%d', v)
                self.emit('long', 'fmt', '%05d', v)
                self.emit('long', 'fmt', '%s', v)
                self.emit('long', 'fmt', '%X', v)
                self.emit('long', 'int.bit_length', v)

    def gen_ints(self, k):
        r = self.r
        for _ in range(k):
            v = self.rand_int()
            kind = r.random()
            if kind < 0.25:
                self.emit('ints', 'str_of_int', v)
            elif kind < 0.6:
                f = r.choice(LIB_FORMATS)
                if r.random() < 0.2:
                    f = '%' + r.choice(['', '0']) + r.choice(['', '1', '2', '5', '12', '30']) + r.choice('dxXsi')
                count = f.replace('%%', '').count('%')
                if r.random() < 0.6:
                    args = [r.randrange(-50, 1200) if r.random() < 0.7 else self.rand_int() for _ in range(count)]
                else:
                    args = [self.rand_int() for _ in range(count)]
                self.emit('ints', 'fmt', f, *args)
            elif kind < 0.9:
                a, b = self.rand_int(), self.rand_int()
                if r.random() < 0.3:
                    b = r.choice([0, 1, -1, 2, -2, 3, -3, 10, -10, 97, -97, 256])
                self.emit('ints', r.choice(['int.mod', 'int.floordiv', 'int.divmod']), a, b)
            else:
                self.emit('ints', 'int.bit_length', v)

    def generate(self):
        n = self.n
        self.gen_long()
        self.gen_sigma(n // 10)
        self.gen_case(n // 20)          # x 11 targets per string
        self.gen_strip(n // 6)          # x 2 evaluations
        self.gen_int(n // 3)
        self.gen_ints(n // 5)
        return self.ops


# --------------------------------------------------------------------------- main

def main():
    ap = argparse.ArgumentParser()
    ap.add_argument('--n', type=int, default=20000, help='size parameter of the generated part')
    ap.add_argument('--driver', default='lake env lean --run Driver/UnicodeMain.lean')
    ap.add_argument('--lean-dir', default='/verif/lean')
    ap.add_argument('--no-exhaustive', action='store_true')
    ap.add_argument('--keep', help='write the request lines to this file (default: temporary file)')
    args = ap.parse_args()
    seed = int(os.environ.get('VERIF_SEED', '1'))

    requests = []    # (stream, target, args-repr, line, expected, weight)
    if not args.no_exhaustive:
        chars = [chr(c) for c in range(N)]
        for name in sorted(CHAR_FNS):
            f = CHAR_FNS[name]
            for lo in range(0, N, BLOCK):
                hi = lo + BLOCK
                exp = 'ok ' + dumps([f(c, chars[c]) for c in range(lo, hi)])
                requests.append(('exhaustive', 'uni.range:' + name, '%s[%#x,%#x)' % (name, lo, hi),
                                 'uni.range\t' + dumps([name, lo, hi]), exp, BLOCK))
    for stream, target, a in Gen(seed, args.n).generate():
        requests.append((stream, target, show(a),
                         '%s\t%s' % (target, dumps([enc(x) for x in a])),
                         outcome(TARGETS[target], *a), 1))

    if args.keep:
        path = args.keep
    else:
        fd, path = tempfile.mkstemp(prefix='corr_unicode_', suffix='.req')
        os.close(fd)
    with open(path, 'w') as f:
        for q in requests:
            f.write(q[3] + '\n')
    with open(path) as f:
        proc = subprocess.run(shlex.split(args.driver), stdin=f, stdout=subprocess.PIPE,
                              stderr=subprocess.PIPE, cwd=args.lean_dir, text=True)
    got = proc.stdout.splitlines()
    if not args.keep:
        os.unlink(path)

    evaluations = agree = 0
    disagreements = []
    distribution = {}
    streams = {}
    for k, (stream, target, arepr, line, exp, weight) in enumerate(requests):
        g = got[k] if k < len(got) else '<no output>'
        d = distribution.setdefault(target, {'ok': 0, 'err': 0})
        d['ok' if exp.startswith('ok') else 'err'] += weight
        streams[stream] = streams.get(stream, 0) + weight
        evaluations += weight
        if same(exp, g):
            agree += weight
            continue
        if stream == 'exhaustive' and g.startswith('ok '):
            # locate the individual code points
            name, lo, _ = json.loads(line.split('\t', 1)[1])
            try:
                gl = json.loads(g[3:])
            except ValueError:
                gl = []
            el = json.loads(exp[3:])
            bad = [i for i in range(len(el)) if i >= len(gl) or gl[i] != el[i]]
            agree += weight - len(bad)
            for i in bad:
                disagreements.append({'stream': stream, 'target': target, 'args': 'U+%04X' % (lo + i),
                                      'python': dumps(el[i]), 'lean': dumps(gl[i]) if i < len(gl) else None})
        else:
            disagreements.append({'stream': stream, 'target': target, 'args': arepr,
                                  'python': exp[:300], 'lean': g[:300]})
    summary = {
        'seed': seed, 'python': sys.version.split()[0], 'unidata': unicodedata.unidata_version,
        'evaluations': evaluations, 'agree': agree,
        'disagreements': disagreements[:40], 'n_disagreements': len(disagreements),
        'distribution': distribution, 'streams': streams,
        'generated_evaluations': sum(v for s, v in streams.items() if s != 'exhaustive'),
    }
    if proc.returncode != 0 or len(got) != len(requests):
        summary['driver_error'] = {
            'returncode': proc.returncode, 'lines_out': len(got), 'lines_in': len(requests),
            'stderr': proc.stderr[-2000:]}
    print(json.dumps(summary))
    sys.exit(1 if (disagreements or 'driver_error' in summary) else 0)


if __name__ == '__main__':
    main()
