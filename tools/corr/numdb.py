#!/venv/bin/python
"""Correspondence harness for Spec/NumDB.lean (property C10).

(a) every shipped registry (stdnum/**/*.dat) and tests/numdb-test.dat: the tree built by the real
    `numdb.read(io.StringIO(text))` is compared with the model's `numdb.read_dump`, then `info`/`split`
    are compared on queries derived from the tree (range endpoints, endpoints +-1 in the last character,
    concatenations of endpoints down the tree, random strings over the file's alphabet, the empty
    string, strings longer than any prefix chain).  Also checks (Python only) that `numdb.get(name)`
    -- which iterates a codecs StreamReader, i.e. `str.splitlines` line boundaries -- builds the same
    tree as `read(io.StringIO(text))` for the shipped files.
(b) generated registry files (nesting <= 4, multi-range lines, overlapping ranges of equal and of
    different lengths, properties overriding each other, dedents, comment/blank lines, CRLF, tabs,
    Unicode white space and non-ASCII tokens, and a share of malformed files that make the real reader
    raise) x queries; also `numdb.read(iter(lines))` with lines containing inner newlines.

  VERIF_SEED=3 python numdb.py --n 5000 --lean-dir /verif/lean
  python numdb.py --driver /path/to/native/driver        (any command reading request lines on stdin)
  python numdb.py --all                                  (include oui.dat also when interpreting)

The default driver is the interpreter (`lake env lean --run Driver/NumDBMain.lean`); with it the
1.1 MB oui.dat is skipped unless `--all` is given.  A `--driver` command is assumed native and gets
all 17 files.  Prints a JSON summary and exits 1 on any disagreement.
"""
import argparse
import glob
import io
import json
import os
import random
import shlex
import subprocess
import sys
import tempfile

from stdnum import numdb

REPO = os.path.dirname(os.path.dirname(os.path.abspath(numdb.__file__)))
DEFAULT_DRIVER = 'lake env lean --run Driver/NumDBMain.lean'


# ---------------------------------------------------------------- wire encoding

def to_wire(v):
    if isinstance(v, bool) or v is None or isinstance(v, int):
        return v
    if isinstance(v, str):
        return {'s': [ord(c) for c in v]}
    if isinstance(v, tuple):
        return {'t': [to_wire(x) for x in v]}
    if isinstance(v, list):
        return [to_wire(x) for x in v]
    if isinstance(v, dict):
        return {'d': [[to_wire(k), to_wire(x)] for k, x in v.items()]}
    raise TypeError(type(v))


def request(target, args):
    return '%s\t%s' % (target, json.dumps([to_wire(a) for a in args], separators=(',', ':')))


def response(f):
    """evaluate the real code; returns ('ok', wire value) or ('err', class)"""
    try:
        r = f()
    except RecursionError:
        raise
    except Exception:  # noqa: B902 (everything numdb can raise is outside the ValidationError tree)
        return ('err', 'NonValidation')
    return ('ok', to_wire(r))


def parse_response(line):
    if line.startswith('ok '):
        try:
            return ('ok', json.loads(line[3:]))
        except ValueError:
            return ('bad', line[:200])
    if line.startswith('err '):
        return ('err', line[4:].strip())
    return ('bad', line[:200])


# ---------------------------------------------------------------- the real code

def real_read(text):
    return numdb.read(io.StringIO(text))


def dump(prefixes):
    return [[length, low, high, props, dump(children)] for length, low, high, props, children in prefixes]


# ---------------------------------------------------------------- queries

def bump(s, d):
    """s with the last character moved by d code points (None if impossible)"""
    if not s:
        return None
    c = ord(s[-1]) + d
    if c < 0 or c > 0x10ffff or 0xd800 <= c <= 0xdfff:
        return None
    return s[:-1] + chr(c)


def all_entries(prefixes, depth=0, out=None, limit=200000):
    out = [] if out is None else out
    for e in prefixes:
        if len(out) >= limit:
            break
        out.append((depth, e))
        all_entries(e[4], depth + 1, out, limit)
    return out


def chain(rnd, prefixes):
    """concatenation of endpoints down the tree"""
    s, level = '', prefixes
    while level:
        e = rnd.choice(level)
        s += rnd.choice((e[1], e[2]))
        level = e[4]
        if rnd.random() < 0.15:
            break
    return s


def make_queries(rnd, prefixes, text, n):
    """list of (class, query)"""
    ents = all_entries(prefixes)
    qs = [('empty', '')]
    alphabet = sorted({c for _, e in ents[:5000] for c in e[1] + e[2]}) or list('0123456789')
    rest_alpha = alphabet + [' ', '-', '\n', chr(ord(alphabet[-1]) + 1), chr(max(0, ord(alphabet[0]) - 1))]
    longest = 0
    if ents:
        longest = max(e[0] for _, e in ents[:5000]) * (1 + max(d for d, _ in ents[:5000]))
    per = max(1, n // 7)
    for _ in range(per):
        if not ents:
            break
        d, e = rnd.choice(ents)
        end = rnd.choice((e[1], e[2]))
        pre = ''
        if d > 0:
            # walk down from the root to some entry at this depth to get a plausible prefix
            pre = chain(rnd, prefixes)
        qs.append(('endpoint', end))
        qs.append(('endpoint+tail', end + ''.join(rnd.choice(alphabet) for _ in range(rnd.randint(0, 6)))))
        for dd in (-1, 1):
            b = bump(end, dd)
            if b is not None:
                qs.append(('endpoint%+d' % dd, b + ''.join(rnd.choice(alphabet) for _ in range(rnd.randint(0, 3)))))
        qs.append(('chain+endpoint', pre + end))
        qs.append(('endpoint-cut', end[:rnd.randint(0, len(end))]))
    for _ in range(per):
        c = chain(rnd, prefixes)
        qs.append(('chain', c))
        qs.append(('chain+tail', c + ''.join(rnd.choice(rest_alpha) for _ in range(rnd.randint(1, 5)))))
        b = bump(c, rnd.choice((-1, 1)))
        if b is not None:
            qs.append(('chain+-1', b))
    for _ in range(per):
        qs.append(('random', ''.join(rnd.choice(alphabet) for _ in range(rnd.randint(1, 12)))))
    for _ in range(max(1, per // 4)):
        qs.append(('random-wide', ''.join(rnd.choice(rest_alpha) for _ in range(rnd.randint(1, 8)))))
        qs.append(('long', ''.join(rnd.choice(alphabet) for _ in range(longest + rnd.randint(1, 10)))))
    rnd.shuffle(qs)
    return qs[:max(n, 8)]


# ---------------------------------------------------------------- generated files

KEYS = ['a', 'b', 'prop1', 'x-y', 'k_1', 'Z9', '-', '_']
VALUES = ['', '1', 'foo', 'foo bar', 'a=b', "it's", 'é中', 'x,y-z', ' lead', 'tab\there', '#', 'v　w', 'k="']
ALPHABETS = ['01', '012', '0123456789', '0123456789', 'abc', '09AZaz', '0a٣é', '0123456789ABCDEF', '#"=1']
SEPS = [' ', ' ', ' ', '  ', '\t', ' \t ', '　', '\xa0', '\x0b', '\x1c', '\x85', ' ', '\r', '']
BLANKS = ['', '   ', '\t', ' \t', '　', '\x0c', '\x1f ', '\r']
COMMENTS = ['#', '# comment', '#0-9 a="b"', '#\t', '##']
GARBAGE = ['\t12 a="b"', '-12', ',12', ' -', ' ,', '\x0b12', '\xa012 a="1"', '-', ',', ' 　12']
ODD = ['12-', '12--13', '12-13-14', '12,,13', '12,13-', '12,-13', '12-,13', '1-2,3-4,', '12 -', '12 ,13',
       '12 a=b', '12 a="b', '12 a="b" a="c" b="d" a="e"', '12 ="x" é="y" a= "z" -_-="w"',
       '12a="x"', '12 a="x"b="y"', '12 "a"="b"', '12 a=""', '12  a="1"   b="2"  ', '12 A-b_9="q" junk c="r"']


class FileGen:
    def __init__(self, rnd):
        self.rnd = rnd

    def token(self, alphabet, k=None):
        r = self.rnd
        k = k if k is not None else r.choice((1, 1, 2, 2, 3, 4))
        return ''.join(r.choice(alphabet) for _ in range(k))

    def range_(self, alphabet):
        r = self.rnd
        low = self.token(alphabet)
        x = r.random()
        if x < 0.45:
            return low
        if x < 0.9:
            high = self.token(alphabet, len(low))
            if high < low and r.random() < 0.9:
                low, high = high, low
            return low + '-' + high
        return low + '-' + self.token(alphabet)      # different length / unordered

    def props(self):
        r = self.rnd
        parts = []
        for _ in range(r.choice((0, 1, 1, 2, 2, 3, 5))):
            parts.append('%s="%s"' % (r.choice(KEYS), r.choice(VALUES)))
            if r.random() < 0.05:
                parts.append(r.choice(['junk', '=', '"', 'a=', 'b="', '-']))
        sep = ' ' if r.random() < 0.85 else r.choice(SEPS)
        return sep.join(parts)

    def line(self, indent, alphabet, wild):
        r = self.rnd
        if wild and r.random() < 0.08:
            return ' ' * indent + r.choice(ODD)
        ranges = ','.join(self.range_(alphabet) for _ in range(r.choice((1, 1, 1, 2, 2, 3, 4))))
        sep = ' ' if r.random() < 0.8 else r.choice(SEPS)
        p = self.props()
        if not p and r.random() < 0.5:
            sep = r.choice(['', ' ', '  ', '\t'])
        return ' ' * indent + ranges + sep + p

    def level(self, out, depth, indent, alphabet, wild, max_depth):
        r = self.rnd
        for _ in range(r.choice((1, 2, 2, 3, 3, 4, 6)) if depth else r.choice((1, 2, 3, 4, 5, 8))):
            if r.random() < 0.08:
                out.append(r.choice(COMMENTS))
            if r.random() < 0.08:
                out.append(r.choice(BLANKS))
            if r.random() < 0.04 and indent > 0:
                out.append(' ' * indent + '# not a comment')
            out.append(self.line(indent, alphabet, wild))
            if depth < max_depth and r.random() < (0.55 if depth < 2 else 0.35):
                self.level(out, depth + 1, indent + r.choice((1, 2, 2, 4)), alphabet, wild, max_depth)

    def file(self):
        """returns (kind, text)"""
        r = self.rnd
        alphabet = r.choice(ALPHABETS)
        kind = r.choices(['plain', 'wild', 'indent-chaos', 'garbage', 'stale'], weights=[52, 23, 12, 7, 6])[0]
        out = []
        max_depth = r.choice((0, 1, 2, 3, 4, 4))
        if kind == 'stale':
            # a dedent to an indent that was opened under an earlier parent: Python appends to the OLD list
            a, b = r.sample(range(1, 6), 2)
            lo, hi = min(a, b), max(a, b)
            out.append(self.line(0, alphabet, False))
            out.append(self.line(lo, alphabet, False))
            if r.random() < 0.5:
                out.append(self.line(lo + r.randint(1, 3), alphabet, False))
            out.append(self.line(0, alphabet, False))
            out.append(self.line(hi, alphabet, False))
            out.append(self.line(lo, alphabet, False))
            for _ in range(r.randint(0, 3)):
                out.append(self.line(r.choice((0, lo, hi, hi + 2)), alphabet, False))
        elif kind == 'indent-chaos':
            # random indents: dedents to unseen indents (KeyError), first line indented (IndexError),
            # stale stack entries
            pool = r.sample(range(0, 7), r.randint(2, 4))
            if r.random() < 0.8:
                pool.append(0)
            ind = 0 if r.random() < 0.85 else r.choice(pool)
            for _ in range(r.randint(2, 14)):
                out.append(self.line(ind, alphabet, False))
                ind = r.choice(pool)
        else:
            self.level(out, 0, 0, alphabet, kind != 'plain', max_depth)
            if kind == 'garbage':
                out.insert(r.randint(0, len(out)), r.choice(GARBAGE))
        eol = '\r\n' if r.random() < 0.12 else '\n'
        text = eol.join(out)
        if r.random() < 0.8:
            text += eol
        if r.random() < 0.05:
            text = ''
        return kind, text

    def lines_case(self):
        """a list of lines for read(iter(lines)): inner newlines, empty strings"""
        r = self.rnd
        alphabet = r.choice(ALPHABETS)
        out = []
        for _ in range(r.randint(1, 5)):
            ln = self.line(r.choice((0, 0, 0, 1, 2)), alphabet, True)
            x = r.random()
            if x < 0.25:
                ln += r.choice(['\n', '\n\n', '\n \n', ' \n\nz="1"\n', '\nq', ' x\n\n', '\n\n\n', ' a="\n"\n'])
            elif x < 0.35:
                ln = r.choice(['', '\n', ' ', '#', '\n1', '1\n2\n'])
            else:
                ln += '\n'
            out.append(ln)
        return out


def properly_nested(text):
    """every dedent returns to an open indent (what a conventional indentation parser accepts)"""
    open_indents = []
    for line in text.split('\n'):
        if not line.strip() or line[0] == '#':
            continue
        indent = len(line) - len(line.lstrip(' '))
        dedent = False
        while open_indents and open_indents[-1] > indent:
            open_indents.pop()
            dedent = True
        if not open_indents:
            if indent != 0:
                return False
            open_indents.append(0)
        elif open_indents[-1] < indent:
            if dedent:
                return False
            open_indents.append(indent)
    return True


# ---------------------------------------------------------------- main

class Run:
    def __init__(self):
        self.requests = []      # request lines
        self.checks = []        # (label, expected, postprocess, info for report)

    def add(self, label, target, args, expected, detail, unpack=None):
        self.requests.append(request(target, args))
        self.checks.append((label, expected, detail, unpack))


def short(s, k=300):
    s = repr(s)
    return s if len(s) <= k else s[:k] + '...(%d chars)' % len(s)


def main():
    ap = argparse.ArgumentParser()
    ap.add_argument('--n', type=int, default=5000, help='approximate number of generated-file queries')
    ap.add_argument('--shipped-queries', type=int, default=400, help='queries per shipped file')
    ap.add_argument('--driver', default=DEFAULT_DRIVER)
    ap.add_argument('--lean-dir', default='/verif/lean')
    ap.add_argument('--all', action='store_true', help='include oui.dat also with the interpreted driver')
    ap.add_argument('--no-shipped', action='store_true')
    ap.add_argument('--keep', help='write the request lines to this file')
    args = ap.parse_args()
    seed = int(os.environ.get('VERIF_SEED', '1'))
    rnd = random.Random(seed)
    native = args.driver != DEFAULT_DRIVER

    run = Run()
    distribution = {'files': {}, 'query_classes': {}, 'outcomes': {'ok': 0, 'err': 0}, 'parts': {},
                    'generated_file_kinds': {}, 'generated_read_outcomes': {'ok': 0, 'err': 0}}
    python_only = []
    skipped = []

    def count_info(cls, exp):
        distribution['query_classes'][cls] = distribution['query_classes'].get(cls, 0) + 1
        distribution['outcomes'][exp[0]] += 1
        if exp[0] == 'ok':
            k = str(min(len(exp[1]), 6))
            distribution['parts'][k] = distribution['parts'].get(k, 0) + 1

    def add_queries(label, text, db, qs, single_share):
        """compare info on all queries (batched), and info/split one by one on a share of them"""
        if db is None:
            exp_many = ('err', 'NonValidation')
        else:
            exp_many = ('ok', [to_wire(db.info(q)) for _, q in qs])
        run.add(label + ':info_many', 'numdb.info_many', [text, [q for _, q in qs]], exp_many,
                {'file': label, 'queries': [q for _, q in qs]}, unpack=[c for c, _ in qs])
        for cls, q in qs:
            if db is not None:
                count_info(cls, ('ok', db.info(q)))
            else:
                count_info(cls, ('err', None))
        for cls, q in qs[:single_share]:
            run.add(label + ':info', 'numdb.info', [text, q],
                    response(lambda: real_read(text).info(q)), {'file': label, 'query': q})
            run.add(label + ':split', 'numdb.split', [text, q],
                    response(lambda: real_read(text).split(q)), {'file': label, 'query': q})

    # (a) shipped registries
    if not args.no_shipped:
        files = sorted(glob.glob(os.path.join(REPO, 'stdnum', '**', '*.dat'), recursive=True))
        files.append(os.path.join(REPO, 'tests', 'numdb-test.dat'))
        for path in files:
            rel = os.path.relpath(path, REPO)
            with open(path, 'rb') as f:
                text = f.read().decode('utf-8')
            db = real_read(text)
            if rel.startswith('stdnum'):
                name = rel[len('stdnum/'):-len('.dat')]
                numdb._open_databases.pop(name, None)
                same = dump(numdb.get(name).prefixes) == dump(db.prefixes)
                python_only.append({'file': rel, 'get_equals_read_stringio': same})
            if len(text) > 500000 and not (native or args.all):
                skipped.append(rel)
                continue
            distribution['files'][rel] = {'bytes': len(text), 'entries': len(all_entries(db.prefixes))}
            run.add(rel + ':read_dump', 'numdb.read_dump', [text], ('ok', to_wire(dump(db.prefixes))),
                    {'file': rel})
            qs = make_queries(rnd, db.prefixes, text, args.shipped_queries)
            add_queries(rel, text, db, qs, single_share=2 if len(text) < 100000 else 0)

    # (b) generated files
    gen = FileGen(rnd)
    budget = args.n
    gi = 0
    while budget > 0:
        gi += 1
        kind, text = gen.file()
        distribution['generated_file_kinds'][kind] = distribution['generated_file_kinds'].get(kind, 0) + 1
        label = 'gen%d(%s)' % (gi, kind)
        try:
            db = real_read(text)
        except Exception:  # noqa: B902
            db = None
        distribution['generated_read_outcomes']['ok' if db is not None else 'err'] += 1
        if db is not None and not properly_nested(text):
            distribution['generated_read_outcomes']['ok_but_ill_nested(stale stack entry used)'] = \
                distribution['generated_read_outcomes'].get('ok_but_ill_nested(stale stack entry used)', 0) + 1
        run.add(label + ':read_dump', 'numdb.read_dump', [text],
                ('ok', to_wire(dump(db.prefixes))) if db is not None else ('err', 'NonValidation'),
                {'text': text})
        if db is not None:
            nq = rnd.choice((8, 16, 24, 40))
            qs = make_queries(rnd, db.prefixes, text, nq)
            add_queries(label, text, db, qs, single_share=1)
            budget -= len(qs)
        else:
            add_queries(label, text, None, [('empty', ''), ('random', '12')], single_share=1)
            budget -= 2
        if gi % 4 == 0:
            lines = gen.lines_case()
            run.add('lines%d:read_lines_dump' % gi, 'numdb.read_lines_dump', [lines],
                    response(lambda: dump(numdb.read(iter(lines)).prefixes)), {'lines': lines})

    # run the model
    if args.keep:
        path = args.keep
    else:
        fd, path = tempfile.mkstemp(prefix='corr_numdb_', suffix='.req')
        os.close(fd)
    with open(path, 'w') as f:
        f.write('\n'.join(run.requests) + '\n')
    with open(path) as f:
        proc = subprocess.run(shlex.split(args.driver), stdin=f, stdout=subprocess.PIPE,
                              stderr=subprocess.PIPE, cwd=args.lean_dir, text=True)
    got = proc.stdout.splitlines()
    if not args.keep:
        os.unlink(path)

    evaluations = agree = 0
    disagreements = []
    for k, (label, exp, detail, unpack) in enumerate(run.checks):
        g = parse_response(got[k]) if k < len(got) else ('bad', '<no output>')
        if unpack is not None and exp[0] == 'ok' and g[0] == 'ok' and isinstance(g[1], list) \
                and len(g[1]) == len(exp[1]):
            # one evaluation per query of the batch
            for cls, q, e1, g1 in zip(unpack, detail['queries'], exp[1], g[1]):
                evaluations += 1
                if e1 == g1:
                    agree += 1
                else:
                    disagreements.append({'check': label, 'class': cls, 'file': short(detail.get('file')),
                                          'query': short(q), 'python': short(e1), 'lean': short(g1)})
            continue
        n_ev = len(unpack) if unpack is not None else 1
        evaluations += n_ev
        if g == exp:
            agree += n_ev
        else:
            disagreements.append({'check': label, 'detail': {a: short(b, 600) for a, b in detail.items()},
                                  'python': short(exp, 600), 'lean': short(g, 600)})
    bad_get = [p for p in python_only if not p['get_equals_read_stringio']]
    summary = {
        'seed': seed, 'evaluations': evaluations, 'agree': agree,
        'disagreements': disagreements[:20], 'n_disagreements': len(disagreements),
        'distribution': distribution, 'generated_files': gi, 'skipped_files': skipped,
        'python_only': {'get_vs_read_stringio_mismatch': bad_get, 'files_checked': len(python_only)},
    }
    if proc.returncode != 0 or len(got) != len(run.checks):
        summary['driver_error'] = {
            'returncode': proc.returncode, 'lines_out': len(got), 'lines_expected': len(run.checks),
            'stderr': proc.stderr[-2000:]}
    print(json.dumps(summary))
    sys.exit(1 if (disagreements or bad_get or 'driver_error' in summary) else 0)


if __name__ == '__main__':
    main()
