#!/venv/bin/python
"""Correspondence harness for Spec/Wsgi.lean (property C18).

Compares the Lean model of online_check/stdnum.wsgi with the real code, in-process:

  stream        model target         real code
  escape        wsgi.escape          html.escape(s, quote)
  unescape      wsgi.unescape        html.unescape on the range of html.escape (and round trip)
  page          wsgi.page            template % dict(value=..., results=...)
  format_entry  wsgi.format_entry    stdnum.wsgi format(data)
  conversions   wsgi.conversions     stdnum.wsgi dict(get_conversions(module, number)) on synthetic modules
  application   wsgi.application     stdnum.wsgi application(environ, start_response), two requests in one
                                     process, with get_number_modules() replaced by synthetic modules whose
                                     is_valid/compact/format/to_*/get_* return or raise prescribed outcomes

What is NOT compared (outside the model, see Spec/Wsgi.lean): urllib.parse.parse_qs (used here to parse
the generated query string for both sides), json.dumps (the JSON body is parsed back and compared
structurally), the two re.sub calls on the module description (the processed description is computed
here with the same three statements and handed to the model as its `descr`).
The model of `%` formatting is stricter than CPython (it rejects every directive other than `%%` and
`%(key)s`): templates containing other directives are generated in the class `foreign`, where the only
requirement is "model accepts => same result"; they are reported as `model_stricter`.

  VERIF_SEED=3 python wsgi.py --n 3000 --lean-dir /verif/lean
  python wsgi.py --driver "/path/to/driver"      (any command reading request lines on stdin)

Prints a JSON summary {"evaluations","agree","disagreements","distribution",...}; exit 1 on disagreement.
"""
import argparse
import datetime
import decimal
import html
import importlib.machinery
import json
import os
import random
import re
import shlex
import shutil
import subprocess
import sys
import tempfile
import types
import urllib.parse
import warnings

warnings.simplefilter('ignore')

REPO = os.environ.get('VERIF_REPO', '/repo')
WSGI_PATH = os.path.join(REPO, 'online_check', 'stdnum.wsgi')
TEMPLATE_PATH = os.path.join(REPO, 'online_check', 'template.html')


def load_wsgi():
    so = sys.stdout
    try:
        mod = importlib.machinery.SourceFileLoader('stdnum_wsgi', WSGI_PATH).load_module()
    finally:
        sys.stdout = so
    return mod


W = load_wsgi()
from stdnum import exceptions as stdnum_exceptions  # noqa: E402
from stdnum.util import get_module_description, get_module_name  # noqa: E402


# ----------------------------------------------------------------------------- wire

def sw(s):
    return {'s': [ord(c) for c in s]}


def val_wire(v):
    """value -> wire (see Driver/Wsgi.lean: convOfJson).  Non-strings carry their str() text, which is what
    format() shows since upstream commit 6b1a6e2 (`html.escape(str(conversion))`)."""
    if isinstance(v, str):
        return sw(v)
    if v is None:
        return None
    if isinstance(v, bool):
        return v
    if isinstance(v, int):
        return v                                  # the model computes str(int) itself (Py.strOfInt)
    if isinstance(v, decimal.Decimal):
        return {'dec': sw(str(v))}                # not JSON-serialisable
    if isinstance(v, (dict, tuple, list, float)):
        return {'o': sw(str(v))}                  # JSON-serialisable object
    raise TypeError(v)


def conv_class(v):
    """the model's view of a Python value (JSON half: other objects are not compared by content)"""
    if isinstance(v, str):
        return ('str', v)
    if v is None:
        return ('none',)
    if isinstance(v, bool):
        return ('bool', v)
    if isinstance(v, int):
        return ('int', v)
    if isinstance(v, decimal.Decimal):
        return ('nojson',)
    return ('other',)


def conv_from_model(j):
    if j is None:
        return ('none',)
    if isinstance(j, bool):
        return ('bool', j)
    if isinstance(j, int):
        return ('int', j)
    if isinstance(j, dict) and 's' in j:
        return ('str', ''.join(chr(c) for c in j['s']))
    if isinstance(j, dict) and 'nojson' in j:
        return ('nojson',)
    return ('other',)


def from_s(j):
    return ''.join(chr(c) for c in j['s'])


EXC_NAMES = {
    'InvalidFormat', 'InvalidLength', 'InvalidChecksum', 'InvalidComponent', 'ValidationError',
    'ValueError', 'TypeError', 'IndexError', 'KeyError', 'AttributeError', 'ZeroDivisionError',
    'OverflowError', 'StopIteration'}


def exc_name(e):
    n = type(e).__name__
    if isinstance(e, UnicodeError):
        return 'UnicodeError'
    return n if n in EXC_NAMES else 'Exception'


# ----------------------------------------------------------------------------- string generators

MARKUP = ['<', '>', '&', '"', "'", '<b>', '</i>', '<script>', '&&&', '&amp;', '&lt;', '&gt;', '&quot;',
          '&#x27;', '&amp;lt;', '&amp;amp;', '&#38;', '&#x3C;', '&nbsp;', '&am', '&;', '<x9q">\'&',
          '%', '%%', '%s', '%(value)s', '%(results)s', '\\', '/', '=', ';', '#']
ASCII = 'abcxyzABC0123456789 -._:/'
CONTROL = [chr(c) for c in list(range(0, 32)) + [127, 0x85, 0xa0]]
BMP = ['é', 'ß', 'Ж', '٣', '３', '中', '​', ' ', '﻿', '￿', '�', '­', '̸']
ASTRAL = ['\U0001d7d1', '\U0001f600', '\U00010000', '\U0010ffff', '\U000e0041']
SURROGATES = ['\ud800', '\udbff', '\udc00', '\udfff']


class Strings:
    def __init__(self, rng):
        self.r = rng

    def anychar(self, surrogates=True):
        r = self.r
        k = r.randrange(10)
        if k < 3:
            return r.choice(ASCII)
        if k < 5:
            return r.choice(MARKUP)
        if k == 5:
            return r.choice(CONTROL)
        if k == 6:
            return r.choice(BMP)
        if k == 7:
            return r.choice(ASTRAL)
        if k == 8:
            c = r.randrange(0x110000)
            if 0xD800 <= c <= 0xDFFF and not surrogates:
                c = 0xE000
            return chr(c)
        return r.choice(SURROGATES) if surrogates and r.randrange(4) == 0 else r.choice('<>&"\'')

    def text(self, surrogates=True, maxlen=24):
        r = self.r
        k = r.randrange(12)
        if k == 0:
            return ''
        if k == 1:
            return r.choice(MARKUP)
        if k == 2:       # ampersand runs / entity-like text
            return ''.join(r.choice(['&', '&amp;', 'amp;', '&lt', ';', 'lt;', '#x27;', '&#', 'a']) for _ in range(r.randint(1, 10)))
        if k == 3:       # only specials
            return ''.join(r.choice('<>&"\'') for _ in range(r.randint(1, 30)))
        if k == 4:       # long
            return ''.join(self.anychar(surrogates) for _ in range(r.randint(100, 400)))
        return ''.join(self.anychar(surrogates) for _ in range(r.randint(1, maxlen)))

    def plain(self, maxlen=12):
        """text without '%' and parentheses, for template literals"""
        s = self.text(surrogates=False, maxlen=maxlen)
        return s.replace('%', '').replace('(', '').replace(')', '')


# ----------------------------------------------------------------------------- description processing

def process_description(description):
    """the first three statements of format(data) in stdnum.wsgi — the model's `descr`
    (trusted docstring text; not part of the comparison)"""
    description = html.escape(description).replace('\n\n', '<br/>\n')
    description = re.sub(
        r'^[*] (.*)$', r'<ul><li>\1</li></ul>',
        description, flags=re.MULTILINE)
    description = re.sub(
        r'\b((https?|ftp)://[^\s<]*[-\w+&@#/%=~_|])',
        r'<a href="\1">\1</a>',
        description, flags=re.IGNORECASE + re.UNICODE)
    return description


def regex_free(s):
    """the two re.sub calls of format() are the identity on html.escape(s)"""
    return not re.search(r'^[*] ', s, flags=re.MULTILINE) and not re.search(r'(https?|ftp)://', s, flags=re.IGNORECASE)


# ----------------------------------------------------------------------------- synthetic modules

RAISABLE = {
    'InvalidFormat': stdnum_exceptions.InvalidFormat, 'InvalidLength': stdnum_exceptions.InvalidLength,
    'InvalidChecksum': stdnum_exceptions.InvalidChecksum, 'InvalidComponent': stdnum_exceptions.InvalidComponent,
    'ValueError': ValueError, 'TypeError': TypeError, 'IndexError': IndexError, 'KeyError': KeyError,
    'AttributeError': AttributeError, 'ZeroDivisionError': ZeroDivisionError}


class Raise:
    def __init__(self, name):
        self.name = name


ABSENT = object()   # the synthetic module has no such function


def make_func(name, params, outcome):
    """a real function object `def name(params): ...` with a prescribed outcome"""
    ns = {'_outcome': outcome, 'Raise': Raise, 'RAISABLE': RAISABLE}
    src = (
        'def %s(%s):\n'
        '    if isinstance(_outcome, Raise):\n'
        '        raise RAISABLE[_outcome.name]("prescribed")\n'
        '    if _outcome == "identity":\n'
        '        return number\n'
        '    return _outcome\n') % (name, params)
    exec(src, ns)   # noqa: S102 (our own source)
    return ns[name]


def outcome_wire(o):
    if isinstance(o, Raise):
        return {'raise': o.name}
    if isinstance(o, datetime.date):
        return {'date': sw(o.strftime('%Y-%m-%d'))}
    return val_wire(o)


class ModGen:
    def __init__(self, rng, strings):
        self.r = rng
        self.s = strings

    def value(self, number, encodable):
        """what a conversion function returns"""
        r = self.r
        k = r.randrange(20)
        if k < 9:
            return self.s.text(surrogates=not encodable)
        if k == 9:
            return number                     # filtered by `conversion != number`
        if k == 10:
            return r.choice([0, 7, 1985, -3, 10 ** 20, -10 ** 40, r.randrange(-10 ** 6, 10 ** 6), r.randrange(10 ** 30)])
        if k == 11:
            return None
        if k == 12:
            return r.choice([{'county': 'x', 'province': '<y>'}, {}, ('a', 'b'), ['l'], True, False, 1.5, ('<&>', 1), (),
                             {'k': self.s.text(surrogates=not encodable, maxlen=6)}, [self.s.text(surrogates=not encodable, maxlen=6), None]])
        if k == 13:
            return r.choice([decimal.Decimal('1.50'), decimal.Decimal('-0E-7'), decimal.Decimal('NaN')])
        if k == 14:
            return r.choice([datetime.date(1985, 7, 30), datetime.date(2000, 2, 29), datetime.datetime(1999, 12, 31, 23, 59)])
        if k == 15:
            return Raise(r.choice(sorted(RAISABLE)))
        return self.s.text(surrogates=False, maxlen=8)

    def module(self, idx, number, profile):
        """profile 'good': satisfies assumptions A and NoNojson of Props/C18.lean (is_valid total, compact/format
        strings, encodable text, conversions of any JSON-serialisable kind); 'wild': anything"""
        r = self.r
        good = profile == 'good'
        modname = 'zz.m%d%s' % (idx, r.choice(['', '_x', '.sub']))
        name_line = r.choice(['NN (Test number)', 'A <b> & "c"', 'X' + self.s.text(False, 6).replace('\n', ' ').replace('\r', ' ')])
        paragraphs = [r.choice(['The number <b>has</b> "parts" & more.', 'Second\nline.', self.s.plain()])
                      for _ in range(r.randint(0, 3))]
        if r.randrange(2):
            paragraphs.append('More information:')
            paragraphs.append('* https://example.org/a?b=c&d=e\n* http://x.test/<y>')
        if r.randrange(3) == 0:
            paragraphs.append('>>> validate("1")\n\'1\'')
        doc = name_line.strip() + '.\n\n' + '\n\n'.join(paragraphs)
        mod = types.ModuleType('stdnum.' + modname, doc)
        # is_valid
        if good:
            valid = r.randrange(3) > 0
        else:
            valid = r.choice([True, True, True, False, Raise(r.choice(sorted(RAISABLE)))])
        mod.validate = make_func('validate', 'number', 'identity')
        mod.is_valid = make_func('is_valid', 'number', valid)
        # compact / format
        spec = {}
        for fname in ('compact', 'format'):
            present = r.randrange(4) > 0
            if not present:
                spec[fname] = ABSENT
                continue
            if good or r.randrange(3) > 0:
                o = r.choice(['identity', self.s.text(surrogates=False, maxlen=10)])
            else:
                o = r.choice([Raise(r.choice(sorted(RAISABLE))), 5, None, {'a': 1}, decimal.Decimal('2')])
            spec[fname] = o
            setattr(mod, fname, make_func(fname, r.choice(['number', 'number, separator=" "']), o))
        # what the application will call: getattr(module, 'compact', lambda x: x), getattr(module, 'format', compactfn)
        compact_o = spec['compact'] if spec['compact'] is not ABSENT else 'identity'
        format_o = spec['format'] if spec['format'] is not ABSENT else compact_o
        # conversion functions
        getters = {}
        for _ in range(r.randint(0, 4)):
            prefix = r.choice(['to_', 'get_'])
            prop = r.choice(['birth_date', 'birth_year', 'gender', 'isbn13', 'x', 'bic', 'birth_place', 'a_b_c'])
            fname = prefix + prop
            if good:
                o = self.value(number, True)     # any kind of value: the page shows str(value)
                while isinstance(o, decimal.Decimal):   # ... but json.dumps rejects Decimal
                    o = self.value(number, True)
            else:
                o = self.value(number, False)
            getters[fname] = o
            setattr(mod, fname, make_func(fname, r.choice(['number', 'number, sep=""']), o))
        # functions get_conversions must ignore
        if r.randrange(2):
            mod.to_binary = make_func('to_binary', 'number', 'IGNORED')
            mod.get_two = make_func('get_two', 'number, other', 'IGNORED')
            mod.to_value = make_func('to_value', 'value', 'IGNORED')
            mod.helper = make_func('helper', 'number', 'IGNORED')
            mod.calc_check_digit = make_func('calc_check_digit', 'number', 'IGNORED')
        # the model's getter list: inspect.getmembers order = sorted by function name
        model_getters = [[sw(fname.split('_', 1)[1].replace('_', ' ')), outcome_wire(getters[fname])]
                         for fname in sorted(getters)]
        description = get_module_description(mod)
        wire = {
            'modname': sw(modname), 'name': sw(get_module_name(mod)), 'description': sw(description),
            'valid': outcome_wire(valid) if isinstance(valid, Raise) else valid,
            'compact': 'identity' if isinstance(compact_o, str) and compact_o == 'identity' else outcome_wire(compact_o),
            'format': 'identity' if isinstance(format_o, str) and format_o == 'identity' else outcome_wire(format_o),
            'getters': model_getters}
        return mod, wire, [sw(description), sw(process_description(description))]


# ----------------------------------------------------------------------------- generation of the evaluations

class Gen:
    def __init__(self, seed, n):
        self.r = random.Random(seed)
        self.s = Strings(self.r)
        self.n = n
        self.template = open(TEMPLATE_PATH, 'rb').read().decode('utf-8')
        self.tmp = tempfile.mkdtemp(prefix='corr_wsgi_')
        os.makedirs(os.path.join(self.tmp, 'oc'))
        self.evals = []     # (stream, label, request line, checker(model response line) -> None | str)

    # -- escape / unescape
    def gen_escape(self):
        s = self.s.text()
        q = self.r.randrange(3) > 0
        exp = 'ok ' + json.dumps(sw(html.escape(s, q)), separators=(',', ':'))
        self.add('escape', 'quote=%s' % q, 'wsgi.escape', [sw(s), q], lambda got: None if got == exp else 'python ' + exp[:300])

    def gen_unescape(self):
        s = self.s.text()
        q = self.r.randrange(2) == 0
        e = html.escape(s, q)
        # on the range of escape the model's unescape must return s (html.unescape does too: it is a
        # single left-to-right pass and every '&' of e starts one of the five entities)
        if html.unescape(e) != s:
            raise AssertionError('html.unescape(html.escape(s)) != s for %r' % (s,))
        exp = 'ok ' + json.dumps(sw(s), separators=(',', ':'))
        self.add('unescape', 'round trip', 'wsgi.unescape', [sw(e)], lambda got: None if got == exp else 'expected ' + exp[:300])

    # -- page
    def gen_page(self):
        r = self.r
        foreign = False
        k = r.randrange(10)
        if k < 3:
            tpl = self.template
            if k == 2:   # mutate the real template
                i = r.randrange(len(tpl))
                tpl = tpl[:i] + r.choice(['%', '%%', '%(value)s', '%(x)s', '<', '']) + tpl[i + r.randrange(2):]
                foreign = True   # a lone '%' may meet any following character
        else:
            pieces = []
            for _ in range(r.randint(0, 8)):
                j = r.randrange(14)
                if j < 4:
                    pieces.append(self.s.plain())
                elif j < 6:
                    pieces.append('%(value)s')
                elif j < 8:
                    pieces.append('%(results)s')
                elif j == 8:
                    pieces.append('%%')
                elif j == 9:
                    pieces.append(r.choice(['%(other)s', '%()s', '%(value )s', '%(Value)s', '%(a(b)c)s', '%(value)s)s']))
                elif j == 10:
                    pieces.append(r.choice(['%!', '%z', '%?', '%(value)!', '%(value)z', '%(value)%', '%(value', '%(res(ults)s']))
                elif j == 11:
                    pieces.append(r.choice(['%s', '%d', '%5s', '%(value)r', '%(value)10s', '%(value)-3s', '%(value)d', '%c', '% s', '%(results).2s', '%(value)a']))
                    foreign = True
                elif j == 12:
                    pieces.append(r.choice(['(', ')', '()', 's', ')s']))
                else:
                    pieces.append(r.choice(['%', '%(', '%(value)']))
            tpl = ''.join(pieces)
            if any(p in ('%', '%(', '%(value)') for p in pieces[:-1]):
                foreign = True   # an incomplete directive that is not last: the next piece completes it
        value = self.s.text(surrogates=False)
        results = self.s.text(surrogates=False)
        try:
            py = ('ok', tpl % dict(value=value, results=results))
        except Exception as e:   # noqa: B902
            py = ('err', type(e).__name__)

        def check(got, py=py, foreign=foreign):
            if got.startswith('ok '):
                m = ('ok', from_s(json.loads(got[3:])))
            elif got.startswith('err '):
                m = ('err', got[4:])
            else:
                return 'driver said ' + got[:100]
            if m[0] == 'ok':
                return None if m == py else 'python %r' % (py,)
            if py[0] == 'err':
                if foreign:
                    return None    # the model stopped at a directive it does not know; CPython failed later
                if m[1] == 'KeyError':
                    return None if py[1] == 'KeyError' else 'python %r' % (py,)
                return None if py[1] in ('ValueError', 'TypeError') else 'python %r' % (py,)
            return 'STRICTER' if foreign else 'python %r' % (py,)
        self.add('page', 'foreign' if foreign else 'sub', 'wsgi.page', [sw(tpl), sw(value), sw(results)], check)

    # -- format(data)
    def gen_format_entry(self):
        r = self.r
        mg = ModGen(r, self.s)
        number = self.s.text() if r.randrange(8) else r.choice([5, None, {'a': 1}])
        name = self.s.text(maxlen=12)
        if r.randrange(3):
            description = self.s.text()
            while not regex_free(description):
                description = self.s.text()
            processed = html.escape(description).replace('\n\n', '<br/>\n')
            label = 'regex-free description'
        else:
            description = r.choice(['Para one.\n\nPara <two> & "three".', 'More information:\n\n* https://example.org/x?a=b&c=d\n* ftp://f.test/p',
                                    'See http://a.test/<b>.\n\n* item one\n* item two\n\n*not an item', '* a\n\n\n* b'])
            processed = process_description(description)
            label = 'docstring-like description'
        convs = {}
        for _ in range(r.randint(0, 4)):
            v = mg.value('12345', False)
            while isinstance(v, (Raise, datetime.date)):
                v = mg.value('12345', False)
            convs[self.s.text(maxlen=8)] = v
        data = dict(number=number, name=name, description=description, conversions=convs)
        if r.randrange(10) == 0:
            del data['conversions']     # data.get('conversions', {})
            convs = {}
        try:
            py = 'ok ' + json.dumps(sw(W.format(data)), separators=(',', ':'))
        except Exception as e:   # noqa: B902
            py = 'err ' + exc_name(e)
        args = [val_wire(number), sw(name), sw(processed), [[sw(k), val_wire(v)] for k, v in convs.items()]]
        nonstr = any(not isinstance(v, str) for v in convs.values())
        self.add('format_entry', label + (' / non-str conversion' if nonstr else '') + (' / error' if py.startswith('err') else ''), 'wsgi.format_entry', args,
                 lambda got: None if got == py else 'python ' + py[:300])

    # -- get_conversions
    def gen_conversions(self):
        r = self.r
        number = r.choice(['12345', '85073003328', self.s.text(maxlen=6)])
        mod, wire, _ = ModGen(r, self.s).module(0, number, 'wild')
        py = dict(W.get_conversions(mod, number))
        exp = {k: conv_class(v) for k, v in py.items()}

        def check(got, exp=exp):
            if not got.startswith('ok '):
                return 'driver said ' + got[:100]
            pairs = json.loads(got[3:])
            m = [(from_s(k), conv_from_model(v)) for k, v in pairs]
            if [k for k, _ in m] != list(exp.keys()):
                return 'python keys %r' % (list(exp.keys()),)
            return None if dict(m) == exp else 'python %r' % (exp,)
        self.add('conversions', '%d getters' % len(wire['getters']), 'wsgi.conversions', [sw(number), wire['getters']], check)

    # -- application
    def gen_application(self):
        r = self.r
        profile = r.choice(['good', 'good', 'wild'])
        encodable = profile == 'good' or r.randrange(4) > 0
        number = r.choice(['85073003328', '<x9q">\'&', self.s.text(surrogates=not encodable, maxlen=10)])
        # query string
        k = r.randrange(10)
        quote = lambda s: urllib.parse.quote(s, safe='', errors='surrogatepass')   # noqa: E731
        if k == 0:
            qs = ''
        elif k == 1:
            qs = 'other=' + quote(number)
        elif k == 2:
            qs = 'number='
        elif k == 3:
            qs = 'number=%s&number=%s' % (quote(number), quote(self.s.text(False, 5)))
        elif k == 4:
            qs = 'x=1&number=%s&y=%%zz&&=' % quote(number)
        elif k == 5:
            qs = 'number=' + number.replace('%', '%25').replace('&', '%26').replace('#', '%23').replace('+', '%2B')   # raw
        elif k == 6:
            qs = 'number=%FF%FE' + quote(number) + '%C3'
        else:
            qs = 'number=' + quote(number)
        try:
            params = urllib.parse.parse_qs(qs)
        except Exception:   # noqa: B902
            return
        submitted = params['number'][0] if 'number' in params else None
        mg = ModGen(r, self.s)
        mods, wires, descrs = [], [], []
        for i in range(r.randint(0, 4)):
            m, w, d = mg.module(i, submitted if submitted is not None else '', profile)
            mods.append(m)
            wires.append(w)
            descrs.append(d)
        # template file
        t = r.randrange(12)
        if t == 0:
            tpl = ''
        elif t == 1:
            tpl = None
        elif t == 2:
            tpl = r.choice(['%(value)s|%(results)s|%%', 'no slots', '%(value)s%(value)s', '%(missing)s', 'bad %', '%(results)s<>%(value)s'])
        else:
            tpl = self.template
        docroot = os.path.join(self.tmp, 'root%d' % len(self.evals))
        os.makedirs(os.path.join(docroot, 'oc'))
        if tpl is not None:
            with open(os.path.join(docroot, 'oc', 'template.html'), 'wb') as f:
                f.write(tpl.encode('utf-8'))
        ajax = r.randrange(2) == 0
        environ = {'DOCUMENT_ROOT': docroot, 'SCRIPT_NAME': '/oc/stdnum.wsgi', 'QUERY_STRING': qs}
        if ajax:
            environ['HTTP_X_REQUESTED_WITH'] = r.choice(['XMLHttpRequest', 'xmlhttprequest', 'XMLHTTPREQUEST'])
        elif r.randrange(3) == 0:
            environ['HTTP_X_REQUESTED_WITH'] = r.choice(['', 'fetch', 'XMLHttpRequest '])
        # the real application, two requests in one "process" (fresh _template)
        W._template = None
        orig = W.get_number_modules
        W.get_number_modules = lambda: iter(mods)
        responses = []
        try:
            for _ in range(2):
                status = {}
                try:
                    body = W.application(dict(environ), lambda s, h: status.update(s=s, h=h))
                    responses.append(('ok', status['s'], dict(status['h']), b''.join(body)))
                except Exception as e:   # noqa: B902
                    responses.append(('err', exc_name(e)))
        finally:
            W.get_number_modules = orig
            shutil.rmtree(docroot, ignore_errors=True)

        def check(got, responses=responses, ajax=ajax):
            if not got.startswith('ok '):
                return 'driver said ' + got[:100]
            ms = json.loads(got[3:])
            if len(ms) != 2:
                return 'model gave %d responses' % len(ms)
            for m, p in zip(ms, responses):
                if 'error' in m:
                    if p[0] != 'err':
                        return 'model error %s, python %r' % (m['error'], p[:2])
                    if m['error'] != p[1] and not (m['error'] == 'Exception' and p[1] not in EXC_NAMES):
                        return 'model error %s, python error %s' % (m['error'], p[1])
                    continue
                if p[0] != 'ok':
                    return 'model ok, python error %s' % p[1]
                if p[1] != '200 OK' or m['status'] != 200:
                    return 'status: model %r python %r' % (m['status'], p[1])
                if 'html' in m:
                    if ajax or p[2].get('Content-Type') != 'text/html; charset=utf-8':
                        return 'model html, python headers %r' % (p[2],)
                    if from_s(m['html']).encode('utf-8') != p[3]:
                        return 'html bodies differ; python %r' % (p[3][:300],)
                else:
                    if not ajax or p[2].get('Content-Type') != 'application/json':
                        return 'model json, python headers %r' % (p[2],)
                    try:
                        doc = json.loads(p[3].decode('utf-8'))
                    except ValueError:
                        return 'python body is not JSON'
                    if len(doc) != len(m['json']):
                        return 'json length: model %d python %d' % (len(m['json']), len(doc))
                    for mi, pi in zip(m['json'], doc):
                        if sorted(pi) != ['compact', 'conversions', 'description', 'module', 'name', 'number', 'valid']:
                            return 'python keys %r' % (sorted(pi),)
                        for key in ('module', 'name', 'description'):
                            if from_s(mi[key]) != pi[key]:
                                return 'json field %s: python %r' % (key, pi[key])
                        if mi['valid'] is not pi['valid']:
                            return 'json valid: python %r' % (pi['valid'],)
                        for key in ('number', 'compact'):
                            if conv_from_model(mi[key]) != conv_class(pi[key]):
                                return 'json field %s: python %r' % (key, pi[key])
                        mc = {from_s(k): conv_from_model(v) for k, v in mi['conversions']}
                        pc = {k: conv_class(v) for k, v in pi['conversions'].items()}
                        if mc != pc:
                            return 'json conversions: python %r' % (pi['conversions'],)
            return None
        label = '%s/%s/%s' % (profile, 'ajax' if ajax else 'html',
                              'err' if responses[0][0] == 'err' else 'ok')
        args = [sw(tpl) if tpl is not None else None,
                [[sw(k), [sw(x) for x in v]] for k, v in params.items()], ajax, wires, descrs]
        self.add('application', label, 'wsgi.application', args, check)

    def add(self, stream, label, target, args, check):
        self.evals.append((stream, label, '%s\t%s' % (target, json.dumps(args, separators=(',', ':'))), check))

    def generate(self):
        n = self.n
        plan = [('escape', self.gen_escape, 0.25), ('unescape', self.gen_unescape, 0.10), ('page', self.gen_page, 0.20),
                ('format_entry', self.gen_format_entry, 0.20), ('conversions', self.gen_conversions, 0.10),
                ('application', self.gen_application, 0.15)]
        # fixed cases first
        for s, q in [('', True), ('&', True), ('&amp;lt;', True), ('<x9q">\'&', True), ('"\'', False), ('\ud800<', True),
                     ('\U0010ffff&\x00', True)]:
            exp = 'ok ' + json.dumps(sw(html.escape(s, q)), separators=(',', ':'))
            self.add('escape', 'fixed', 'wsgi.escape', [sw(s), q], lambda got, exp=exp: None if got == exp else 'python ' + exp)
        exp_t = 'ok ' + json.dumps(sw(self.template % dict(value='V&amp;', results='<li>R</li>')), separators=(',', ':'))
        self.add('page', 'real template', 'wsgi.page', [sw(self.template), sw('V&amp;'), sw('<li>R</li>')],
                 lambda got: None if got == exp_t else 'python ' + exp_t[:200])
        for _name, f, share in plan:
            for _ in range(max(1, int(n * share))):
                f()
        return self.evals

    def cleanup(self):
        shutil.rmtree(self.tmp, ignore_errors=True)


def main():
    ap = argparse.ArgumentParser()
    ap.add_argument('--n', type=int, default=2000)
    ap.add_argument('--driver', default='lake env lean --run Driver/WsgiMain.lean')
    ap.add_argument('--lean-dir', default='/verif/lean')
    ap.add_argument('--keep', help='write the request lines to this file (default: temporary file)')
    args = ap.parse_args()
    seed = int(os.environ.get('VERIF_SEED', '1'))

    gen = Gen(seed, args.n)
    try:
        evals = gen.generate()
    finally:
        gen.cleanup()
    if args.keep:
        path = args.keep
    else:
        fd, path = tempfile.mkstemp(prefix='corr_wsgi_', suffix='.req')
        os.close(fd)
    with open(path, 'w') as f:
        f.write('\n'.join(e[2] for e in evals) + '\n')
    with open(path) as f:
        proc = subprocess.run(shlex.split(args.driver), stdin=f, stdout=subprocess.PIPE,
                              stderr=subprocess.PIPE, cwd=args.lean_dir, text=True)
    got = proc.stdout.splitlines()
    if not args.keep:
        os.unlink(path)

    disagreements, agree, stricter = [], 0, 0
    distribution = {}
    for k, (stream, label, line, check) in enumerate(evals):
        d = distribution.setdefault(stream, {})
        d[label] = d.get(label, 0) + 1
        g = got[k] if k < len(got) else '<no output>'
        try:
            verdict = check(g)
        except Exception as e:   # noqa: B902
            verdict = 'checker failed: %r' % (e,)
        if verdict is None:
            agree += 1
        elif verdict == 'STRICTER':
            stricter += 1
            agree += 1
        else:
            disagreements.append({'stream': stream, 'label': label, 'request': line[:600], 'lean': g[:300], 'why': verdict[:400]})
    summary = {
        'seed': seed, 'evaluations': len(evals), 'agree': agree,
        'disagreements': disagreements[:20], 'n_disagreements': len(disagreements),
        'model_stricter': stricter,
        'distribution': distribution,
    }
    if proc.returncode != 0 or len(got) != len(evals):
        summary['driver_error'] = {
            'returncode': proc.returncode, 'lines_out': len(got), 'stderr': proc.stderr[-2000:]}
    print(json.dumps(summary))
    sys.exit(1 if (disagreements or 'driver_error' in summary) else 0)


if __name__ == '__main__':
    main()
