#!/venv/bin/python
"""Correspondence harness for PyRt/Str.lean and PyRt/Misc.lean (string / list / int / dict built-ins).

Every target of Driver/Str.lean is evaluated on generated arguments by the Lean model (through the
line protocol of PyRt/Wire.lean) and by the obvious CPython expression; the outcomes are compared
(value, or "an exception was raised" <-> `err NonValidation`).

Part 1 (deterministic, seed independent): all (a, b) index pairs in -(n+2)..n+2 and None for a few short
strings / lists (slices, stepped slices, getitem); all texts over {a,b} up to length 4 against short
patterns (find / index / count / in / startswith / endswith / replace / split / rsplit); fixed
boundary cases of every other target.
Part 2 (generated): >= --n evaluations spread over all targets from structured generators (small
alphabet so that patterns occur, overlap with themselves and with the text; empty strings in every
argument position; signs for zfill; negative / huge integers for the bit operations ...).

  VERIF_SEED=3 python strops.py --n 30000 --lean-dir /verif/lean
  python strops.py --driver "/path/to/native/driver"     (any command reading lines on stdin)

Prints one JSON summary {"seed","evaluations","agree","disagreements","n_disagreements",
"distribution"}; exit 1 on any disagreement or driver failure.  All randomness comes from
random.Random(VERIF_SEED).
"""
import argparse
import itertools
import json
import os
import random
import shlex
import subprocess
import sys
import tempfile

# --------------------------------------------------------------------------- wire encoding


def enc_int(i):
    if abs(i) < 10 ** 18:
        return i
    return {'hex': ('-' if i < 0 else '') + '%x' % abs(i)}


def enc(x):
    if isinstance(x, bool) or x is None:
        return x
    if isinstance(x, int):
        return enc_int(x)
    if isinstance(x, str):
        return {'s': [ord(c) for c in x]}
    if isinstance(x, tuple):
        return {'t': [enc(y) for y in x]}
    if isinstance(x, list):
        return [enc(y) for y in x]
    if isinstance(x, dict):
        return {'d': [[enc(k), enc(v)] for k, v in x.items()]}
    raise TypeError(x)


def norm(j):
    """decoded response JSON -> canonical form (big integers as Python ints)"""
    if isinstance(j, dict):
        if set(j) == {'hex'}:
            return int(j['hex'], 16)
        return {k: norm(v) for k, v in j.items()}
    if isinstance(j, list):
        return [norm(v) for v in j]
    return j


def show(a):
    def one(x):
        if isinstance(x, int) and not isinstance(x, bool) and abs(x) >= 10 ** 18:
            return hex(x)
        return repr(x)
    return ('(' + ', '.join(one(x) for x in a))[:400] + ')'


def dumps(x):
    return json.dumps(x, separators=(',', ':'))


def outcome(f, *a):
    """canonical response line for the CPython result"""
    try:
        r = f(*a)
    except Exception:
        return 'err NonValidation'
    return 'ok ' + dumps(enc(r))


def same(exp, got):
    if exp == got:
        return True
    if exp.startswith('ok ') and got.startswith('ok '):
        try:
            return norm(json.loads(exp[3:])) == norm(json.loads(got[3:]))
        except ValueError:
            return False
    return False


# --------------------------------------------------------------------------- oracles

def _dict_set(d, k, v):
    d = dict(d)
    d[k] = v
    return d


def _dict_update(d, e):
    d = dict(d)
    d.update(e)
    return d


def _ms(m):
    return -1 if m is None else m


TARGETS = {
    'str.slice': lambda s, a, b: s[a:b],
    'list.slice': lambda l, a, b: l[a:b],
    'str.slice_step': lambda s, a, b, k: s[a:b:k],
    'str.reversed': lambda s: s[::-1],
    'str.getitem': lambda s, i: s[i],
    'list.getitem': lambda l, i: l[i],
    'str.chars': lambda s: list(s),
    'str.find': lambda s, sub: s.find(sub),
    'str.find_from': lambda s, sub, start: s.find(sub, start),
    'str.index': lambda s, sub: s.index(sub),
    'list.index': lambda l, v: l.index(v),
    'str.count': lambda s, sub: s.count(sub),
    'str.in': lambda sub, s: sub in s,
    'str.startswith': lambda s, p: s.startswith(p),
    'str.endswith': lambda s, p: s.endswith(p),
    'str.startswith_any': lambda s, ps: s.startswith(tuple(ps)),
    'str.endswith_any': lambda s, ps: s.endswith(tuple(ps)),
    'str.zfill': lambda s, w: s.zfill(w),
    'str.rjust': lambda s, w, f: s.rjust(w, f),
    'str.ljust': lambda s, w, f: s.ljust(w, f),
    'str.join': lambda sep, ps: sep.join(ps),
    'str.mul': lambda s, n: s * n,
    'str.replace': lambda s, old, new: s.replace(old, new),
    'str.split': lambda s, sep, m: s.split(sep, _ms(m)),
    'str.rsplit': lambda s, sep, m: s.rsplit(sep, _ms(m)),
    'str.lt': lambda x, y: x < y,
    'str.le': lambda x, y: x <= y,
    'sum_int': lambda l: sum(l),
    'list.enumerate': lambda l, start: list(enumerate(l, start)),
    'range': lambda a, b: list(range(a, b)),
    'range_step': lambda a, b, k: list(range(a, b, k)),
    'max_int': lambda l: max(l),
    'min_int': lambda l: min(l),
    'zip3': lambda x, y, z: list(zip(x, y, z)),
    'sorted_int': lambda l: sorted(l),
    'sorted_str': lambda l: sorted(l),
    'int.and': lambda a, b: a & b,
    'int.or': lambda a, b: a | b,
    'int.xor': lambda a, b: a ^ b,
    'int.not': lambda a: ~a,
    'int.shl': lambda a, b: a << b,
    'int.shr': lambda a, b: a >> b,
    'int.pow': lambda a, b: a ** b,
    'int.powmod': lambda a, b, m: pow(a, b, m),
    'dict.set': _dict_set,
    'dict.update': _dict_update,
    'dict.get': lambda d, k: d[k],
    'dict.get_default': lambda d, k, dflt: d.get(k, dflt),
    'dict.has': lambda d, k: k in d,
    'dict.of_pairs': lambda pairs: dict(pairs),
    'chr': lambda n: chr(n),
    'ord': lambda s: ord(s),
}

# relative share of the generated part
WEIGHTS = {
    'str.slice': 3, 'list.slice': 2, 'str.slice_step': 3, 'str.getitem': 2, 'str.find': 2, 'str.find_from': 2,
    'str.count': 3, 'str.zfill': 3, 'str.replace': 4, 'str.split': 4, 'str.rsplit': 4, 'str.join': 2,
    'int.and': 2, 'int.or': 2, 'int.xor': 2, 'int.shr': 2, 'int.powmod': 3, 'range_step': 3,
    'dict.update': 2, 'dict.of_pairs': 2, 'str.lt': 2, 'str.le': 2, 'str.index': 2, 'str.in': 2,
}

# --------------------------------------------------------------------------- generators

ALPHABET = 'aaabbb-+0 '
EXOTIC = ['\xe9', '\U0001d7d8', '\xdf', 'а', '\ud800', '\x00', '\U0010ffff']
UNITS = ['a', 'ab', 'aab', 'aba', 'abab', '-', '+-', '0', 'b ', 'ba', '--']
PATTERNS = ['aa', 'aba', 'a', 'ab', 'ba', 'bb', 'abab', 'aaa', '--', '+', '-', '0', ' ', 'b', '+-', '-+', '00']
SIGNS = ['+', '-', '+', '-', '', '', '', ' ', '0', '+-', '-+', '++', '--', '−']
MAXSPLITS = [None, 0, 1, 2, 3, 10]
KEYS = ['', 'a', 'b', 'ab', 'k', '\xe9', 'ba', '0']


def int_pool():
    pool = [0, 1, -1, 2, -2, 3, -3]
    for k in list(range(1, 12)) + [15, 16, 17, 30, 31, 32, 33, 52, 53, 54, 62, 63, 64, 65, 69, 70]:
        for v in (2 ** k - 1, 2 ** k, 2 ** k + 1):
            pool.append(v)
            pool.append(-v)
    return pool


INT_POOL = int_pool()


class Gen:
    def __init__(self, seed, n):
        self.r = random.Random(seed)
        self.n = n
        self.ops = []   # (stream, target, args)

    def emit(self, stream, target, *args):
        self.ops.append((stream, target, args))

    # -- building blocks
    def text(self, lo=0, hi=8):
        r = self.r
        k = r.random()
        if k < 0.08 and lo == 0:
            return ''
        if k < 0.55:
            s = ''.join(r.choice(ALPHABET) for _ in range(r.randint(lo, hi)))
        elif k < 0.85:
            u = r.choice(UNITS)
            s = (u * 9)[:r.randint(lo, hi)]
            if r.random() < 0.3 and len(s) < hi:
                i = r.randint(0, len(s))
                s = s[:i] + r.choice(ALPHABET) + s[i:]
        else:
            s = ''.join(r.choice('ab') for _ in range(r.randint(lo, hi)))
        if r.random() < 0.12 and len(s) < hi:
            i = r.randint(0, len(s))
            s = s[:i] + r.choice(EXOTIC) + s[i:]
        return s

    def sub_of(self, t, lo=0):
        """a pattern: part of the text half of the time"""
        r = self.r
        for _ in range(20):
            k = r.random()
            if k < 0.5 and t:
                i = r.randint(0, len(t) - 1)
                p = t[i:i + r.choice([1, 1, 2, 2, 3])]
            elif k < 0.58:
                p = ''
            elif k < 0.8:
                p = r.choice(PATTERNS)
            elif k < 0.85 and t:
                p = t + r.choice(ALPHABET)          # longer than the text
            elif k < 0.9:
                p = t                               # the text itself
            else:
                p = self.text(0, 3)
            if len(p) >= lo:
                return p
        return 'a' * lo

    def rint(self):
        r = self.r
        k = r.random()
        if k < 0.3:
            return r.randint(-20, 20)
        if k < 0.6:
            return r.choice(INT_POOL)
        if k < 0.9:
            v = r.getrandbits(r.randint(1, 80))
            return -v if r.random() < 0.5 else v
        return r.choice([0, -1, 1])

    def small(self):
        r = self.r
        return r.randint(-5, 5) if r.random() < 0.9 else self.rint()

    def ilist(self, lo=0, hi=6):
        return [self.small() for _ in range(self.r.randint(lo, hi))]

    def idx(self, n):
        r = self.r
        if r.random() < 0.03:
            return r.choice([2 ** 70, -2 ** 70, 2 ** 63, -2 ** 63 - 1, 10 ** 18])
        return r.choice([None] + list(range(-(n + 2), n + 3)))

    def idx_int(self, n):
        r = self.r
        if r.random() < 0.03:
            return r.choice([2 ** 70, -2 ** 70, 2 ** 63, -2 ** 63 - 1])
        return r.randint(-(n + 2), n + 2)

    def strlist(self, lo=0, hi=4, pool=None):
        r = self.r
        out = []
        for _ in range(r.randint(lo, hi)):
            out.append(r.choice(pool) if pool and r.random() < 0.6 else self.text(0, 4))
        return out

    def dict_(self, lo=0, hi=4):
        r = self.r
        keys = KEYS[:]
        r.shuffle(keys)
        return {k: self.small() for k in keys[:r.randint(lo, hi)]}

    def key(self, d):
        r = self.r
        if d and r.random() < 0.5:
            return r.choice(list(d))
        return r.choice(KEYS) if r.random() < 0.8 else self.text(0, 3)

    # -- deterministic part
    def fixed(self):
        e = self.emit
        st = 'fixed'
        # all index pairs
        for s in ['', 'a', 'ab', 'ab-', '+a0b', 'ab\xe9\U0001d7d8 ']:
            n = len(s)
            rng = [None] + list(range(-(n + 2), n + 3))
            l = [ord(c) - 90 for c in s]
            for a in rng:
                for b in rng:
                    e(st, 'str.slice', s, a, b)
                    e(st, 'list.slice', l, a, b)
                    if n <= 4:
                        for k in (1, 2, 3, n + 1):
                            e(st, 'str.slice_step', s, a, b, k)
            for i in range(-(n + 3), n + 4):
                e(st, 'str.getitem', s, i)
                e(st, 'list.getitem', l, i)
            e(st, 'str.reversed', s)
            e(st, 'str.chars', s)
        s = 'abcdefghij'
        for k in range(1, 13):
            for a in (None, 0, 1, 3, -4, 9, 10):
                for b in (None, 0, 5, -1, 10, 12):
                    e(st, 'str.slice_step', s, a, b, k)
        # all texts over {a,b} up to length 4 against short patterns
        texts = [''.join(p) for n in range(5) for p in itertools.product('ab', repeat=n)]
        pats = [''.join(p) for n in range(3) for p in itertools.product('ab', repeat=n)] + ['aaa', 'aba', 'bab', 'abab']
        for t in texts:
            for p in pats:
                e(st, 'str.find', t, p)
                e(st, 'str.index', t, p)
                e(st, 'str.count', t, p)
                e(st, 'str.in', p, t)
                e(st, 'str.startswith', t, p)
                e(st, 'str.endswith', t, p)
                e(st, 'str.lt', t, p)
                e(st, 'str.le', t, p)
                for start in range(len(t) + 2):
                    e(st, 'str.find_from', t, p, start)
                for new in ('', 'x', 'ab'):
                    e(st, 'str.replace', t, p, new)
                for m in (None, 0, 1, 2):
                    e(st, 'str.split', t, p, m)
                    e(st, 'str.rsplit', t, p, m)
        for t in ['aaaa', 'ababa', 'aaaaa', 'abababa', 'a-a-a', '--a--', '----', '-----']:
            for p in ['aa', 'aba', '--', 'a-a', '-', '']:
                for m in MAXSPLITS:
                    e(st, 'str.split', t, p, m)
                    e(st, 'str.rsplit', t, p, m)
                e(st, 'str.count', t, p)
                e(st, 'str.replace', t, p, '')
                e(st, 'str.replace', t, p, p + p)
                e(st, 'str.replace', t, p, '.')
                e(st, 'str.startswith_any', t, [p, 'zz'])
                e(st, 'str.endswith_any', t, ['zz', p])
        for t in ['', 'a', 'ab']:
            e(st, 'str.startswith_any', t, [])
            e(st, 'str.endswith_any', t, [])
            e(st, 'str.startswith_any', t, [''])
            e(st, 'str.endswith_any', t, [''])
        # zfill / rjust / ljust
        for s in ['', '+', '-', '+-', '-+', '+1', '-1', '1', '12', '+12', '-12', ' 1', '−1', '--1', '+a', 'a+', '0']:
            for w in range(-3, len(s) + 4):
                e(st, 'str.zfill', s, w)
                e(st, 'str.rjust', s, w, '0')
                e(st, 'str.ljust', s, w, ' ')
                e(st, 'str.rjust', s, w, '\xe9')
        # join / mul
        for sep in ['', '-', 'ab']:
            for ps in [[], [''], ['a'], ['', ''], ['a', ''], ['', 'a'], ['a', 'b', 'c'], ['', '', '']]:
                e(st, 'str.join', sep, ps)
        for s in ['', 'a', 'ab']:
            for n in range(-3, 5):
                e(st, 'str.mul', s, n)
        # numeric helpers
        for l in [[], [0], [1, 2, 3], [-1, -2], [3, 1, 2, 1, 3], [2 ** 70, -2 ** 70, 5], [0, 0, 0]]:
            e(st, 'sum_int', l)
            e(st, 'max_int', l)
            e(st, 'min_int', l)
            e(st, 'sorted_int', l)
            for start in (0, 1, -2, 2 ** 64):
                e(st, 'list.enumerate', l, start)
            e(st, 'list.index', l, 1)
            e(st, 'list.index', l, 0)
        for a in range(-4, 5):
            for b in range(-4, 5):
                e(st, 'range', a, b)
                for k in (1, 2, 3, 5, -1, -2, -3, -5):
                    e(st, 'range_step', a, b, k)
        for x, y, z in [([], [], []), ([1], [], [2]), ([1, 2], [3, 4], [5, 6]), ([1, 2, 3], [4, 5], [6]),
                        ([1], [2, 3], [4, 5, 6]), ([], [1], [1])]:
            e(st, 'zip3', x, y, z)
        for l in [[], [''], ['b', 'a'], ['ab', 'a', '', 'b', 'aa'], ['\xe9', 'z', '\U0001d7d8', 'Z', 'a'],
                  ['a', 'a', 'A', '-', '+', '0', ' ']]:
            e(st, 'sorted_str', l)
        # integers
        small = [0, 1, -1, 2, -2, 3, -3, 5, -5, 7, -8, 8, 255, -256, 2 ** 64, -2 ** 64, 2 ** 64 - 1, -2 ** 64 - 1,
                 2 ** 70 + 1, -2 ** 70 + 1]
        for a in small:
            e(st, 'int.not', a)
            for b in small:
                e(st, 'int.and', a, b)
                e(st, 'int.or', a, b)
                e(st, 'int.xor', a, b)
            for b in (-2, -1, 0, 1, 2, 3, 63, 64, 65, 70, 71, 200):
                e(st, 'int.shl', a, b)
                e(st, 'int.shr', a, b)
            for b in (0, 1, 2, 3, 10, 64, 200):
                e(st, 'int.pow', a, b)
                for m in (0, 1, -1, 2, -2, 3, -3, 7, -7, 10, 97, -97, 2 ** 64, -2 ** 64 + 1):
                    e(st, 'int.powmod', a, b, m)
        # dictionaries
        ds = [{}, {'a': 1}, {'a': 1, 'b': 2}, {'b': 2, 'a': 1}, {'': 0, 'k': -1, 'a': 2 ** 70}]
        for d in ds:
            for k in ['', 'a', 'b', 'z']:
                e(st, 'dict.set', d, k, 9)
                e(st, 'dict.get', d, k)
                e(st, 'dict.get_default', d, k, -7)
                e(st, 'dict.has', d, k)
            for d2 in ds:
                e(st, 'dict.update', d, d2)
        for pairs in [[], [('a', 1)], [('a', 1), ('a', 2)], [('a', 1), ('b', 2), ('a', 3)],
                      [('b', 1), ('a', 2), ('b', 3), ('c', 4), ('a', 5)], [('', 0), ('', 0)]]:
            e(st, 'dict.of_pairs', pairs)
        # chr / ord
        for n in [-2 ** 70, -2, -1, 0, 1, 48, 127, 128, 255, 256, 0xd7ff, 0xd800, 0xdfff, 0xe000, 0xffff, 0x10000,
                  0x10fffe, 0x10ffff, 0x110000, 0x110001, 2 ** 31, 2 ** 32, 2 ** 70]:
            e(st, 'chr', n)
        for s in ['', 'a', '\x00', '\xe9', '\U0001d7d8', '\U0010ffff', '\ud800', 'ab', 'a\xe9', '\U0001d7d8\U0001d7d8', 'abc']:
            e(st, 'ord', s)

    # -- generated part, one method per target
    def idx2(self, n):
        """two slice bounds; a third of the time in an order that tends to give a non-empty slice"""
        a, b = self.idx(n), self.idx(n)
        if self.r.random() < 0.35 and a is not None and b is not None:
            pa = a + n if a < 0 else a
            pb = b + n if b < 0 else b
            if pa > pb:
                a, b = b, a
        return a, b

    def g_str_slice(self):
        s = self.text()
        self.emit('gen', 'str.slice', s, *self.idx2(len(s)))

    def g_list_slice(self):
        l = self.ilist(0, 7)
        self.emit('gen', 'list.slice', l, *self.idx2(len(l)))

    def g_str_slice_step(self):
        s = self.text(0, 10)
        k = self.r.choice([1, 1, 2, 2, 3, 4, 5, len(s), len(s) + 1, 12, 2 ** 40])
        a, b = self.idx2(len(s))
        self.emit('gen', 'str.slice_step', s, a, b, max(k, 1))

    def g_str_reversed(self):
        self.emit('gen', 'str.reversed', self.text())

    def g_str_getitem(self):
        s = self.text()
        self.emit('gen', 'str.getitem', s, self.idx_int(len(s)))

    def g_list_getitem(self):
        l = self.ilist(0, 7)
        self.emit('gen', 'list.getitem', l, self.idx_int(len(l)))

    def g_str_chars(self):
        self.emit('gen', 'str.chars', self.text())

    def _text_sub(self, target, flip=False):
        s = self.text()
        p = self.sub_of(s)
        if flip:
            self.emit('gen', target, p, s)
        else:
            self.emit('gen', target, s, p)

    def g_str_find(self):
        self._text_sub('str.find')

    def g_str_find_from(self):
        s = self.text()
        self.emit('gen', 'str.find_from', s, self.sub_of(s), self.r.randint(0, len(s) + 2))

    def g_str_index(self):
        self._text_sub('str.index')

    def g_list_index(self):
        l = self.ilist(0, 7)
        v = self.r.choice(l) if l and self.r.random() < 0.6 else self.small()
        self.emit('gen', 'list.index', l, v)

    def g_str_count(self):
        self._text_sub('str.count')

    def g_str_in(self):
        self._text_sub('str.in', flip=True)

    def g_str_startswith(self):
        s = self.text()
        p = s[:self.r.randint(0, len(s))] if self.r.random() < 0.5 else self.sub_of(s)
        self.emit('gen', 'str.startswith', s, p)

    def g_str_endswith(self):
        s = self.text()
        p = s[self.r.randint(0, len(s)):] if self.r.random() < 0.5 else self.sub_of(s)
        self.emit('gen', 'str.endswith', s, p)

    def g_str_startswith_any(self):
        s = self.text()
        ps = [s[:self.r.randint(0, len(s))] if self.r.random() < 0.3 else self.sub_of(s)
              for _ in range(self.r.randint(0, 3))]
        self.emit('gen', 'str.startswith_any', s, ps)

    def g_str_endswith_any(self):
        s = self.text()
        ps = [s[self.r.randint(0, len(s)):] if self.r.random() < 0.3 else self.sub_of(s)
              for _ in range(self.r.randint(0, 3))]
        self.emit('gen', 'str.endswith_any', s, ps)

    def g_str_zfill(self):
        r = self.r
        k = r.random()
        if k < 0.6:
            s = r.choice(SIGNS) + ''.join(r.choice('0123456789') for _ in range(r.randint(0, 5)))
        elif k < 0.75:
            s = r.choice(SIGNS) + self.text(0, 4)
        else:
            s = self.text(0, 6)
        w = r.randint(-4, len(s) + 3) if r.random() < 0.9 else r.randint(0, 20)
        self.emit('gen', 'str.zfill', s, w)

    def _just(self, target):
        r = self.r
        s = self.text(0, 6)
        w = r.randint(-3, len(s) + 4)
        fill = r.choice(['0', ' ', '0', ' ', '-', 'a', '\xe9', '\U0001d7d8'])
        self.emit('gen', target, s, w, fill)

    def g_str_rjust(self):
        self._just('str.rjust')

    def g_str_ljust(self):
        self._just('str.ljust')

    def g_str_join(self):
        sep = self.text(0, 3) if self.r.random() < 0.7 else self.r.choice(['', '-', ' ', ', '])
        self.emit('gen', 'str.join', sep, self.strlist(0, 5))

    def g_str_mul(self):
        self.emit('gen', 'str.mul', self.text(0, 4), self.r.randint(-3, 6))

    def g_str_replace(self):
        r = self.r
        s = self.text()
        old = self.sub_of(s)
        k = r.random()
        if k < 0.2:
            new = ''
        elif k < 0.35:
            new = old + old
        elif k < 0.5:
            new = old[::-1]
        elif k < 0.6:
            new = old[:1]
        else:
            new = self.text(0, 3)
        self.emit('gen', 'str.replace', s, old, new)

    def _split(self, target):
        r = self.r
        s = self.text(0, 10)
        k = r.random()
        if k < 0.07:
            sep = ''
        elif k < 0.5 and s:
            i = r.randint(0, len(s) - 1)
            sep = s[i:i + r.randint(1, 3)]
        elif k < 0.8:
            sep = r.choice(PATTERNS)
        else:
            sep = self.sub_of(s)
        self.emit('gen', target, s, sep, r.choice(MAXSPLITS))

    def g_str_split(self):
        self._split('str.split')

    def g_str_rsplit(self):
        self._split('str.rsplit')

    def _cmp(self, target):
        r = self.r
        x = self.text(0, 5)
        k = r.random()
        if k < 0.2:
            y = x
        elif k < 0.5:
            y = x[:r.randint(0, len(x))] + self.text(0, 2)
        elif k < 0.6:
            y = x + self.text(0, 2)
        else:
            y = self.text(0, 5)
        if r.random() < 0.5:
            x, y = y, x
        self.emit('gen', target, x, y)

    def g_str_lt(self):
        self._cmp('str.lt')

    def g_str_le(self):
        self._cmp('str.le')

    def g_sum_int(self):
        l = self.ilist(0, 8) if self.r.random() < 0.7 else [self.rint() for _ in range(self.r.randint(0, 6))]
        self.emit('gen', 'sum_int', l)

    def g_list_enumerate(self):
        self.emit('gen', 'list.enumerate', self.ilist(0, 6), self.small())

    def g_range(self):
        r = self.r
        a = self.small()
        b = a + r.randint(-6, 10) if r.random() < 0.7 else r.randint(-6, 6)
        if abs(b - a) > 40:
            b = a + r.randint(-6, 10)
        self.emit('gen', 'range', a, b)

    def g_range_step(self):
        r = self.r
        a = self.small()
        k = r.choice([1, 2, 3, 4, 5, 7, -1, -2, -3, -4, -5, -7, 2 ** 64, -2 ** 64, 100, -100])
        span = r.randint(-12, 12) if r.random() < 0.7 else r.randint(-4, 4) * k + r.randint(-1, 1)
        self.emit('gen', 'range_step', a, a + span, k)

    def _mm(self, target):
        l = self.ilist(0, 6) if self.r.random() < 0.7 else [self.rint() for _ in range(self.r.randint(0, 5))]
        self.emit('gen', target, l)

    def g_max_int(self):
        self._mm('max_int')

    def g_min_int(self):
        self._mm('min_int')

    def g_zip3(self):
        self.emit('gen', 'zip3', self.ilist(0, 5), self.ilist(0, 5), self.ilist(0, 5))

    def g_sorted_int(self):
        l = self.ilist(0, 9) if self.r.random() < 0.7 else [self.rint() for _ in range(self.r.randint(0, 7))]
        self.emit('gen', 'sorted_int', l)

    def g_sorted_str(self):
        pool = [self.text(0, 3) for _ in range(3)]
        self.emit('gen', 'sorted_str', self.strlist(0, 7, pool))

    def _bit2(self, target):
        r = self.r
        a, b = self.rint(), self.rint()
        if r.random() < 0.15:
            b = r.choice([a, -a, ~a, a + 1, a - 1])
        self.emit('gen', target, a, b)

    def g_int_and(self):
        self._bit2('int.and')

    def g_int_or(self):
        self._bit2('int.or')

    def g_int_xor(self):
        self._bit2('int.xor')

    def g_int_not(self):
        self.emit('gen', 'int.not', self.rint())

    def _shift(self):
        r = self.r
        if r.random() < 0.12:
            return r.randint(-5, -1)
        return r.choice([0, 1, 2, 3, 7, 8, 31, 32, 63, 64, 65, 70, 71, 100, 200]) if r.random() < 0.5 else r.randint(0, 200)

    def g_int_shl(self):
        self.emit('gen', 'int.shl', self.rint(), self._shift())

    def g_int_shr(self):
        self.emit('gen', 'int.shr', self.rint(), self._shift())

    def g_int_pow(self):
        r = self.r
        b = r.randint(0, 6) if r.random() < 0.7 else r.randint(0, 200)
        self.emit('gen', 'int.pow', self.rint(), b)

    def g_int_powmod(self):
        r = self.r
        b = r.randint(0, 6) if r.random() < 0.6 else r.randint(0, 200)
        k = r.random()
        if k < 0.08:
            m = 0
        elif k < 0.5:
            m = r.choice([1, -1, 2, -2, 3, -3, 7, -7, 10, -10, 11, 97, -97, 37, 36, 256])
        else:
            m = self.rint()
        self.emit('gen', 'int.powmod', self.rint(), b, m)

    def g_dict_set(self):
        d = self.dict_()
        self.emit('gen', 'dict.set', d, self.key(d), self.small())

    def g_dict_update(self):
        d = self.dict_()
        e = self.dict_()       # same key pool: overlapping keys are the rule
        self.emit('gen', 'dict.update', d, e)

    def g_dict_get(self):
        d = self.dict_()
        self.emit('gen', 'dict.get', d, self.key(d))

    def g_dict_get_default(self):
        d = self.dict_()
        self.emit('gen', 'dict.get_default', d, self.key(d), self.small())

    def g_dict_has(self):
        d = self.dict_()
        self.emit('gen', 'dict.has', d, self.key(d))

    def g_dict_of_pairs(self):
        r = self.r
        keys = r.sample(KEYS, r.randint(1, 4))
        pairs = [(r.choice(keys), self.small()) for _ in range(r.randint(0, 7))]
        self.emit('gen', 'dict.of_pairs', pairs)

    def g_chr(self):
        r = self.r
        k = r.random()
        if k < 0.4:
            n = r.choice([0, 0x10ffff, 0x110000, -1, 0xd800, 0xffff, 0x10000]) + r.randint(-3, 3)
        elif k < 0.8:
            n = r.randrange(0, 0x110000)
        else:
            n = self.rint()
        self.emit('gen', 'chr', n)

    def g_ord(self):
        r = self.r
        k = r.random()
        if k < 0.15:
            s = ''
        elif k < 0.6:
            s = chr(r.randrange(0, 0x110000)) if r.random() < 0.5 else r.choice(ALPHABET + ''.join(EXOTIC))
        elif k < 0.85:
            s = self.text(2, 2)
        else:
            s = self.text(0, 4)
        self.emit('gen', 'ord', s)

    def generate(self):
        self.fixed()
        total = sum(WEIGHTS.get(t, 1) for t in TARGETS)
        for t in TARGETS:
            g = getattr(self, 'g_' + t.replace('.', '_'))
            for _ in range(-(-self.n * WEIGHTS.get(t, 1) // total)):
                g()
        return self.ops


# --------------------------------------------------------------------------- main

def main():
    ap = argparse.ArgumentParser()
    ap.add_argument('--n', type=int, default=30000, help='size parameter of the generated part')
    ap.add_argument('--driver', default='lake env lean --run Driver/StrMain.lean')
    ap.add_argument('--lean-dir', default='/verif/lean')
    ap.add_argument('--keep', help='write the request lines to this file (default: temporary file)')
    args = ap.parse_args()
    seed = int(os.environ.get('VERIF_SEED', '1'))

    requests = []    # (stream, target, args-repr, line, expected)
    for stream, target, a in Gen(seed, args.n).generate():
        requests.append((stream, target, show(a),
                         '%s\t%s' % (target, dumps([enc(x) for x in a])),
                         outcome(TARGETS[target], *a)))

    if args.keep:
        path = args.keep
    else:
        fd, path = tempfile.mkstemp(prefix='corr_strops_', suffix='.req')
        os.close(fd)
    with open(path, 'w') as f:
        for q in requests:
            f.write(q[3] + '\n')
    with open(path) as f:
        proc = subprocess.run(shlex.split(args.driver), stdin=f, stdout=subprocess.PIPE,
                              stderr=subprocess.PIPE, cwd=args.lean_dir, text=True)
    got = proc.stdout.splitlines()
    if not args.keep:
        os.unlink(path)

    evaluations = agree = n_dis = 0
    disagreements = []
    distribution = {}
    streams = {}
    for k, (stream, target, arepr, line, exp) in enumerate(requests):
        g = got[k] if k < len(got) else '<no output>'
        d = distribution.setdefault(target, {'ok': 0, 'err': 0})
        d['ok' if exp.startswith('ok') else 'err'] += 1
        streams[stream] = streams.get(stream, 0) + 1
        evaluations += 1
        if same(exp, g):
            agree += 1
            continue
        n_dis += 1
        if len(disagreements) < 40:
            disagreements.append({'stream': stream, 'target': target, 'args': arepr,
                                  'python': exp[:300], 'lean': g[:300]})
    summary = {
        'seed': seed, 'python': sys.version.split()[0],
        'evaluations': evaluations, 'agree': agree,
        'disagreements': disagreements, 'n_disagreements': n_dis,
        'distribution': distribution, 'streams': streams,
    }
    if proc.returncode != 0 or len(got) != len(requests):
        summary['driver_error'] = {
            'returncode': proc.returncode, 'lines_out': len(got), 'lines_in': len(requests),
            'stderr': proc.stderr[-2000:]}
    print(json.dumps(summary))
    sys.exit(1 if (n_dis or 'driver_error' in summary) else 0)


if __name__ == '__main__':
    main()
