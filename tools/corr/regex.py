#!/venv/bin/python
"""Differential test of the Lean regex engine (lean/PyRt/Regex.lean) against CPython's `re`.

Streams
* `lib`:  every regular expression python-stdnum uses (compiled module globals, the IBAN structure
  regexes of all countries in iban.dat, the de.stnr `_Format` regexes, the de.handelsregisternummer
  formats with their flags, pattern literals passed to `re.match/search/sub/...` found via `ast`),
  each against subjects generated from the pattern's own parse tree (matching strings and near
  misses, trailing "\\n" / "\\r\\n", embedded newlines, non-ASCII digits and letters, case variants such
  as `ı ſ K(Kelvin) ß İ`, empty and long strings);
* `fuzz`: random small patterns from the supported grammar x random subjects over a 6-letter alphabet
  (backtracking order, captures, empty iterations, lazy/greedy, look-ahead, back-references, flags);
* `uni`:  random character classes / literals under IGNORECASE against cased and exotic code points.

For every (pattern, subject) the targets re.match, re.search, re.fullmatch are compared (span and all
groups); re.finditer, re.findall, re.split, re.sub (template form) on a rotating subset.

  VERIF_SEED=3 python regex.py --n 20000 --lean-dir /verif/lean
  python regex.py --driver "/path/to/exe"      (any command reading request lines on stdin)

Prints a JSON summary {"evaluations","agree","disagreements","distribution"}; exit 1 on disagreement.
"""
import argparse
import ast
import importlib
import json
import os
import pkgutil
import random
import re
import shlex
import subprocess
import sys
import tempfile
import time

sys.path.insert(0, os.path.join(os.path.dirname(os.path.abspath(__file__)), '..', 'py2lean'))
import regex_ser  # noqa: E402
from regex_ser import Unsupported, regex_to_json, regex_tree  # noqa: E402

import stdnum  # noqa: E402


# ------------------------------------------------------------------ pattern collection

def iter_stdnum_modules():
    for info in pkgutil.walk_packages(stdnum.__path__, 'stdnum.'):
        try:
            yield importlib.import_module(info.name)
        except Exception:   # optional dependencies of the online-check modules
            continue


def _flag_value(node):
    """evaluate `re.I | re.U`-style expressions"""
    if isinstance(node, ast.BinOp) and isinstance(node.op, ast.BitOr):
        return _flag_value(node.left) | _flag_value(node.right)
    if isinstance(node, ast.Attribute) and isinstance(node.value, ast.Name) and node.value.id == 're':
        return int(getattr(re, node.attr))
    if isinstance(node, ast.Constant) and isinstance(node.value, int):
        return node.value
    raise ValueError('flags expression')


def literal_patterns(mod):
    """(pattern, flags, origin) for `re.xxx('literal', ...)` calls in the module source"""
    fn = getattr(mod, '__file__', None)
    if not fn or not fn.endswith('.py'):
        return
    tree = ast.parse(open(fn, encoding='utf-8').read())
    for node in ast.walk(tree):
        if (isinstance(node, ast.Call) and isinstance(node.func, ast.Attribute)
                and isinstance(node.func.value, ast.Name) and node.func.value.id == 're'
                and node.func.attr in ('match', 'search', 'fullmatch', 'sub', 'subn', 'split',
                                       'findall', 'finditer', 'compile')
                and node.args and isinstance(node.args[0], ast.Constant)
                and isinstance(node.args[0].value, str)):
            flags = 0
            try:
                for kw in node.keywords:
                    if kw.arg == 'flags':
                        flags = _flag_value(kw.value)
                npos = {'compile': 1, 'sub': 4, 'subn': 4, 'split': 3}.get(node.func.attr, 2)
                if len(node.args) > npos:
                    flags = _flag_value(node.args[npos])
            except ValueError:
                continue
            yield node.args[0].value, flags, '%s:%d' % (mod.__name__, node.lineno)


def _patterns_in(obj, seen, depth=0):
    """compiled patterns reachable from a module global (containers, objects with a `_re` attribute)"""
    if id(obj) in seen or depth > 4:
        return
    seen.add(id(obj))
    if isinstance(obj, re.Pattern):
        yield obj
    elif isinstance(obj, dict):
        for v in obj.values():
            yield from _patterns_in(v, seen, depth + 1)
    elif isinstance(obj, (list, tuple, set, frozenset)):
        for v in obj:
            yield from _patterns_in(v, seen, depth + 1)
    elif type(obj).__module__.startswith('stdnum') and hasattr(obj, '__dict__') and not isinstance(obj, type):
        for v in vars(obj).values():
            yield from _patterns_in(v, seen, depth + 1)


def library_patterns():
    """dict (pattern, flags) -> origin, for everything the library compiles"""
    out = {}

    def add(pat, flags, origin):
        if isinstance(pat, str):
            out.setdefault((pat, int(flags) & ~re.UNICODE.value), origin)

    for mod in iter_stdnum_modules():
        seen = set()
        for name, val in list(vars(mod).items()):
            if isinstance(val, type(sys)):
                continue
            for p in _patterns_in(val, seen):
                add(p.pattern, p.flags, '%s.%s' % (mod.__name__, name))
        for pat, flags, origin in literal_patterns(mod):
            add(pat, flags, origin)
    # IBAN structure regexes of every country in the registry
    from stdnum import iban
    fn = os.path.join(os.path.dirname(iban.__file__), 'iban.dat')
    structures = set(re.findall(r'bban="([^"]*)"', open(fn, encoding='utf-8').read()))
    structures.add('')
    for st in sorted(structures):
        p = iban._struct_to_re(st)
        add(p.pattern, p.flags, 'stdnum.iban._struct_to_re(%r)' % st)
    # handelsregisternummer: re.match(fmt, number, flags=re.I | re.U)
    from stdnum.de import handelsregisternummer as hr
    for i, fmt in enumerate(hr._formats):
        add(fmt, re.I | re.U, 'stdnum.de.handelsregisternummer._formats[%d]' % i)
    return out


# ------------------------------------------------------------------ subject generation

ARABIC = '٠١٢٣٤٥٦٧٨٩'
FULLWIDTH = '０１２３４５６７８９'
ODD_LETTERS = 'ıſKßİÖöñÑéΣςσµμǅ'
ODD_SPACE = '\x1c\x1f\x85\xa0 　\t\r\x0b\x0c'
POOL = ('0123456789ABCDEFGHIJKLMNOPQRSTUVWXYZabcdefghijklmnopqrstuvwxyz'
        ' -+/\\.,:;_&"\'()[]{}<>=!?*#@^$|~%\n\t') + ARABIC[:3] + FULLWIDTH[:3] + ODD_LETTERS + ODD_SPACE[:4]


class Gen:
    def __init__(self, rnd):
        self.r = rnd

    def cat(self, name):
        r = self.r
        base = name[3:].lower() if name.startswith('not') else name
        if name.startswith('not'):
            return r.choice(POOL)
        if base == 'digit':
            return r.choice('0123456789' * 6 + ARABIC + FULLWIDTH + '²①')
        if base == 'space':
            return r.choice(' ' * 8 + '\t\n' + ODD_SPACE)
        return r.choice('abcxyzABCXYZ0189_' * 2 + 'éÖß٣１' + ODD_LETTERS)

    def item(self, it):
        if it[0] == 'chr':
            return chr(it[1])
        if it[0] == 'range':
            return chr(self.r.randint(it[1], it[2]))
        return self.cat(it[1])

    def gen(self, t, groups):
        """a string that (probably) matches `t`"""
        r = self.r
        k = t[0]
        if k in ('empty', 'fail', 'anchor'):
            return ''
        if k == 'lit':
            return chr(t[1])
        if k == 'notLit':
            return r.choice(POOL)
        if k == 'any':
            return r.choice(POOL) if r.random() < 0.9 else '\n'
        if k == 'cls':
            if t[1] or not t[2]:
                return r.choice(POOL)
            return self.item(r.choice(t[2]))
        if k == 'seq':
            a = self.gen(t[1], groups)
            return a + self.gen(t[2], groups)
        if k == 'alt':
            return self.gen(t[1] if r.random() < 0.5 else t[2], groups)
        if k == 'rep':
            lo, hi = t[2], t[3]
            if hi is None:
                hi = lo + r.choice([0, 1, 2, 3, 7])
            n = r.randint(lo, min(hi, lo + 12))
            return ''.join(self.gen(t[4], groups) for _ in range(n))
        if k == 'group':
            s = self.gen(t[2], groups)
            groups[t[1]] = s
            return s
        if k == 'scoped':
            return self.gen(t[2], groups)
        if k == 'backref':
            return groups.get(t[1], '')
        if k == 'look':
            return ''
        raise AssertionError(k)

    def mutate(self, s):
        r = self.r
        if not s:
            return r.choice(POOL)
        i = r.randrange(len(s))
        op = r.randrange(7)
        if op == 0:
            return s[:i] + s[i + 1:]
        if op == 1:
            return s[:i] + r.choice(POOL) + s[i:]
        if op == 2:
            return s[:i] + r.choice(POOL) + s[i + 1:]
        if op == 3:
            return s[:i] + s[i].swapcase() + s[i + 1:]
        if op == 4:
            j = r.randrange(len(s))
            return s[:i] + s[j] + s[i + 1:]
        if op == 5:
            d = {'0': '٠', '1': '１', '2': '²', 'i': 'ı', 'I': 'İ', 's': 'ſ', 'S': 'ſ', 'k': 'K', 'K': 'K',
                 'O': 'Ö', 'N': 'Ñ', ' ': '\xa0', 'B': 'ß', 'm': 'µ'}
            return ''.join(d.get(c, c) if r.random() < 0.5 else c for c in s)
        return s[:i] + r.choice(['\n', '\r\n', ' ', '\x1c']) + s[i:]

    def subjects(self, tree, k):
        """k subjects for the pattern"""
        r = self.r
        out = ['', '\n']
        while len(out) < k:
            s = self.gen(tree, {})
            c = r.random()
            if c < 0.30:
                pass
            elif c < 0.42:
                s = s + '\n'
            elif c < 0.47:
                s = s + '\r\n'
            elif c < 0.50:
                s = s + '\n\n'
            elif c < 0.54:
                s = '\n' + s
            elif c < 0.60:
                s = r.choice(['x', ' ', '0', 'A']) + s
            elif c < 0.66:
                s = s + r.choice(['x', ' ', '0', 'A', '.'])
            elif c < 0.70:
                s = s + '\n' + self.gen(tree, {})
            elif c < 0.74:
                s = s.swapcase()
            elif c < 0.76:
                s = s * r.randint(2, 4)
            else:
                for _ in range(r.choice([1, 1, 1, 2, 3])):
                    s = self.mutate(s)
            out.append(s[:400])
        return out


# ------------------------------------------------------------------ fuzz patterns

FUZZ_ALPHABET = ['a', 'b', 'B', '1', ' ', '\n']


class Fuzz:
    def __init__(self, rnd):
        self.r = rnd

    def atom(self, depth, st):
        r = self.r
        c = r.random()
        if c < 0.30:
            return r.choice(['a', 'b', 'a', 'b', 'B', '1', ' ', '\\n'])
        if c < 0.38:
            return '.'
        if c < 0.50:
            return r.choice(['[ab]', '[^a]', '[a-b1]', '\\d', '\\w', '\\s', '\\W', '\\S', '\\D', '[^\\n]', '[\\w ]',
                             '[^\\d\\s]', '[B-b]', '[ -1]'])
        if c < 0.58:
            return r.choice(['^', '$', '\\b', '\\B', '\\A', '\\Z', '^', '$'])
        if c < 0.62 and st['groups'] > 0:
            return '\\%d' % r.randint(1, st['groups'])
        if depth <= 0:
            return r.choice(['a', 'b', ''])
        if c < 0.80:
            body = self.alt(depth - 1, st, capture=True)
            return body
        if c < 0.90:
            return '(?:%s)' % self.alt(depth - 1, st)
        if c < 0.95:
            return '(?%s%s)' % (r.choice('=!'), self.alt(depth - 1, st))
        return '(?%s:%s)' % (r.choice(['i', 's', 'm', '-i', 'a', 'i-s']), self.alt(depth - 1, st))

    def piece(self, depth, st):
        r = self.r
        a = self.atom(depth, st)
        c = r.random()
        if c < 0.45 or a in ('^', '$', '\\b', '\\B', '\\A', '\\Z', ''):
            return a
        q = r.choice(['*', '+', '?', '*', '+', '{2}', '{1,2}', '{0,2}', '{2,}', '{0,}', '{,1}'])
        if r.random() < 0.3:
            q += '?'
        return a + q

    def seq(self, depth, st):
        return ''.join(self.piece(depth, st) for _ in range(self.r.choice([0, 1, 1, 2, 2, 3, 4])))

    def alt(self, depth, st, capture=False):
        if capture:
            # reserve the group number before generating the body (so inner refs are to closed groups)
            name = ''
            if self.r.random() < 0.2:
                name = '?P<g%d>' % (st['opened'] + 1)
            st['opened'] += 1
            body = '|'.join(self.seq(depth, st) for _ in range(self.r.choice([1, 1, 2, 3])))
            st['groups'] = st['opened']
            return '(%s%s)' % (name, body)
        return '|'.join(self.seq(depth, st) for _ in range(self.r.choice([1, 1, 1, 2, 3])))

    def pattern(self):
        st = {'groups': 0, 'opened': 0}
        return self.alt(self.r.choice([1, 1, 2, 2, 3]), st)

    def subject(self):
        r = self.r
        n = r.choice([0, 1, 2, 3, 3, 4, 4, 5, 5, 6, 7, 8])
        return ''.join(r.choice(FUZZ_ALPHABET) for _ in range(n))

    def flags(self):
        r = self.r
        f = 0
        if r.random() < 0.25:
            f |= re.I
        if r.random() < 0.25:
            f |= re.M
        if r.random() < 0.2:
            f |= re.S
        if r.random() < 0.15:
            f |= re.A
        return int(f)


UNI_CHARS = ('aAkKsSiI' 'ıİſKßẞµμΜσςΣǅǆǄéÉöÖñÑ' 'ͅιΙι' 'ΐΐ' 'θϑϴ' '\U00010400\U00010428\U000118a0\U000118c0'
             '٣１²_ -0z' 'ÿŸ' 'ǰ' 'ŉ' 'ẛṡ')


def uni_range(r):
    """a range between two of the interesting characters; under IGNORECASE the model scans the BMP part
    of a range linearly (like `_optimize_charset` does at compile time), so keep that part small"""
    while True:
        a, b = sorted([r.choice(UNI_CHARS), r.choice(UNI_CHARS)])
        if min(ord(b), 0xFFFF) - ord(a) <= 3000:
            return a, b


def uni_pattern(r):
    def ch():
        c = r.choice(UNI_CHARS)
        return '\\' + c if c in '-^]\\ ' else c
    kind = r.randrange(6)
    if kind == 0:
        return ch()
    if kind == 1:
        return '[%s%s]' % (ch(), ch())
    if kind == 2:
        return '[^%s%s]' % (ch(), ch())
    if kind == 3:
        a, b = uni_range(r)
        if a in '-^]\\ ' or b in '-^]\\ ':
            return '[a-z]'
        return '[%s-%s]' % (a, b)
    if kind == 4:
        a, b = uni_range(r)
        if a in '-^]\\ ' or b in '-^]\\ ':
            return '[^A-Z]'
        return '[%s-%s\\d]' % (a, b) if r.random() < 0.5 else '[^%s-%s]' % (a, b)
    return '(%s)\\1' % (ch() + ch())


# ------------------------------------------------------------------ evaluation

def S(s):
    return {'s': [ord(c) for c in s]}


def enc_match(m):
    if m is None:
        return None
    return {'t': [m.start(), m.end(), [None if g is None else S(g) for g in m.groups()]]}


def py_eval(target, pat, flags, args):
    """expected response line (parsed) for a request"""
    c = re.compile(pat, flags)
    if target in ('re.match', 're.search', 're.fullmatch'):
        return ('ok', enc_match(getattr(c, target[3:])(args[0])))
    if target == 're.finditer':
        return ('ok', [enc_match(m) for m in c.finditer(args[0])])
    if target == 're.findall':
        res = c.findall(args[0])
        if c.groups <= 1:
            return ('ok', [[S(x)] for x in res])
        return ('ok', [[S(x) for x in t] for t in res])
    if target == 're.split':
        return ('ok', [None if x is None else S(x) for x in c.split(args[0], args[1])])
    if target == 're.sub':
        try:
            return ('ok', S(c.sub(args[0], args[1], args[2])))
        except (re.error, IndexError):
            return ('err', 'NonValidation')
    raise AssertionError(target)


def request_line(target, pj, args):
    if target == 're.sub':
        wire = [pj, S(args[0]), S(args[1]), args[2]]
    elif target == 're.split':
        wire = [pj, S(args[0]), args[1]]
    else:
        wire = [pj, S(args[0])]
    return target + '\t' + json.dumps(wire, separators=(',', ':'))


def parse_response(line):
    line = line.rstrip('\n')
    if line.startswith('ok '):
        return ('ok', json.loads(line[3:]))
    if line.startswith('err '):
        return ('err', line[4:])
    return ('bad', line)


TEMPLATES = ['', '/', '<\\g<0>>', '[\\1]', '\\g<1>-\\1', 'x\\n\\\\y', '\\0', '\\101\\08', '\\2', '\\g<g1>', '\\.', '\\q',
             '\\g<9>', 'a\\', '\\g<', '\\12']


class Plan:
    def __init__(self, seed, n):
        self.rnd = random.Random(seed)
        self.n = n
        self.cases = []      # (stream, target, pat, flags, args)
        self.skipped = {}

    def add(self, stream, pat, flags, subject, i):
        for target in ('re.match', 're.search', 're.fullmatch'):
            self.cases.append((stream, target, pat, flags, (subject,)))
        extra = i % 4
        if extra == 0:
            self.cases.append((stream, 're.finditer', pat, flags, (subject,)))
        elif extra == 1:
            self.cases.append((stream, 're.findall', pat, flags, (subject,)))
        elif extra == 2:
            self.cases.append((stream, 're.split', pat, flags, (subject, self.rnd.choice([0, 0, 1, 2]))))
        else:
            self.cases.append((stream, 're.sub', pat, flags,
                               (self.rnd.choice(TEMPLATES), subject, self.rnd.choice([0, 0, 0, 1, 2]))))

    def build(self):
        rnd = self.rnd
        lib = library_patterns()
        self.lib_count = len(lib)
        usable = []
        for (pat, flags), origin in sorted(lib.items()):
            try:
                tree = regex_tree(pat, flags)[0]
            except Unsupported as e:
                self.skipped[origin] = 'unsupported: %s' % e
                continue
            usable.append((pat, flags, tree))
        n_lib = self.n // 2
        per = max(4, n_lib // (4 * max(1, len(usable))) + 1)
        g = Gen(rnd)
        for pat, flags, tree in usable:
            for i, s in enumerate(g.subjects(tree, per)):
                self.add('lib', pat, flags, s, i)
        # fuzz
        fz = Fuzz(rnd)
        n_fuzz = (self.n * 2) // 5
        made = 0
        tries = 0
        while made < n_fuzz and tries < 50 * n_fuzz + 1000:
            tries += 1
            pat, flags = fz.pattern(), fz.flags()
            try:
                with_warnings_off(lambda: re.compile(pat, flags))
                regex_tree(pat, flags)
            except (re.error, Unsupported, RecursionError, OverflowError):
                continue
            for i in range(rnd.choice([2, 3, 4])):
                self.add('fuzz', pat, flags, fz.subject(), rnd.randrange(4))
                made += 4
        # unicode / ignorecase
        n_uni = self.n - n_lib - n_fuzz
        made = 0
        while made < n_uni:
            pat = uni_pattern(rnd)
            flags = int(rnd.choice([re.I, re.I, re.I, 0, re.I | re.A, re.A]))
            try:
                with_warnings_off(lambda: re.compile(pat, flags))
                regex_tree(pat, flags)
            except (re.error, Unsupported):
                continue
            for i in range(3):
                s = ''.join(rnd.choice(UNI_CHARS) for _ in range(rnd.choice([1, 1, 2, 3, 4])))
                self.add('uni', pat, flags, s, rnd.randrange(4))
                made += 4


def with_warnings_off(f):
    import warnings
    with warnings.catch_warnings():
        warnings.simplefilter('ignore')
        return f()


class Driver:
    """lock-step conversation with the driver process (one request line, one response line), with a
    per-request timeout so that a blow-up of the eager model engine is reported, not waited for"""

    def __init__(self, cmd, cwd, timeout):
        self.cmd, self.cwd, self.timeout = cmd, cwd, timeout
        self.proc = None
        self.buf = b''

    def start(self):
        self.proc = subprocess.Popen(self.cmd, cwd=self.cwd, stdin=subprocess.PIPE, stdout=subprocess.PIPE,
                                     stderr=subprocess.DEVNULL, bufsize=0)
        self.buf = b''

    def stop(self):
        if self.proc is not None:
            try:
                self.proc.kill()
                self.proc.wait()
            except Exception:
                pass
            self.proc = None

    def ask(self, line):
        import select
        if self.proc is None:
            self.start()
        try:
            self.proc.stdin.write(line.encode('utf-8') + b'\n')
            self.proc.stdin.flush()
        except BrokenPipeError:
            self.stop()
            return '<driver died>'
        deadline = time.time() + self.timeout
        while b'\n' not in self.buf:
            left = deadline - time.time()
            if left <= 0:
                self.stop()
                return '<timeout>'
            ready, _, _ = select.select([self.proc.stdout], [], [], left)
            if not ready:
                continue
            chunk = os.read(self.proc.stdout.fileno(), 1 << 16)
            if not chunk:
                self.stop()
                return '<driver died>'
            self.buf += chunk
        resp, _, self.buf = self.buf.partition(b'\n')
        return resp.decode('utf-8')


def run_driver(cmd, cwd, lines, keys, timeout):
    """responses for all request lines; after a timeout the remaining requests with the same key
    (pattern) are not sent any more (answer '<skipped>')"""
    d = Driver(cmd, cwd, timeout)
    out = []
    slow = set()
    try:
        for ln, key in zip(lines, keys):
            if key in slow:
                out.append('<skipped>')
                continue
            resp = d.ask(ln)
            if resp == '<timeout>':
                slow.add(key)
            out.append(resp)
    finally:
        d.stop()
    return out


def main():
    ap = argparse.ArgumentParser()
    ap.add_argument('--lean-dir', default='/verif/lean')
    ap.add_argument('--driver', default=None, help='command of a driver (default: lake env lean --run Driver/RegexMain.lean)')
    ap.add_argument('--n', type=int, default=20000, help='approximate number of evaluations')
    ap.add_argument('--show', type=int, default=10, help='number of disagreements to print')
    ap.add_argument('--timeout', type=float, default=10.0, help='seconds per request (a timeout in the lib stream is a failure; in the random streams the pattern is dropped and listed under fuzz_timeouts)')
    ap.add_argument('--list-patterns', action='store_true')
    a = ap.parse_args()
    seed = int(os.environ.get('VERIF_SEED', '1'))
    if a.list_patterns:
        for (pat, flags), origin in sorted(library_patterns().items(), key=lambda kv: kv[1]):
            print('%-60s %3d %r' % (origin, flags, pat))
        return
    plan = Plan(seed, a.n)
    with_warnings_off(plan.build)
    cache = {}
    lines, expected = [], []
    for stream, target, pat, flags, args in plan.cases:
        key = (pat, flags)
        if key not in cache:
            cache[key] = regex_to_json(pat, flags)
        lines.append(request_line(target, cache[key], args))
        expected.append(with_warnings_off(lambda: py_eval(target, pat, flags, args)))
    cmd = shlex.split(a.driver) if a.driver else ['lake', 'env', 'lean', '--run', 'Driver/RegexMain.lean']
    out = run_driver(cmd, a.lean_dir, lines, [(c[2], c[3]) for c in plan.cases], a.timeout)
    dist = {}
    agree = 0
    evaluations = 0
    timeouts = []
    disagreements = []
    for i, (case, exp) in enumerate(zip(plan.cases, expected)):
        got = parse_response(out[i]) if i < len(out) else ('bad', '<missing>')
        stream, target = case[0], case[1]
        if stream != 'lib' and got in (('bad', '<timeout>'), ('bad', '<skipped>')):
            # the model engine enumerates ALL backtracking paths eagerly; random patterns with nested
            # empty-matching loops can make that explode.  Not a disagreement, but reported.
            if got[1] == '<timeout>':
                timeouts.append({'pattern': case[2], 'flags': case[3], 'args': list(case[4])})
            continue
        evaluations += 1
        kind = 'err' if exp[0] == 'err' else ('none' if exp[1] in (None, []) else 'hit')
        key = '%s/%s/%s' % (stream, target, kind)
        dist[key] = dist.get(key, 0) + 1
        if got == exp:
            agree += 1
        else:
            disagreements.append({'stream': stream, 'target': target, 'pattern': case[2], 'flags': case[3],
                                  'args': list(case[4]), 'python': exp, 'lean': got})
    summary = {
        'evaluations': evaluations, 'agree': agree, 'disagreements': len(disagreements),
        'distribution': dict(sorted(dist.items())), 'seed': seed,
        'library_patterns': plan.lib_count, 'distinct_patterns': len(cache), 'skipped': plan.skipped,
        'fuzz_timeouts': timeouts,
    }
    for d in disagreements[:a.show]:
        sys.stderr.write(json.dumps(d, ensure_ascii=True) + '\n')
    print(json.dumps(summary, indent=1))
    sys.exit(1 if disagreements or not evaluations else 0)


if __name__ == '__main__':
    main()
