"""py2lean: translate the Python subset python-stdnum is written in to a shallow Lean 4 embedding.

One Lean function per Python function, `do`-notation over `Py.R = Except Py.Exc`, on top of the
hand-written runtime `PyRt`.  Module-level constants are obtained by *evaluating* the imported module.
See DESIGN.md §2.2.  A function that cannot be translated is reported as unmodelled (never silently
skipped); typing hints come from `profile_types` and are untrusted.
"""
import ast
import datetime
import inspect
import re
import sys

from pytypes import (
    Unsupported, default_value, dict_parts, elem, is_dict, is_list, is_opt, is_tuple, lean_type,
    lean_value, lit_str, opt_inner, par, t_dict, t_list, t_opt, t_tuple, tuple_parts, type_of_value, unify)
from pytypes import is_rec, rec_parts, t_rec


EXC = {
    'InvalidFormat': '.invalidFormat', 'InvalidLength': '.invalidLength',
    'InvalidChecksum': '.invalidChecksum', 'InvalidComponent': '.invalidComponent',
    'ValidationError': '.validationError', 'ValueError': '.valueError', 'Exception': '.other',
    'IndexError': '.indexError', 'KeyError': '.keyError', 'TypeError': '.typeError',
    'AttributeError': '.attributeError', 'ZeroDivisionError': '.zeroDivision',
    'OverflowError': '.overflow', 'UnicodeError': '.unicodeError', 'StopIteration': '.stopIteration',
    'UnicodeDecodeError': '.unicodeError', 'UnicodeEncodeError': '.unicodeError',
}

RESERVED = set('''prefix end from at in open section namespace instance structure class where do then fun
match with local private protected infix postfix notation macro syntax deriving mutual partial unsafe theorem
def abbrev example variable universe set_option attribute export import initialize show have suffices calc
by if else let return for unless try catch finally break continue mut nomatch nofun Type Prop Sort
inductive extends this opaque axiom noncomputable termination_by decreasing_by using omit include
public meta elab elab_rules macro_rules declare_syntax_cat infixl infixr precedence register_builtin_option
true false fun λ forall exists'''.split())


def mangle(n):
    if n == '_':
        return 'u__'
    if n in RESERVED:
        return n + '_'
    return n


def mandatory_groups(pattern):
    """indices (and names) of groups that are set in every successful match of the compiled pattern"""
    import re._parser as P
    import re._constants as C
    tree = P.parse(pattern.pattern, pattern.flags)
    out = set()

    def walk(sub, sure):
        for op, av in sub:
            if op is C.SUBPATTERN:
                gid, _a, _d, body = av
                if gid is not None and sure:
                    out.add(gid)
                walk(body, sure)
            elif op in (C.MAX_REPEAT, C.MIN_REPEAT) or getattr(C, 'POSSESSIVE_REPEAT', None) is op:
                mn, _mx, body = av
                walk(body, sure and mn >= 1)
            elif op is C.BRANCH:
                for b in av[1]:
                    walk(b, False)
            elif op in (C.ASSERT, C.ASSERT_NOT):
                walk(av[1], False)
            elif op is getattr(C, 'ATOMIC_GROUP', None):
                walk(av, sure)
            elif op is C.GROUPREF_EXISTS:
                for b in av[1:]:
                    if b is not None:
                        walk(b, False)
    walk(tree, True)
    names = {n for n, i in tree.state.groupdict.items() if i in out}
    return out, names


class MultiPattern:
    """a match object that may come from any of several compiled patterns (re.match(fmt, ...) with fmt ranging over a
    constant list)"""
    def __init__(self, patterns):
        self.patterns = list(patterns)


class FuncSig:
    def __init__(self, modname, name, params, ptypes, defaults, rtype, needs_today, lean_name):
        self.modname = modname
        self.name = name
        self.params = params          # names
        self.ptypes = ptypes          # types
        self.defaults = defaults      # name -> python value (for params that have one)
        self.rtype = rtype            # None until translated (then a type, or None if unsupported)
        self.needs_today = needs_today
        self.lean_name = lean_name
        self.ok = False
        self.reason = None
        self.calls = set()
        self.in_disp = False


class Ctx:
    """Global translation context: all modules, signatures, the `today` closure."""

    def __init__(self, profile):
        self.profile = profile
        self.mods = {}        # modname -> ModuleTranslator
        self.sigs = {}        # (modname, funcname) -> FuncSig


def always_exits(stmts):
    """True when control cannot fall off the end of this statement list."""
    if not stmts:
        return False
    last = stmts[-1]
    if isinstance(last, (ast.Return, ast.Raise)):
        return True
    if isinstance(last, ast.If):
        return bool(last.orelse) and always_exits(last.body) and always_exits(last.orelse)
    if isinstance(last, ast.Try):
        body_exits = always_exits(last.body) if not last.orelse else always_exits(last.orelse)
        return body_exits and all(always_exits(h.body) for h in last.handlers)
    if isinstance(last, ast.With):
        return always_exits(last.body)
    return False


def assigned_names(node):
    out = set()
    for n in ast.walk(node):
        if isinstance(n, ast.Name) and isinstance(n.ctx, ast.Store):
            out.add(n.id)
    return out


class FuncTranslator:
    def __init__(self, modtr, fn, sig, qual=None):
        self.m = modtr
        self.fn = fn
        self.sig = sig
        self.env = {}            # python name -> (lean name, type)
        self.var_decl = {}       # lean name -> type    (mutable locals to pre-declare)
        self.versions = {}       # python name -> int
        self.ret_types = []
        self.final = None        # pass 2: dict lean name -> final type
        self.lambda_ctr = 0
        self.loop_depth = 0
        self.uses_today = False
        self.tuple_lits = {}
        self.fdeps = set()         # modules / registries this function's Lean text refers to
        self.lambdas = {}          # local `name = lambda ...` definitions (inlined)
        self.match_pat = {}        # python variable name -> compiled pattern its match object came from
        self.defaultdicts = {}     # local `name = defaultdict(int)`: python name -> (default code, default type)
        self.loop_consts = {}      # loop variable -> values of the module-level constant list it ranges over
        self.block_ok = 1          # indentation level at which an assignment may start a new variable version
        self.frames = []           # open if/else branches: {'versioned': {name: binding before}, 'pending': {name: lean name}}
        self.last_pattern = None

    # ------------------------------------------------------------------ helpers
    def fresh(self, base):
        self.lambda_ctr += 1
        return '%s__%d' % (base, self.lambda_ctr)

    def lookup(self, name):
        if name in self.env:
            return self.env[name]
        return None

    def truthy(self, v, t):
        if t == 'bool':
            return v
        if t == 'str' or is_list(t) or is_dict(t):
            return '!(%s).isEmpty' % par(v)
        if t == 'int':
            return '(%s != 0)' % v
        if t == 'opt[str]' or (is_opt(t) and (is_list(opt_inner(t)) or is_dict(opt_inner(t)))):
            return '(match %s with | some v__ => !v__.isEmpty | none => false)' % par(v)
        if t == 'opt[int]':
            return '(match %s with | some v__ => v__ != 0 | none => false)' % par(v)
        if is_opt(t):
            return '(%s).isSome' % par(v)
        if t == 'none':
            return 'false'
        if t in ('date', 'match', 'module'):
            return 'true'
        raise Unsupported('truthiness of ' + t)

    def coerce(self, v, t, want):
        if t == want or want is None:
            return v
        if '?' in want and self.final is None:
            return v     # pass 1: element types not known yet; only types matter in this pass
        if want == 'any':
            raise Unsupported('coerce to any')
        if t == 'none' and is_opt(want):
            return '(none : %s)' % lean_type(want)
        if is_opt(want) and not is_opt(t):
            return '(some %s)' % self.coerce(v, t, opt_inner(want))
        if t == 'bool' and want == 'int':
            return '(if %s then (1 : Int) else 0)' % v
        if is_opt(t) and opt_inner(t) == want:
            # passing a possibly-None value where the callee uses it as a T: Python raises AttributeError /
            # TypeError at the first use; the model raises at the hand-over (both are non-validation errors)
            return '(← Py.optGet %s)' % par(v)
        if t == 'list[?]' and (is_list(want) or is_dict(want)):
            return '([] : %s)' % lean_type(want)
        if t == 'dict[?,?]' and is_dict(want):
            return '([] : %s)' % lean_type(want)
        if is_tuple(t) and is_list(want):
            ps = tuple_parts(t)
            if all(unify(p, elem(want)) == elem(want) for p in ps):
                return '(Py.tupleToList %s : %s)' % (par(v), lean_type(want))
        if is_list(t) and is_list(want) and is_tuple(elem(t)) and is_list(elem(want)):
            return '((%s).map (fun x__ => (Py.tupleToList x__ : %s)))' % (par(v), lean_type(elem(want)))
        if is_tuple(t) and is_tuple(want):
            pt, pw = tuple_parts(t), tuple_parts(want)
            if len(pt) == len(pw):
                names = ['c%d__' % i for i in range(len(pt))]
                inner = ', '.join(self.coerce(n, a, b) for n, a, b in zip(names, pt, pw))
                return '(match %s with | (%s) => (%s))' % (par(v), ', '.join(names), inner)
        raise Unsupported('cannot coerce %s to %s' % (t, want))

    def as_list(self, v, t):
        """view a value as a Lean list for iteration: returns (code, element type)"""
        if t == 'str':
            return '(Py.chars %s)' % par(v), 'str'
        if is_list(t):
            return v, elem(t)
        if is_tuple(t):
            u = None
            for p in tuple_parts(t):
                u = unify(u, p)
            if u == 'any':
                raise Unsupported('iteration over heterogeneous tuple')
            items = self.tuple_lits.get(v)
            if items is not None:
                return '([%s] : List %s)' % (', '.join(self.coerce(a, b, u) for a, b in items), par(lean_type(u))), u
            return '(Py.tupleToList %s : List %s)' % (par(v), par(lean_type(u))), u
        if is_dict(t):
            k, _ = dict_parts(t)
            return '((%s).map (·.1))' % par(v), k
        if is_opt(t) and (opt_inner(t) == 'str' or is_list(opt_inner(t)) or is_tuple(opt_inner(t)) or is_dict(opt_inner(t))):
            # iterating over None is a TypeError ('NoneType' object is not iterable)
            return self.as_list('(← Py.optGetT %s)' % par(v), opt_inner(t))
        raise Unsupported('iteration over ' + t)

    # ------------------------------------------------------------------ expressions
    def expr(self, e):
        """returns (lean code, type)"""
        meth = getattr(self, 'e_' + type(e).__name__, None)
        if meth is None:
            raise Unsupported('expression ' + type(e).__name__)
        return meth(e)

    def expr_t(self, e, want):
        v, t = self.expr(e)
        return self.coerce(v, t, want)

    def expr_int(self, e):
        v, t = self.expr(e)
        if t == 'bool':
            return self.coerce(v, t, 'int')
        if t != 'int':
            raise Unsupported('expected int got ' + t)
        return par(v)

    def e_Constant(self, e):
        v = e.value
        if v is None:
            return ('()', 'none')
        if isinstance(v, bool):
            return ('true' if v else 'false', 'bool')
        if isinstance(v, str):
            return ('(%s : Str)' % lit_str(v), 'str')
        if isinstance(v, int):
            return ('(%d : Int)' % v, 'int')
        raise Unsupported('constant %r' % (v,))

    def e_Name(self, e):
        got = self.lookup(e.id)
        if got:
            return got
        if e.id in EXC:
            return (EXC[e.id], 'exc')
        return self.m.global_name(e.id, self)

    def e_Tuple(self, e):
        items = [self.expr(x) for x in e.elts]
        if not items:
            return ('[]', 'list[?]')
        if len(items) == 1:
            return ('[%s]' % items[0][0], t_list(items[0][1]))
        if len(items) >= 3 and len({t for _, t in items}) == 1 and items[0][1] in ('int', 'str') \
                and all(isinstance(x, ast.Constant) or (isinstance(x, ast.UnaryOp) and isinstance(x.operand, ast.Constant)) for x in e.elts):
            # a literal table (weights, alphabets): a homogeneous sequence
            return ('[' + ', '.join(v for v, _ in items) + ']', t_list(items[0][1]))
        code = '(' + ', '.join(v for v, _ in items) + ')'
        self.tuple_lits[code] = items
        return (code, t_tuple([t for _, t in items]))

    def e_List(self, e):
        items = [self.expr(x) for x in e.elts]
        if not items:
            return ('[]', 'list[?]')
        t = None
        for _, ti in items:
            t = unify(t, ti)
        if t == 'any':
            raise Unsupported('heterogeneous list')
        return ('[' + ', '.join(self.coerce(v, ti, t) for v, ti in items) + ']', t_list(t))

    def e_Set(self, e):
        return self.e_List(e)

    def e_Dict(self, e):
        if not e.keys:
            return ('[]', 'dict[?,?]')
        ks = [self.expr(k) for k in e.keys]
        vs = [self.expr(v) for v in e.values]
        kt = vt = None
        for _, t in ks:
            kt = unify(kt, t)
        for _, t in vs:
            vt = unify(vt, t)
        if vt == 'any' and kt == 'str' and len(e.keys) >= 2 and len({k.value for k in e.keys if isinstance(k, ast.Constant)}) == len(e.keys) \
                and all(isinstance(k, ast.Constant) and isinstance(k.value, str) and re.fullmatch(r'\w+', k.value) for k in e.keys) \
                and not any('?' in t or t == 'any' for _, t in vs):
            # {'a': <str>, 'b': <int>, ...}: a record with these keys, in this order (values evaluated left to right)
            return ('(' + ', '.join(v for v, _ in vs) + ')', t_rec([(k.value, t) for k, (_, t) in zip(e.keys, vs)]))
        if 'any' in (kt, vt):
            raise Unsupported('heterogeneous dict')
        pairs = ', '.join('(%s, %s)' % (self.coerce(k, t1, kt), self.coerce(v, t2, vt)) for (k, t1), (v, t2) in zip(ks, vs))
        return ('(Py.dictOfPairs [%s])' % pairs, t_dict(kt, vt))

    def e_UnaryOp(self, e):
        v, t = self.expr(e.operand)
        if isinstance(e.op, ast.Not):
            return ('!' + par(self.truthy(v, t)), 'bool')
        if isinstance(e.op, ast.USub) and t in ('int', 'bool'):
            return ('(-' + par(self.coerce(v, t, 'int')) + ')', 'int')
        if isinstance(e.op, ast.UAdd) and t == 'int':
            return (v, 'int')
        raise Unsupported('unary op')

    def lazy(self, code, t):
        """wrap code (which may contain nested actions) so that it is evaluated only when reached"""
        return code

    def e_BoolOp(self, e):
        vals = [self.expr(x) for x in e.values]
        ts = {t for _, t in vals}
        value_mode = len(ts) == 1 and ts != {'bool'}
        if value_mode:
            # `a or b` / `a and b` used for its value (same type on all operands)
            t = ts.pop()
            out = vals[-1][0]
            for v, _ in reversed(vals[:-1]):
                tmp = self.fresh('bo')
                cond = self.truthy(tmp, t)
                if isinstance(e.op, ast.Or):
                    out = '(← (do let %s := %s; if %s then pure %s else pure %s : R %s))' % (tmp, v, cond, tmp, par(out), par(lean_type(t)))
                else:
                    out = '(← (do let %s := %s; if %s then pure %s else pure %s : R %s))' % (tmp, v, cond, par(out), tmp, par(lean_type(t)))
            return (out, t)
        if len(ts) == 2 and 'none' in ts or any(is_opt(t) for t in ts) and isinstance(e.op, ast.Or):
            # `x or default` with optional x
            t = None
            for _, ti in vals:
                t = unify(t, ti)
            if t != 'any' and isinstance(e.op, ast.Or) and len(vals) == 2:
                (a, ta), (b, tb) = vals
                if is_opt(ta) and not is_opt(tb) and unify(opt_inner(ta), tb) == tb:
                    tmp = self.fresh('bo')
                    inner_truthy = self.truthy('v__', tb) if tb != 'date' else 'true'
                    return ('(← (do match %s with | some v__ => if %s then pure v__ else pure %s | none => pure %s : R %s))' % (
                        par(a), inner_truthy, par(b), par(b), par(lean_type(tb))), tb)
        bs = [self.truthy(v, t) for v, t in vals]
        out = bs[-1]
        for b in reversed(bs[:-1]):
            if '←' in out:
                if isinstance(e.op, ast.And):
                    out = '(← (do if %s then pure %s else pure false : R Bool))' % (b, par(out))
                else:
                    out = '(← (do if %s then pure true else pure %s : R Bool))' % (b, par(out))
            else:
                out = '(%s %s %s)' % (b, '&&' if isinstance(e.op, ast.And) else '||', out)
        return (out, 'bool')

    def e_Compare(self, e):
        left = self.expr(e.left)
        parts = []
        for op, right in zip(e.ops, e.comparators):
            r = self.expr(right)
            parts.append(self.compare(op, left, r))
            left = r
        if len(parts) == 1:
            return (parts[0], 'bool')
        out = parts[-1]
        for p in reversed(parts[:-1]):
            if '←' in out:
                out = '(← (do if %s then pure %s else pure false : R Bool))' % (p, par(out))
            else:
                out = '(%s && %s)' % (p, out)
        return (out, 'bool')

    def compare(self, op, left, right):
        (l, lt), (r, rt) = left, right
        if isinstance(op, (ast.Is, ast.IsNot)):
            neg = isinstance(op, ast.IsNot)
            if rt == 'none':
                if is_opt(lt):
                    return '(%s).%s' % (par(l), 'isSome' if neg else 'isNone')
                if lt == 'none':
                    return 'false' if neg else 'true'
                return 'true' if neg else 'false'
            op = ast.NotEq() if neg else ast.Eq()
        if isinstance(op, (ast.Eq, ast.NotEq)):
            u = unify(lt, rt)
            if u == 'any':
                # values of different types are never equal in Python
                if {lt, rt} <= {'str', 'int', 'bool', 'none', 'date'} or True:
                    return 'false' if isinstance(op, ast.Eq) else 'true'
            return '(%s %s %s)' % (self.coerce(l, lt, u), '==' if isinstance(op, ast.Eq) else '!=', self.coerce(r, rt, u))
        if isinstance(op, (ast.In, ast.NotIn)):
            neg = '!' if isinstance(op, ast.NotIn) else ''
            if rt == 'str' and lt == 'str':
                return '%s(Py.strIn %s %s)' % (neg, par(l), par(r))
            if rt == 'str':
                raise Unsupported('non-str in str')
            if is_dict(rt):
                k, _ = dict_parts(rt)
                if unify(k, lt) == 'any':
                    return 'true' if neg else 'false'
                return '%s(Py.dictHas %s %s)' % (neg, par(r), par(self.coerce(l, lt, k)))
            lst, et = self.as_list(r, rt)
            u = unify(et, lt)
            if u == 'any':
                return 'true' if neg else 'false'
            if u != et:
                lst = '((%s).map (fun x__ => %s))' % (lst, self.coerce('x__', et, u))
            return '%s((%s).contains %s)' % (neg, par(lst), par(self.coerce(l, lt, u)))
        sym = {ast.Lt: '<', ast.LtE: '≤', ast.Gt: '>', ast.GtE: '≥'}[type(op)]
        if lt in ('int', 'bool') and rt in ('int', 'bool'):
            return '(decide (%s %s %s))' % (self.coerce(l, lt, 'int'), sym, self.coerce(r, rt, 'int'))
        if lt == rt == 'str':
            f = {'<': 'Py.strLt %s %s', '≤': 'Py.strLe %s %s', '>': 'Py.strLt %s %s', '≥': 'Py.strLe %s %s'}[sym]
            a, b = (par(l), par(r)) if sym in '<≤' else (par(r), par(l))
            return '(' + f % (a, b) + ')'
        if lt == rt == 'date':
            f = {'<': '(%s).lt %s', '≤': '(%s).le %s', '>': '(%s).lt %s', '≥': '(%s).le %s'}[sym]
            a, b = (par(l), par(r)) if sym in '<≤' else (par(r), par(l))
            return '(' + f % (a, b) + ')'
        raise Unsupported('ordering of %s and %s' % (lt, rt))

    def e_BinOp(self, e):
        op = e.op
        if isinstance(op, ast.Mod) and isinstance(e.left, ast.Constant) and isinstance(e.left.value, str):
            return self.percent_format(e.left.value, e.right)
        l, lt = self.expr(e.left)
        r, rt = self.expr(e.right)
        if lt == 'str' and isinstance(op, ast.Mod):
            raise Unsupported('dynamic % format')
        if isinstance(op, ast.Add):
            if lt == 'str' and rt == 'str':
                return ('(%s ++ %s)' % (l, r), 'str')
            if lt == 'opt[str]' and rt == 'str' and '←' not in r:
                # None + 'x' is a TypeError
                return ('((← Py.optGetT %s) ++ %s)' % (par(l), r), 'str')
            if is_list(lt) and is_list(rt):
                u = unify(lt, rt)
                if u != 'any':
                    return ('(%s ++ %s)' % (self.coerce(l, lt, u), self.coerce(r, rt, u)), u)
            if is_tuple(lt) and is_list(rt) or is_list(lt) and is_tuple(rt) or is_tuple(lt) and is_tuple(rt):
                la, ea = self.as_list(l, lt)
                lb, eb = self.as_list(r, rt)
                if unify(ea, eb) == ea == eb:
                    return ('(%s ++ %s)' % (la, lb), t_list(ea))
        if isinstance(op, ast.Mult):
            if lt == 'str' and rt in ('int', 'bool'):
                return ('(Py.repeatStr %s %s)' % (par(l), par(self.coerce(r, rt, 'int'))), 'str')
            if lt in ('int', 'bool') and rt == 'str':
                return ('(Py.repeatStr %s %s)' % (par(r), par(self.coerce(l, lt, 'int'))), 'str')
            if is_list(lt) and rt == 'int':
                return ('(List.replicate (%s).toNat %s).flatten' % (r, par(l)), lt)
        if lt in ('int', 'bool') and rt in ('int', 'bool'):
            l, r = self.coerce(l, lt, 'int'), self.coerce(r, rt, 'int')
            if isinstance(op, ast.Add):
                return ('(%s + %s)' % (l, r), 'int')
            if isinstance(op, ast.Sub):
                return ('(%s - %s)' % (l, r), 'int')
            if isinstance(op, ast.Mult):
                return ('(%s * %s)' % (l, r), 'int')
            if isinstance(op, ast.Mod):
                if isinstance(e.right, ast.Constant) and isinstance(e.right.value, int) and e.right.value > 0:
                    return ('(%s %% %s)' % (par(l), par(r)), 'int')
                return ('(← Py.pymod %s %s)' % (par(l), par(r)), 'int')
            if isinstance(op, ast.FloorDiv):
                if isinstance(e.right, ast.Constant) and isinstance(e.right.value, int) and e.right.value > 0:
                    return ('(%s / %s)' % (par(l), par(r)), 'int')
                return ('(← Py.pyfloordiv %s %s)' % (par(l), par(r)), 'int')
            if isinstance(op, ast.Pow):
                return ('(← Py.pypow %s %s)' % (par(l), par(r)), 'int')
            if isinstance(op, ast.BitAnd):
                return ('(Py.iand %s %s)' % (par(l), par(r)), 'int')
            if isinstance(op, ast.BitOr):
                return ('(Py.ior %s %s)' % (par(l), par(r)), 'int')
            if isinstance(op, ast.BitXor):
                return ('(Py.ixor %s %s)' % (par(l), par(r)), 'int')
            if isinstance(op, ast.LShift):
                return ('(← Py.pyshl %s %s)' % (par(l), par(r)), 'int')
            if isinstance(op, ast.RShift):
                return ('(← Py.pyshr %s %s)' % (par(l), par(r)), 'int')
        raise Unsupported('binop %s %s %s' % (type(op).__name__, lt, rt))

    def percent_format(self, fmt, right):
        """'...%02d...' % (a, b)"""
        specs = list(re.finditer(r'%(?:\((\w+)\))?([0 #+-]*)(\d*)(?:\.(\d+))?([sdXxi%r])', fmt))
        if isinstance(right, ast.Tuple):
            args = [self.expr(x) for x in right.elts]
        else:
            v, t = self.expr(right)
            if is_tuple(t):
                ps = tuple_parts(t)
                tmp = self.fresh('ft')
                names = ['%s_%d' % (tmp, i) for i in range(len(ps))]
                # bind via match at use site
                self._fmt_prelude = ('(match %s with | (%s) => ' % (par(v), ', '.join(names)), ')')
                args = list(zip(names, ps))
            else:
                args = [(v, t)]
                self._fmt_prelude = None
        pieces = []
        pos = 0
        ai = 0
        for m in specs:
            if m.start() > pos:
                pieces.append('(%s : Str)' % lit_str(fmt[pos:m.start()]))
            pos = m.end()
            name, flags, width, prec, conv = m.groups()
            if conv == '%':
                pieces.append('([37] : Str)')
                continue
            if name or prec:
                raise Unsupported('format spec ' + m.group(0))
            if ai >= len(args):
                raise Unsupported('format arity')
            v, t = args[ai]
            ai += 1
            w = int(width) if width else 0
            zero = '0' in flags
            if set(flags) - {'0'}:
                raise Unsupported('format flags ' + flags)
            if conv in 'di':
                if t not in ('int', 'bool'):
                    raise Unsupported('%%d of %s' % t)
                pieces.append('(Py.fmtD %d %s %s)' % (w, 'true' if zero else 'false', par(self.coerce(v, t, 'int'))))
            elif conv in 'Xx':
                if t != 'int':
                    raise Unsupported('%%x of %s' % t)
                pieces.append('(← Py.fmtX %d %s %s %s)' % (w, 'true' if zero else 'false', 'true' if conv == 'X' else 'false', par(v)))
            elif conv == 's':
                if w or zero:
                    raise Unsupported('%s with width')
                if t == 'str':
                    pieces.append(par(v))
                elif t in ('int',):
                    pieces.append('(Py.strOfInt %s)' % par(v))
                else:
                    raise Unsupported('%%s of %s' % t)
            else:
                raise Unsupported('format conversion ' + conv)
        if pos < len(fmt):
            pieces.append('(%s : Str)' % lit_str(fmt[pos:]))
        if ai != len(args):
            raise Unsupported('format arity')
        code = '(' + ' ++ '.join(pieces) + ')' if pieces else '([] : Str)'
        pre = getattr(self, '_fmt_prelude', None)
        self._fmt_prelude = None
        if pre:
            code = pre[0] + code + pre[1]
        return (code, 'str')

    def e_JoinedStr(self, e):
        raise Unsupported('f-string')

    def e_IfExp(self, e):
        c, ct = self.expr(e.test)
        a, at = self.expr(e.body)
        b, bt = self.expr(e.orelse)
        u = unify(at, bt)
        if u == 'any':
            raise Unsupported('conditional expression of types %s / %s' % (at, bt))
        a, b = self.coerce(a, at, u), self.coerce(b, bt, u)
        cond = self.truthy(c, ct)
        if '←' in a or '←' in b:
            return ('(← (do if %s then pure %s else pure %s : R %s))' % (cond, par(a), par(b), par(lean_type(u))), u)
        return ('(if %s then %s else %s)' % (cond, a, b), u)

    def e_Subscript(self, e):
        v, t = self.expr(e.value)
        if isinstance(e.slice, ast.Slice):
            sl = e.slice
            lo = 'none' if sl.lower is None else '(some %s)' % self.expr_int(sl.lower)
            hi = 'none' if sl.upper is None else '(some %s)' % self.expr_int(sl.upper)
            if t == 'str':
                base, rt = v, 'str'
            elif is_list(t):
                base, rt = v, t
            elif is_tuple(t):
                base, et = self.as_list(v, t)
                rt = t_list(et)
            else:
                raise Unsupported('slice of ' + t)
            if sl.step is not None:
                st = sl.step
                if isinstance(st, ast.UnaryOp) and isinstance(st.op, ast.USub) and isinstance(st.operand, ast.Constant) and st.operand.value == 1:
                    if sl.lower is None and sl.upper is None:
                        return ('(%s).reverse' % par(base), rt)
                    raise Unsupported('negative step with bounds')
                if isinstance(st, ast.Constant) and isinstance(st.value, int) and st.value >= 1:
                    return ('(Py.sliceStepL %s %s %s %d)' % (par(base), lo, hi, st.value), rt)
                raise Unsupported('slice step')
            return ('(Py.sliceL %s %s %s)' % (par(base), lo, hi) if rt != 'str' else '(Py.slice %s %s %s)' % (par(base), lo, hi), rt)
        if t == 'str':
            return ('(← Py.getItem %s %s)' % (par(v), self.expr_int(e.slice)), 'str')
        if is_list(t):
            return ('(← Py.getItemL %s %s)' % (par(v), self.expr_int(e.slice)), elem(t))
        if is_tuple(t):
            ps = tuple_parts(t)
            if isinstance(e.slice, ast.Constant) and isinstance(e.slice.value, int) and -len(ps) <= e.slice.value < len(ps):
                i = e.slice.value % len(ps)
                names = ['p%d__' % k for k in range(len(ps))]
                return ('(match %s with | (%s) => %s)' % (par(v), ', '.join(names), names[i]), ps[i])
            lst, et = self.as_list(v, t)
            return ('(← Py.getItemL %s %s)' % (par(lst), self.expr_int(e.slice)), et)
        if is_dict(t):
            k, vt = dict_parts(t)
            kv, kt = self.expr(e.slice)
            if unify(kt, k) == 'any':
                return ('(← (Py.raise .keyError : R %s))' % par(lean_type(vt)), vt)
            return ('(← Py.dictGet %s %s)' % (par(v), par(self.coerce(kv, kt, k))), vt)
        if t == 'match':
            return self.match_group(v, [e.slice], e.value)
        if is_rec(t) and isinstance(e.slice, ast.Constant) and isinstance(e.slice.value, str):
            fields = rec_parts(t)
            names = ['p%d__' % k for k in range(len(fields))]
            for (k, ft_), nm in zip(fields, names):
                if k == e.slice.value:
                    return ('(match %s with | (%s) => %s)' % (par(v), ', '.join(names), nm), ft_)
            return ('(← (Py.raise .keyError : R Unit))', 'none')
        raise Unsupported('subscript of ' + t)

    def e_Attribute(self, e):
        # module constants, date fields
        if isinstance(e.value, ast.Name) and self.lookup(e.value.id) is None:
            modref = self.m.imported_modules.get(e.value.id)
            if modref is not None:
                return self.m.ctx.mods[modref].global_name(e.attr, self) if modref in self.m.ctx.mods else self.m.foreign_global(modref, e.attr, self)
        v, t = self.expr(e.value)
        if t == 'date' and e.attr in ('year', 'month', 'day'):
            return ('(%s).%s' % (par(v), e.attr), 'int')
        if t == 'module' and e.attr == '__name__':
            return ('(Py.ofString %s)' % par(v), 'str')
        raise Unsupported('attribute .%s of %s' % (e.attr, t))

    def e_Lambda(self, e):
        raise Unsupported('lambda value')

    def e_Starred(self, e):
        raise Unsupported('starred')

    def e_GeneratorExp(self, e):
        return self.comprehension(e)

    def e_ListComp(self, e):
        return self.comprehension(e)

    def e_SetComp(self, e):
        return self.comprehension(e)

    def e_DictComp(self, e):
        if len(e.generators) != 1:
            raise Unsupported('multi-generator dict comprehension')
        fake = ast.ListComp(elt=ast.Tuple(elts=[e.key, e.value], ctx=ast.Load()), generators=e.generators)
        v, t = self.comprehension(fake)
        k, vt = tuple_parts(elem(t))
        return ('(Py.dictOfPairs %s)' % par(v), t_dict(k, vt))

    def comprehension(self, e):
        if len(e.generators) != 1:
            raise Unsupported('multi-generator comprehension')
        g = e.generators[0]
        if g.is_async:
            raise Unsupported('async')
        tm = self.to_min_idiom(e, g)
        if tm is not None:
            return tm
        it, itt = self.expr(g.iter)
        lst, et = self.as_list(it, itt)
        saved = dict(self.env)
        pat = self.bind_pattern(g.target, et)
        conds = [self.truthy(*self.expr(c)) for c in g.ifs]
        body, bt = self.expr(e.elt)
        self.env = saved
        monadic = '←' in body or any('←' in c for c in conds)
        cond = None
        if conds:
            cond = conds[-1]
            for c in reversed(conds[:-1]):
                if '←' in cond:
                    cond = '(← (do if %s then pure %s else pure false : R Bool))' % (c, par(cond))
                else:
                    cond = '(%s && %s)' % (c, cond)
        if not monadic:
            if cond:
                return ('((%s).filterMap (fun %s => if %s then some %s else none))' % (lst, pat, cond, par(body)), t_list(bt))
            return ('((%s).map (fun %s => %s))' % (lst, pat, body), t_list(bt))
        if cond:
            return ('(← (%s).filterMapM (fun %s => do if %s then pure (some %s) else pure none))' % (lst, pat, cond, par(body)), t_list(bt))
        return ('(← (%s).mapM (fun %s => do pure %s))' % (lst, pat, par(body)), t_list(bt))

    def to_min_idiom(self, e, g):
        """(x for x in unicodedata.normalize('NFD', S.lower()) if x in 'abcdefghijklmnopqrstuvwxyz'): the characters
        of `Py.toMin S` (hand-written, table of the a-z letters in the canonical decomposition of every code point;
        a-z are starters, so canonical reordering never moves them)"""
        import unicodedata
        it = g.iter
        if not (isinstance(it, ast.Call) and isinstance(it.func, ast.Attribute) and it.func.attr == 'normalize'
                and isinstance(it.func.value, ast.Name) and self.lookup(it.func.value.id) is None
                and len(it.args) == 2 and not it.keywords):
            return None
        try:
            if self.m.resolve(it.func.value.id) is not unicodedata:
                return None
        except Unsupported:
            return None
        form, arg = it.args
        ok = (isinstance(form, ast.Constant) and form.value == 'NFD'
              and isinstance(arg, ast.Call) and isinstance(arg.func, ast.Attribute) and arg.func.attr == 'lower'
              and not arg.args and not arg.keywords
              and isinstance(g.target, ast.Name) and isinstance(e.elt, ast.Name) and e.elt.id == g.target.id
              and len(g.ifs) == 1 and isinstance(g.ifs[0], ast.Compare) and len(g.ifs[0].ops) == 1
              and isinstance(g.ifs[0].ops[0], ast.In) and isinstance(g.ifs[0].left, ast.Name)
              and g.ifs[0].left.id == g.target.id and isinstance(g.ifs[0].comparators[0], ast.Constant)
              and g.ifs[0].comparators[0].value == 'abcdefghijklmnopqrstuvwxyz')
        if not ok:
            raise Unsupported('unicodedata.normalize outside the modelled idiom')
        v, t = self.expr(arg.func.value)
        if t != 'str':
            raise Unsupported('unicodedata.normalize argument type ' + t)
        return ('(Py.chars (Py.toMin %s))' % par(v), 'list[str]')

    def bind_pattern(self, target, t):
        """bind loop/comprehension target(s) as immutable names; returns a Lean pattern"""
        if isinstance(target, ast.Name):
            ln = mangle(target.id)
            self.env[target.id] = (ln, t)
            return '(%s : %s)' % (ln, lean_type(t))
        if isinstance(target, (ast.Tuple, ast.List)):
            if is_tuple(t):
                parts = tuple_parts(t)
                if len(parts) != len(target.elts):
                    raise Unsupported('unpack arity')
                pats = [self.bind_pattern(el, pt) for el, pt in zip(target.elts, parts)]
                return '(%s)' % ', '.join(pats)
            raise Unsupported('unpack of ' + t)
        raise Unsupported('target ' + type(target).__name__)

    # ------------------------------------------------------------------ calls
    def e_Call(self, e):
        f = e.func
        if isinstance(f, ast.Name):
            got = self.lookup(f.id)
            if got is None:
                return self.call_name(f.id, e)
            raise Unsupported('call of local value ' + f.id)
        if isinstance(f, ast.Attribute):
            return self.call_attr(f, e)
        raise Unsupported('call form')

    def args_noKw(self, e, n=None):
        if e.keywords:
            raise Unsupported('keywords in builtin call')
        if n is not None and len(e.args) != n:
            raise Unsupported('builtin arity')
        return [self.expr(a) for a in e.args]

    def call_name(self, n, e):
        args = e.args
        if n in EXC:
            return (EXC[n], 'exc')
        if n in self.lambdas and not e.keywords:
            lam = self.lambdas[n]
            params = [a.arg for a in lam.args.args]
            if len(params) != len(args) or lam.args.defaults or lam.args.vararg:
                raise Unsupported('lambda call arity')
            saved = dict(self.env)
            binds = []
            for pn, a in zip(params, args):
                v, t = self.expr(a)
                tmp = self.fresh('l_' + pn)
                binds.append((tmp, v, t))
            for pn, (tmp, v, t) in zip(params, binds):
                self.env[pn] = (tmp, t)
            body, bt = self.expr(lam.body)
            self.env = saved
            code = body
            for tmp, v, t in reversed(binds):
                code = '(let %s : %s := %s; %s)' % (tmp, lean_type(t), v, code)
            return (code, bt)
        if n == 'map' and len(args) == 2 and not e.keywords and isinstance(args[0], ast.Name):
            # map(f, xs) == [f(x) for x in xs]
            comp = ast.ListComp(elt=ast.Call(func=args[0], args=[ast.Name(id='m__x', ctx=ast.Load())], keywords=[]),
                                generators=[ast.comprehension(target=ast.Name(id='m__x', ctx=ast.Store()), iter=args[1], ifs=[], is_async=0)])
            return self.comprehension(comp)
        if n == 'pow' and len(args) == 2 and not e.keywords:
            a, b = [self.expr_int(x) for x in args]
            return ('(← Py.pypow %s %s)' % (a, b), 'int')
        if n == 'len':
            (v, t), = self.args_noKw(e, 1)
            if t == 'str' or is_list(t) or is_dict(t):
                return ('((%s).length : Int)' % par(v), 'int')
            if is_tuple(t):
                return ('(%d : Int)' % len(tuple_parts(t)), 'int')
            raise Unsupported('len of ' + t)
        if n == 'int':
            if len(args) == 1 and not e.keywords and isinstance(args[0], ast.IfExp):
                # int(a if c else b) == (int(a) if c else int(b))
                a0 = args[0]
                mk = lambda x: ast.Call(func=ast.Name(id='int', ctx=ast.Load()), args=[x], keywords=[])
                return self.expr(ast.IfExp(test=a0.test, body=mk(a0.body), orelse=mk(a0.orelse)))
            if len(args) == 1 and not e.keywords:
                v, t = self.expr(args[0])
                if t == 'str':
                    return ('(← Py.intOf %s)' % par(v), 'int')
                if t in ('int', 'bool'):
                    return (self.coerce(v, t, 'int'), 'int')
            if len(args) == 2 and not e.keywords:
                v, t = self.expr(args[0])
                if t == 'str':
                    return ('(← Py.intOfBase %s (%s).toNat)' % (par(v), self.expr_int(args[1])), 'int')
            raise Unsupported('int() form')
        if n == 'str':
            (v, t), = self.args_noKw(e, 1)
            if t == 'int':
                return ('(Py.strOfInt %s)' % par(v), 'str')
            if t == 'str':
                return (v, 'str')
            if t == 'opt[str]':
                return ('(match %s with | some s__ => s__ | none => Py.ofString "None")' % par(v), 'str')
            if t == 'bool':
                return ('(if %s then Py.ofString "True" else Py.ofString "False")' % v, 'str')
            raise Unsupported('str of ' + t)
        if n == 'bool':
            (v, t), = self.args_noKw(e, 1)
            return (self.truthy(v, t), 'bool')
        if n == 'ord':
            (v, t), = self.args_noKw(e, 1)
            if t == 'str':
                return ('(← Py.ord %s)' % par(v), 'int')
        if n == 'chr':
            (v, t), = self.args_noKw(e, 1)
            if t == 'int':
                return ('(← Py.chr %s)' % par(v), 'str')
        if n == 'abs':
            (v, t), = self.args_noKw(e, 1)
            if t == 'int':
                return ('((%s).natAbs : Int)' % par(v), 'int')
        if n == 'sum':
            (v, t), = self.args_noKw(e, 1)
            lst, et = self.as_list(v, t)
            if et in ('int', 'bool'):
                if et == 'bool':
                    lst = '((%s).map (fun b__ => if b__ then (1 : Int) else 0))' % lst
                return ('(Py.sumInt %s)' % par(lst), 'int')
            raise Unsupported('sum of ' + t)
        if n in ('max', 'min'):
            if len(args) == 1:
                v, t = self.expr(args[0])
                lst, et = self.as_list(v, t)
            else:
                items = [self.expr(a) for a in args]
                et = 'int' if all(t == 'int' for _, t in items) else None
                lst = '[' + ', '.join(v for v, _ in items) + ']'
            if et == 'int':
                return ('(← Py.%sInt %s)' % (n, par(lst)), 'int')
            raise Unsupported(n + ' of non-int')
        if n == 'reversed':
            (v, t), = self.args_noKw(e, 1)
            if t == 'str':
                return ('(Py.chars %s).reverse' % par(v), 'list[str]')
            lst, et = self.as_list(v, t)
            return ('(%s).reverse' % par(lst), t_list(et))
        if n in ('tuple', 'list', 'sorted', 'set', 'frozenset', 'iter'):
            if not args and n in ('list', 'tuple', 'set'):
                return ('[]', 'list[?]')
            (v, t), = self.args_noKw(e, 1)
            lst, et = self.as_list(v, t)
            if n == 'sorted':
                if et == 'int':
                    return ('(Py.sortedInt %s)' % par(lst), t_list(et))
                if et == 'str':
                    return ('(Py.sortedStr %s)' % par(lst), t_list(et))
                raise Unsupported('sorted of ' + et)
            if n in ('set', 'frozenset'):
                return ('(%s).eraseDups' % par(lst), t_list(et))
            return (lst, t_list(et))
        if n == 'dict':
            if not args and not e.keywords:
                return ('[]', 'dict[?,?]')
            if not args and e.keywords and all(k.arg for k in e.keywords):
                vals = [self.expr(k.value) for k in e.keywords]
                vt = None
                for _, t in vals:
                    vt = unify(vt, t)
                if vt == 'any':
                    raise Unsupported('heterogeneous dict()')
                pairs = ', '.join('(%s, %s)' % (lit_str(k.arg), self.coerce(v, t, vt)) for k, (v, t) in zip(e.keywords, vals))
                return ('(Py.dictOfPairs [%s])' % pairs, t_dict('str', vt))
            if len(args) == 1 and not e.keywords:
                v, t = self.expr(args[0])
                if is_dict(t):
                    return (v, t)
                lst, et = self.as_list(v, t)
                if is_tuple(et) and len(tuple_parts(et)) == 2:
                    k, vt = tuple_parts(et)
                    return ('(Py.dictOfPairs %s)' % par(lst), t_dict(k, vt))
                if is_list(et):
                    raise Unsupported('dict from list of lists')
            raise Unsupported('dict() form')
        if n == 'enumerate':
            v, t = self.expr(args[0])
            start = '0'
            if len(args) > 1:
                start = self.expr_int(args[1])
            for kw in e.keywords:
                if kw.arg == 'start':
                    start = self.expr_int(kw.value)
                else:
                    raise Unsupported('enumerate keyword')
            lst, et = self.as_list(v, t)
            return ('(Py.enumerate %s %s)' % (par(lst), start), t_list(t_tuple(['int', et])))
        if n == 'zip' and not e.keywords:
            parts = [self.as_list(*self.expr(a)) for a in args]
            if len(parts) == 2:
                (a, ea), (b, eb) = parts
                return ('(List.zip %s %s)' % (par(a), par(b)), t_list(t_tuple([ea, eb])))
            if len(parts) == 3:
                (a, ea), (b, eb), (c, ec) = parts
                return ('(Py.zip3 %s %s %s)' % (par(a), par(b), par(c)), t_list(t_tuple([ea, eb, ec])))
            raise Unsupported('zip arity')
        if n == 'range' and not e.keywords:
            xs = [self.expr_int(a) for a in args]
            if len(xs) == 1:
                return ('(Py.range 0 %s)' % xs[0], 'list[int]')
            if len(xs) == 2:
                return ('(Py.range %s %s)' % (xs[0], xs[1]), 'list[int]')
            if len(xs) == 3:
                return ('(Py.rangeStep %s %s %s)' % tuple(xs), 'list[int]')
        if n in ('all', 'any'):
            (v, t), = self.args_noKw(e, 1)
            lst, et = self.as_list(v, t)
            if et == 'bool':
                return ('(%s).%s id' % (par(lst), n), 'bool')
            return ('(%s).%s (fun x__ => %s)' % (par(lst), n, self.truthy('x__', et)), 'bool')
        if n == 'divmod':
            (a, at), (b, bt) = self.args_noKw(e, 2)
            if at == bt == 'int':
                return ('(← Py.pydivmod %s %s)' % (par(a), par(b)), 'tuple[int,int]')
        if n == 'pow' and len(args) == 3:
            a, b, c = [self.expr_int(x) for x in args]
            return ('(← Py.pypowmod %s %s %s)' % (a, b, c), 'int')
        if n == 'isinstance':
            v, t = self.expr(args[0])
            cls = args[1]
            names = []
            if isinstance(cls, ast.Name):
                names = [cls.id]
            elif isinstance(cls, ast.Tuple):
                names = [c.id if isinstance(c, ast.Name) else ast.unparse(c) for c in cls.elts]
            elif isinstance(cls, ast.Attribute):
                names = [ast.unparse(cls)]
            pyt = {'str': 'str', 'int': 'int', 'bool': 'bool', 'datetime.date': 'date', 'datetime.datetime': 'datetime', 'list': 'list', 'tuple': 'tuple', 'dict': 'dict'}
            want = {pyt.get(x, x) for x in names}
            base = t
            if is_list(t):
                base = 'list'
            if is_tuple(t):
                base = 'tuple'
            if is_dict(t):
                base = 'dict'
            if is_opt(t):
                raise Unsupported('isinstance on optional')
            ok = base in want or (base == 'bool' and 'int' in want) or (base == 'datetime' and 'date' in want)
            return ('true' if ok else 'false', 'bool')
        if n == 'hasattr' and self.lookup('hasattr') is None:
            return self.m.hasattr_call(e, self)
        if n == 'isdigits_':   # placeholder
            pass
        return self.m.call_global(n, e, self)

    def call_attr(self, f, e):
        meth = f.attr
        args = e.args
        # module.function(...)
        if isinstance(f.value, ast.Name) and self.lookup(f.value.id) is None:
            target = self.m.imported_modules.get(f.value.id)
            if target is not None:
                return self.m.call_module_func(target, meth, e, self)
            if f.value.id == 'datetime' or f.value.id == 'calendar' or f.value.id == 're' or f.value.id == 'math':
                return self.call_stdlib(f.value.id + '.' + meth, e)
        if isinstance(f.value, ast.Attribute) and isinstance(f.value.value, ast.Name) and f.value.value.id == 'datetime' and self.lookup('datetime') is None:
            return self.call_stdlib('datetime.%s.%s' % (f.value.attr, meth), e)
        # s.encode('ascii').decode('ascii'): the identity on ASCII strings, UnicodeEncodeError otherwise
        if meth == 'decode' and isinstance(f.value, ast.Call) and isinstance(f.value.func, ast.Attribute) and f.value.func.attr == 'encode':
            enc_args = [a.value for a in f.value.args if isinstance(a, ast.Constant)]
            dec_args = [a.value for a in args if isinstance(a, ast.Constant)]
            if enc_args == ['ascii'] and dec_args in (['ascii'], []) and not e.keywords and not f.value.keywords and len(f.value.args) == 1:
                v0, t0 = self.expr(f.value.func.value)
                if t0 == 'str':
                    return ('(← Py.asciiOnly %s)' % par(v0), 'str')
        # nested module path like stdnum.xx.yy.func is not used in the library
        v, t = self.expr(f.value)
        if t == 'str':
            return self.str_method(v, meth, e)
        if is_list(t) or is_tuple(t):
            lst, et = self.as_list(v, t)
            if meth == 'index' and len(args) == 1:
                a, at = self.expr(args[0])
                if unify(at, et) == 'any':
                    return ('(← (Py.raise .valueError : R Int))', 'int')
                return ('(← Py.indexL %s %s)' % (par(lst), par(self.coerce(a, at, et))), 'int')
            if meth == 'count' and len(args) == 1:
                a, at = self.expr(args[0])
                return ('((%s).count %s : Int)' % (par(lst), par(self.coerce(a, at, et))), 'int')
            raise Unsupported('list method ' + meth)
        if is_dict(t):
            k, vt = dict_parts(t)
            if meth == 'get':
                a, at = self.expr(args[0])
                if unify(at, k) == 'any':
                    raise Unsupported('dict.get key type')
                a = self.coerce(a, at, k)
                if len(args) == 2:
                    d, dt = self.expr(args[1])
                    u = unify(dt, vt)
                    if u == 'any':
                        raise Unsupported('dict.get default type %s vs %s' % (dt, vt))
                    if u == vt:
                        return ('(Py.dictGetD %s %s %s)' % (par(v), par(a), par(self.coerce(d, dt, vt))), vt)
                    if is_opt(u) and opt_inner(u) == vt and dt == 'none':
                        return ('(Py.dictGet? %s %s)' % (par(v), par(a)), u)
                    raise Unsupported('dict.get default widening')
                return ('(Py.dictGet? %s %s)' % (par(v), par(a)), t_opt(vt))
            if meth == 'items' and not args:
                return (v, t_list(t_tuple([k, vt])))
            if meth == 'keys' and not args:
                return ('((%s).map (·.1))' % par(v), t_list(k))
            if meth == 'values' and not args:
                return ('((%s).map (·.2))' % par(v), t_list(vt))
            raise Unsupported('dict method ' + meth)
        if t == 'opt[match]':
            # `None.group(...)` raises AttributeError in Python
            v, t = '(← Py.optGet %s)' % par(v), 'match'
        if t == 'match':
            if meth == 'group':
                return self.match_group(v, args, f.value)
            if meth == 'groups' and not args:
                return ('(%s).groups' % par(v), 'list[opt[str]]')
            if meth == 'groupdict' and not args:
                return ('(%s).groupdictD' % par(v), 'dict[str,str]')
            raise Unsupported('match method ' + meth)
        if t == 'regex':
            return self.regex_method(v, meth, e)
        if t == 'numdb':
            if meth in ('info', 'split') and len(args) == 1 and not e.keywords:
                a, at = self.expr(args[0])
                if at != 'str':
                    raise Unsupported('numdb.%s argument type %s' % (meth, at))
                if meth == 'info':
                    return ('(Spec.NumDB.info %s %s)' % (par(v), par(a)), 'list[tuple[str,dict[str,str]]]')
                return ('(Spec.NumDB.split %s %s)' % (par(v), par(a)), 'list[str]')
            raise Unsupported('numdb method ' + meth)
        if t == 'module':
            return self.m.dispatch_call(v, meth, e, self)
        if t == 'opt[module]':
            code, rt = self.m.dispatch_call('m__', meth, e, self)
            return ('(← (do match %s with | some m__ => pure %s | none => Py.raise .attributeError : R %s))' % (par(v), par(code), par(lean_type(rt))), rt)
        if t == 'stnrfmt':
            return self.stnrfmt_method(v, meth, e)
        if t == 'date':
            raise Unsupported('date method ' + meth)
        if t == 'int' and meth == 'bit_length' and not args:
            return ('(Py.intBitLength %s)' % par(v), 'int')
        raise Unsupported('method .%s on %s' % (meth, t))

    def stnrfmt_method(self, v, meth, e):
        """methods of stdnum.de.stnr._Format (see ModuleTranslator.ensure_stnr_format)"""
        owner = self.m.ctx.mods.get('stdnum.de.stnr')
        if owner is None:
            raise Unsupported('module stdnum.de.stnr not loaded')
        owner.ensure_stnr_format()
        if owner.name != self.m.name:
            self.fdeps.add(owner.name)
        if e.keywords:
            raise Unsupported('keywords in _Format method call')
        args = e.args
        self.last_pattern = None
        if meth == 'match' and len(args) == 1 and not isinstance(args[0], ast.Starred):
            a, at = self.expr(args[0])
            if at != 'str':
                raise Unsupported('_Format.match argument type ' + at)
            return ('(Re.match_ (← Gen.de_stnr._Format_re %s) %s)' % (par(v), par(a)), 'opt[match]')
        if meth == 'replace':
            if len(args) == 1 and isinstance(args[0], ast.Starred):
                a, at = self.expr(args[0].value)
                if at == 'list[str]':
                    a, at = '((%s).map some)' % par(a), 'list[opt[str]]'
                if at != 'list[opt[str]]':
                    raise Unsupported('_Format.replace star argument type ' + at)
                items = '(← Py.starArgs 4 %s)' % par(a)
            elif len(args) == 4 and not any(isinstance(x, ast.Starred) for x in args):
                vals = [self.expr(x) for x in args]
                for _, xt in vals:
                    if xt not in ('str', 'opt[str]'):
                        raise Unsupported('_Format.replace argument type ' + xt)
                items = '[' + ', '.join(self.coerce(x, xt, 'opt[str]') for x, xt in vals) + ']'
            else:
                raise Unsupported('_Format.replace arity')
            return ('(← Py.subRunsNext ([70, 66, 85, 80] : Str) %s %s)' % (par(v), items), 'str')
        raise Unsupported('_Format method ' + meth)

    def str_method(self, v, meth, e):
        args = [self.expr(a) for a in e.args]
        if e.keywords:
            raise Unsupported('keywords on str method')
        n = len(args)
        S = lambda i: par(self.coerce(args[i][0], args[i][1], 'str'))
        if meth in ('strip', 'lstrip', 'rstrip'):
            if n == 0:
                return ('(Py.%s %s)' % (meth, par(v)), 'str')
            if n == 1 and args[0][1] == 'str':
                return ('(Py.%sChars %s %s)' % (meth, par(v), S(0)), 'str')
        if meth in ('upper', 'lower') and n == 0:
            return ('(Py.%s %s)' % (meth, par(v)), 'str')
        if meth in ('isdigit', 'isalpha', 'isalnum', 'isspace', 'isupper', 'islower', 'isdecimal') and n == 0:
            return ('(Py.%s %s)' % (meth, par(v)), 'bool')
        if meth == 'isascii' and n == 0:
            return ('(Py.isasciiS %s)' % par(v), 'bool')
        if meth in ('startswith', 'endswith') and n == 1:
            a, at = args[0]
            if at == 'str':
                return ('(Py.%s %s %s)' % (meth, par(v), par(a)), 'bool')
            lst, et = self.as_list(a, at)
            if et == 'str':
                return ('(Py.%sAny %s %s)' % (meth, par(v), par(lst)), 'bool')
        if meth == 'zfill' and n == 1:
            return ('(Py.zfill %s %s)' % (par(v), par(self.coerce(args[0][0], args[0][1], 'int'))), 'str')
        if meth in ('rjust', 'ljust') and n in (1, 2):
            fill = S(1) if n == 2 else '[32]'
            return ('(Py.%s %s %s %s)' % (meth, par(v), par(args[0][0]), fill), 'str')
        if meth == 'join' and n == 1:
            lst, et = self.as_list(*args[0])
            if et == 'str':
                return ('(Py.join %s %s)' % (par(v), par(lst)), 'str')
            if et == 'opt[str]':
                return ('(Py.join %s (← (%s).mapM Py.optGetT))' % (par(v), par(lst)), 'str')
            raise Unsupported('join of ' + et)
        if meth == 'index' and n == 1 and args[0][1] == 'str':
            return ('(← Py.index %s %s)' % (par(v), S(0)), 'int')
        if meth == 'find' and n == 1 and args[0][1] == 'str':
            return ('(Py.find %s %s)' % (par(v), S(0)), 'int')
        if meth == 'count' and n == 1 and args[0][1] == 'str':
            return ('(Py.count %s %s)' % (par(v), S(0)), 'int')
        if meth == 'replace' and n == 2:
            return ('(Py.replace %s %s %s)' % (par(v), S(0), S(1)), 'str')
        if meth in ('split', 'rsplit'):
            if n == 1 and args[0][1] == 'str':
                return ('(← Py.%sOnR %s %s none)' % (meth, par(v), S(0)), 'list[str]')
            if n == 2 and args[0][1] == 'str' and args[1][1] == 'int':
                return ('(← Py.%sOnR %s %s (some (%s).toNat))' % (meth, par(v), S(0), args[1][0]), 'list[str]')
            if n == 0:
                return ('(Py.splitWs %s)' % par(v), 'list[str]')
        if meth == 'translate':
            raise Unsupported('str.translate')
        if meth == 'format':
            raise Unsupported('str.format')
        if meth == 'encode' or meth == 'decode':
            raise Unsupported('str.encode')
        raise Unsupported('str method .%s/%d' % (meth, n))

    def match_group(self, v, args, recv=None):
        pat = None
        if isinstance(recv, ast.Name):
            pat = self.match_pat.get(recv.id)
        if isinstance(pat, MultiPattern):
            return self.match_group_multi(v, args, pat.patterns)
        sure_idx, sure_names = mandatory_groups(pat) if pat is not None else (set(), set())
        if len(args) == 0:
            return ('(← (%s).groupR 0)' % par(v), 'str')
        if len(args) == 1:
            a = args[0]
            if isinstance(a, ast.Constant) and isinstance(a.value, int) and not isinstance(a.value, bool):
                if a.value == 0 or a.value in sure_idx:
                    return ('(← (%s).groupR %d)' % (par(v), a.value), 'str')
                if pat is not None and not (0 <= a.value <= pat.groups):
                    return ('(← (Py.raise .indexError : R Str))', 'str')
                return ('((%s).group %d)' % (par(v), a.value), 'opt[str]')
            if isinstance(a, ast.Constant) and isinstance(a.value, str):
                if a.value in sure_names:
                    return ('(← (%s).groupNamedR %s)' % (par(v), lit_str(a.value)), 'str')
                if pat is not None and a.value not in pat.groupindex:
                    return ('(← (Py.raise .indexError : R Str))', 'str')
                return ('((%s).groupNamed %s)' % (par(v), lit_str(a.value)), 'opt[str]')
        raise Unsupported('match.group form')

    def match_group_multi(self, v, args, pats):
        """m.group(k) where m comes from one of `pats`: a group is known to be set only if it is in all of them"""
        if len(args) == 0:
            return ('(← (%s).groupR 0)' % par(v), 'str')
        if len(args) == 1 and isinstance(args[0], ast.Constant):
            a = args[0].value
            sures = [mandatory_groups(p_) for p_ in pats]
            if isinstance(a, int) and not isinstance(a, bool):
                if a == 0 or all(a in si for si, _ in sures):
                    return ('(← (%s).groupR %d)' % (par(v), a), 'str')
                if all(0 <= a <= p_.groups for p_ in pats):
                    return ('((%s).group %d)' % (par(v), a), 'opt[str]')
            if isinstance(a, str):
                if all(a in sn for _, sn in sures):
                    return ('(← (%s).groupNamedR %s)' % (par(v), lit_str(a)), 'str')
                if all(a in p_.groupindex for p_ in pats):
                    return ('((%s).groupNamed %s)' % (par(v), lit_str(a)), 'opt[str]')
        raise Unsupported('match.group form (several patterns)')

    def regex_method(self, v, meth, e):
        recv = e.func.value
        self.last_pattern = None
        if isinstance(recv, ast.Name) and self.lookup(recv.id) is None:
            try:
                obj = self.m.resolve(recv.id)
                if isinstance(obj, re.Pattern):
                    self.last_pattern = obj
            except Unsupported:
                pass
        args = [self.expr(a) for a in e.args]
        if e.keywords:
            raise Unsupported('regex method keywords')
        if meth in ('match', 'search', 'fullmatch') and len(args) == 1 and args[0][1] == 'str':
            return ('(Re.%s %s %s)' % (meth + '_' if meth == 'match' else meth, par(v), par(args[0][0])), 'opt[match]')
        if meth == 'sub' and len(args) == 2 and args[0][1] == 'str' and args[1][1] == 'str':
            return ('(← Re.sub %s %s %s)' % (par(v), par(args[0][0]), par(args[1][0])), 'str')
        if meth == 'findall' and len(args) == 1:
            raise Unsupported('regex findall')
        raise Unsupported('regex method ' + meth)

    def call_stdlib(self, name, e):
        args = e.args
        if name in ('datetime.date', 'datetime.datetime.date') and len(args) == 3 and not e.keywords:
            y, mo, d = [self.expr_int(a) for a in args]
            return ('(← Py.mkDate %s %s %s)' % (y, mo, d), 'date')
        if name in ('datetime.date.today', 'datetime.datetime.now', 'datetime.datetime.today', 'datetime.now', 'datetime.today') and not args:
            self.uses_today = True
            return ('today__', 'date')
        if name == 'calendar.monthrange' and len(args) == 2:
            y, mo = [self.expr_int(a) for a in args]
            return ('((0 : Int), (← Py.monthrangeDays %s %s))' % (y, mo), 'tuple[int,int]')
        if name in ('re.match', 're.search', 're.fullmatch') and len(args) >= 2:
            return self.m.re_literal_call(name[3:], e, self)
        if name == 're.sub':
            return self.m.re_literal_call('sub', e, self)
        if name == 're.compile':
            raise Unsupported('re.compile inside function')
        raise Unsupported('stdlib call ' + name)

    # ------------------------------------------------------------------ statements
    def stmts(self, body, ind):
        out = []
        for st in body:
            out += self.stmt(st, ind)
        return out

    def stmt(self, st, ind):
        meth = getattr(self, 's_' + type(st).__name__, None)
        if meth is None:
            raise Unsupported('statement ' + type(st).__name__)
        return meth(st, ind)

    def s_Expr(self, st, ind):
        p = '  ' * ind
        if isinstance(st.value, ast.Constant):
            return []
        e = st.value
        if self.is_warn_call(e):
            # warnings.warn(<constants>): no effect on the result (the model assumes that no warning filter turns
            # DeprecationWarning into an exception, which is CPython's default)
            return []
        # list/dict mutation methods on local variables
        if isinstance(e, ast.Call) and isinstance(e.func, ast.Attribute) and isinstance(e.func.value, ast.Name) and self.lookup(e.func.value.id):
            name = e.func.value.id
            ln, t = self.lookup(name)
            meth = e.func.attr
            if meth in ('append', 'extend', 'update', 'add', 'insert') and (is_list(t) or is_dict(t)):
                return self.mutate(name, meth, e, ind)
        v, t = self.expr(e)
        return [p + 'let _ := %s' % v]

    def is_warn_call(self, e):
        import warnings
        if not (isinstance(e, ast.Call) and isinstance(e.func, ast.Attribute) and e.func.attr == 'warn'
                and isinstance(e.func.value, ast.Name) and self.lookup(e.func.value.id) is None):
            return False
        try:
            if self.m.resolve(e.func.value.id) is not warnings:
                return False
        except Unsupported:
            return False
        for a in list(e.args) + [k.value for k in e.keywords]:
            if isinstance(a, ast.Constant):
                continue
            if isinstance(a, ast.Name) and self.lookup(a.id) is None:
                try:
                    obj = self.m.resolve(a.id)
                except Unsupported:
                    obj = getattr(__import__('builtins'), a.id, None)
                if isinstance(obj, type) and issubclass(obj, Warning) and not issubclass(obj, (UserWarning,)) and \
                        issubclass(obj, (DeprecationWarning, PendingDeprecationWarning)):
                    continue
            return False
        return len(e.args) >= 2 or any(k.arg == 'category' for k in e.keywords)

    def mutate(self, name, meth, e, ind):
        p = '  ' * ind
        ln, t = self.lookup(name)
        if meth == 'append':
            a, at = self.expr(e.args[0])
            nt = unify(t, t_list(at))
            if nt == 'any':
                raise Unsupported('append type')
            self.note_assign(name, nt, ind)
            ln, t2 = self.lookup(name)
            return [p + '%s := %s ++ [%s]' % (ln, ln, self.coerce(a, at, elem(t2)) if elem(t2) != '?' else a)]
        if meth == 'extend':
            a, at = self.expr(e.args[0])
            lst, et = self.as_list(a, at)
            nt = unify(t, t_list(et))
            if nt == 'any':
                raise Unsupported('extend type')
            self.note_assign(name, nt, ind)
            ln, t2 = self.lookup(name)
            return [p + '%s := %s ++ %s' % (ln, ln, lst)]
        if meth == 'update' and len(e.args) == 1:
            a, at = self.expr(e.args[0])
            nt = unify(t, at)
            if nt == 'any' or not is_dict(nt):
                raise Unsupported('update type')
            self.note_assign(name, nt, ind)
            ln, t2 = self.lookup(name)
            return [p + '%s := Py.dictUpdate %s %s' % (ln, ln, par(self.coerce(a, at, t2)))]
        raise Unsupported('mutation ' + meth)

    def note_assign(self, name, t, ind):
        """record an assignment of type t to python variable `name`; returns lean name"""
        cur = self.lookup(name)
        if cur is None:
            ln = mangle(name) if name not in self.versions else '%s_%d' % (mangle(name), self.versions[name])
            self.versions.setdefault(name, 0)
            self.env[name] = (ln, t)
            self.var_decl[ln] = unify(self.var_decl.get(ln), t)
            return ln
        ln, ct = cur
        u = unify(self.var_decl.get(ln, ct), t)
        declared = self.var_decl.get(ln, ct)
        if is_opt(declared) and not is_opt(t) and t != 'none' and opt_inner(declared) == t and ind == 1 and not self.loop_depth \
                and ln in getattr(self, 'param_names', ()):
            # `x = x or DEFAULT` on an Optional parameter: from here on the variable is not None (new version)
            u = 'any'
        if u != 'any':
            self.var_decl[ln] = u
            self.env[name] = (ln, u if self.final is None else self.final.get(ln, u))
            return ln
        # incompatible type: a new variable version (only at the top level of the function body, or directly in
        # a branch of an if statement that is itself at such a level: see s_If for the join)
        if ind != self.block_ok or self.loop_depth:
            raise Unsupported('variable %s changes type (%s -> %s) inside a nested block' % (name, ct, t))
        if self.frames:
            self.frames[-1]['versioned'].setdefault(name, cur)
            for fr in reversed(self.frames):
                pln = fr['pending'].get(name)
                if pln is not None and pln != ln:
                    # the sibling branch already re-typed this variable: use the same Lean variable if the types agree
                    u = unify(self.var_decl.get(pln), t)
                    if u != 'any':
                        self.var_decl[pln] = u
                        self.env[name] = (pln, u if self.final is None else self.final.get(pln, u))
                        return pln
                    break
        self.versions[name] = self.versions.get(name, 0) + 1
        ln = '%s_%d' % (mangle(name), self.versions[name])
        self.env[name] = (ln, t)
        self.var_decl[ln] = t
        return ln

    def assign_to(self, target, v, t, ind):
        p = '  ' * ind
        if isinstance(target, ast.Name):
            ln = self.note_assign(target.id, t, ind)
            _, vt = self.lookup(target.id)
            dt = self.final.get(ln, vt) if self.final is not None else vt
            if self.final is not None:
                self.env[target.id] = (ln, dt)
            try:
                code = self.coerce(v, t, dt)
            except Unsupported:
                if self.final is None:
                    code = v
                else:
                    raise
            return [p + '%s := %s' % (ln, code)]
        if isinstance(target, (ast.Tuple, ast.List)):
            names = target.elts
            if is_tuple(t) and len(tuple_parts(t)) == len(names):
                parts = tuple_parts(t)
                tmps = [self.fresh('u') for _ in names]
                out = [p + 'match %s with' % par(v), p + '| (%s) =>' % ', '.join(tmps)]
                for el, tmp, pt in zip(names, tmps, parts):
                    out += self.assign_to(el, tmp, pt, ind + 1)
                return out
            if is_list(t) or is_tuple(t) or t == 'str':
                # (a str unpacks into its characters; any other length is a ValueError, as for lists)
                lst, et = self.as_list(v, t)
                tmps = [self.fresh('u') for _ in names]
                out = [p + 'match (%s : %s) with' % (lst, lean_type(t_list(et))), p + '| [%s] =>' % ', '.join(tmps)]
                for el, tmp in zip(names, tmps):
                    out += self.assign_to(el, tmp, et, ind + 1)
                out += [p + '| _ => Py.raise .valueError']
                return out
            raise Unsupported('unpack of ' + t)
        if isinstance(target, ast.Subscript) and isinstance(target.value, ast.Name) and self.lookup(target.value.id):
            name = target.value.id
            ln, dt = self.lookup(name)
            if is_dict(dt) or dt == 'dict[?,?]':
                kv, kt = self.expr(target.slice)
                nt = unify(dt, t_dict(kt, t))
                if nt == 'any':
                    raise Unsupported('dict store type')
                self.note_assign(name, nt, ind)
                ln, dt2 = self.lookup(name)
                k2, v2 = dict_parts(dt2)
                return [p + '%s := Py.dictSet %s %s %s' % (ln, ln, par(self.coerce(kv, kt, k2)), par(self.coerce(v, t, v2)))]
            if is_list(dt):
                idx = self.expr_int(target.slice)
                return [p + '%s := (← Py.listSet %s %s %s)' % (ln, ln, idx, par(self.coerce(v, t, elem(dt))))]
            raise Unsupported('subscript store on ' + dt)
        raise Unsupported('assignment target ' + type(target).__name__)

    def pop_pattern(self, st, ind):
        """`t = L.pop(i?)` / `t = L.pop(i?) if L else DEFAULT` on a local list L (i is 0 or absent)"""
        if len(st.targets) != 1 or not isinstance(st.targets[0], ast.Name):
            return None
        val = st.value
        default = None
        if isinstance(val, ast.IfExp):
            if not (isinstance(val.test, ast.Name) and isinstance(val.body, ast.Call)):
                return None
            call, guard, default = val.body, val.test.id, val.orelse
        else:
            call, guard = val, None
        if not (isinstance(call, ast.Call) and isinstance(call.func, ast.Attribute) and call.func.attr == 'pop'
                and isinstance(call.func.value, ast.Name) and not call.keywords):
            return None
        lname = call.func.value.id
        got = self.lookup(lname)
        if not got or not is_list(got[1]) or (guard is not None and guard != lname):
            return None
        if len(call.args) == 0:
            first = False
        elif len(call.args) == 1 and isinstance(call.args[0], ast.Constant) and call.args[0].value == 0:
            first = True
        else:
            return None
        ln, lt = got
        et = elem(lt)
        p = '  ' * ind
        h, tl = self.fresh('h'), self.fresh('t')
        out = []
        if first:
            out.append(p + 'match (%s : %s) with' % (ln, lean_type(lt)))
            out.append(p + '| %s :: %s =>' % (h, tl))
        else:
            out.append(p + 'match (%s : %s).reverse with' % (ln, lean_type(lt)))
            out.append(p + '| %s :: %s =>' % (h, tl))
        out += self.assign_to(st.targets[0], h, et, ind + 1)
        out.append(p + '  %s := %s' % (ln, tl if first else '(%s).reverse' % tl))
        out.append(p + '| [] =>')
        if default is not None:
            dv, dt = self.expr(default)
            out += self.assign_to(st.targets[0], dv, dt, ind + 1)
        else:
            out.append(p + '  Py.raise .indexError')
        return out

    def defaultdict_pattern(self, st, ind):
        """`name = defaultdict(int)`: an insertion-ordered dict whose only item accesses are `name[k] op= v`
        (checked here: every other use of the name must be `.values()/.items()/.keys()`, `len(name)` or
        `k in name`, none of which triggers `__missing__`), so the default never has to be materialised"""
        val = st.value
        if not (isinstance(val, ast.Call) and isinstance(val.func, ast.Name) and val.func.id == 'defaultdict'
                and self.lookup('defaultdict') is None and isinstance(st.targets[0], ast.Name)):
            return None
        import collections
        if self.m.resolve('defaultdict') is not collections.defaultdict:
            return None
        if val.keywords or len(val.args) != 1 or not (isinstance(val.args[0], ast.Name) and val.args[0].id == 'int'
                                                      and self.lookup('int') is None):
            raise Unsupported('defaultdict form')
        name = st.targets[0].id
        if ind != 1 or self.loop_depth:
            raise Unsupported('defaultdict created inside a nested block')
        parents = {}
        for node in ast.walk(self.fn):
            for ch in ast.iter_child_nodes(node):
                parents[ch] = node
        for node in ast.walk(self.fn):
            if isinstance(node, ast.Name) and node.id == name and node is not st.targets[0]:
                par_ = parents.get(node)
                gp = parents.get(par_)
                ok = False
                if isinstance(par_, ast.Subscript) and par_.value is node and isinstance(gp, ast.AugAssign) and gp.target is par_:
                    ok = True
                elif isinstance(par_, ast.Attribute) and par_.attr in ('values', 'items', 'keys') and isinstance(gp, ast.Call) \
                        and gp.func is par_ and not gp.args and not gp.keywords:
                    ok = True
                elif isinstance(par_, ast.Call) and isinstance(par_.func, ast.Name) and par_.func.id == 'len' and par_.args == [node]:
                    ok = True
                elif isinstance(par_, ast.Compare) and len(par_.ops) == 1 and isinstance(par_.ops[0], (ast.In, ast.NotIn)) \
                        and par_.comparators[0] is node:
                    ok = True
                if not ok:
                    raise Unsupported('use of defaultdict %s outside the modelled forms' % name)
        self.defaultdicts[name] = ('(0 : Int)', 'int')
        return self.assign_to(st.targets[0], '[]', 'dict[?,?]', ind)

    def s_Assign(self, st, ind):
        if len(st.targets) != 1:
            # a = b = value
            out = []
            first = st.targets[0]
            out += self.s_Assign(ast.Assign(targets=[first], value=st.value), ind)
            if not isinstance(first, ast.Name):
                # a[i] = b[j] = value: the value is evaluated once, then stored into the targets from left to right
                v, t = self.expr(st.value)
                tmp = self.fresh('ch')
                out = ['  ' * ind + 'let %s := %s' % (tmp, v)]
                for tg in st.targets:
                    out += self.assign_to(tg, tmp, t, ind)
                return out
            for t in st.targets[1:]:
                out += self.s_Assign(ast.Assign(targets=[t], value=ast.Name(id=first.id, ctx=ast.Load())), ind)
            return out
        if isinstance(st.value, ast.Lambda) and isinstance(st.targets[0], ast.Name):
            # local helper `f = lambda x: ...`: inlined at its call sites
            self.lambdas[st.targets[0].id] = st.value
            return []
        dd = self.defaultdict_pattern(st, ind)
        if dd is not None:
            return dd
        pp = self.pop_pattern(st, ind)
        if pp is not None:
            return pp
        self.last_pattern = None
        v, t = self.expr(st.value)
        if isinstance(st.targets[0], ast.Name) and t in ('match', 'opt[match]'):
            if self.last_pattern is not None:
                self.match_pat[st.targets[0].id] = self.last_pattern
            else:
                self.match_pat.pop(st.targets[0].id, None)
        return self.assign_to(st.targets[0], v, t, ind)

    def s_AugAssign(self, st, ind):
        tg = st.target
        if isinstance(tg, ast.Subscript) and isinstance(tg.value, ast.Name) and tg.value.id in self.defaultdicts \
                and self.lookup(tg.value.id) and not isinstance(tg.slice, ast.Slice):
            # d[k] op= v on a defaultdict: read (default when missing; a new key goes to the end), compute, store
            p = '  ' * ind
            name = tg.value.id
            dflt, dflt_t = self.defaultdicts[name]
            ln, dt = self.lookup(name)
            kv, kt = self.expr(tg.slice)
            ktmp, ctmp = self.fresh('k'), self.fresh('cur')
            saved = self.env.get(ctmp)
            self.env[ctmp] = (ctmp, dflt_t)
            rv, rt = self.expr(ast.BinOp(left=ast.Name(id=ctmp, ctx=ast.Load()), op=st.op, right=st.value))
            del self.env[ctmp]
            nt = unify(dt, t_dict(kt, unify(rt, dflt_t)))
            if nt == 'any' or not is_dict(nt):
                raise Unsupported('defaultdict item type')
            self.note_assign(name, nt, ind)
            ln, dt2 = self.lookup(name)
            k2, v2 = dict_parts(dt2)
            if self.final is not None and (k2 != kt or v2 != rt or v2 != dflt_t):
                raise Unsupported('defaultdict item type')
            return [p + 'let %s := %s' % (ktmp, kv),
                    p + 'let %s := Py.dictGetD %s %s %s' % (ctmp, ln, ktmp, dflt),
                    p + '%s := Py.dictSet %s %s %s' % (ln, ln, ktmp, par(rv))]
        if not isinstance(st.target, ast.Name):
            raise Unsupported('augmented assignment target')
        fake = ast.BinOp(left=ast.Name(id=st.target.id, ctx=ast.Load()), op=st.op, right=st.value)
        v, t = self.expr(fake)
        return self.assign_to(st.target, v, t, ind)

    def s_AnnAssign(self, st, ind):
        if st.value is None:
            return []
        v, t = self.expr(st.value)
        return self.assign_to(st.target, v, t, ind)

    def s_Raise(self, st, ind):
        p = '  ' * ind
        if st.exc is None:
            if getattr(self, 'handler_var', None):
                return [p + 'Py.raise %s' % self.handler_var]
            raise Unsupported('bare raise')
        exc = st.exc
        if isinstance(exc, ast.Call) and isinstance(exc.func, ast.Name) and exc.func.id in EXC:
            return [p + 'Py.raise %s' % EXC[exc.func.id]]
        if isinstance(exc, ast.Name) and exc.id in EXC:
            return [p + 'Py.raise %s' % EXC[exc.id]]
        raise Unsupported('raise expression')

    def s_Return(self, st, ind):
        p = '  ' * ind
        if st.value is None:
            v, t = '()', 'none'
        else:
            v, t = self.expr(st.value)
        self.ret_types.append(t)
        if self.final is not None:
            v = self.coerce(v, t, self.sig.rtype)
        return [p + 'return %s' % v]

    def s_If(self, st, ind):
        p = '  ' * ind
        fixed = getattr(self.sig, 'fixed', None) or {}
        if isinstance(st.test, ast.Name) and st.test.id in fixed and st.test.id not in assigned_names(self.fn):
            return self.stmts(st.body if fixed[st.test.id] else st.orelse, ind)
        t_ = st.test
        if (isinstance(t_, ast.Compare) and len(t_.ops) == 1 and isinstance(t_.ops[0], ast.NotIn) and isinstance(t_.left, ast.Constant)
                and t_.left.value is None and isinstance(t_.comparators[0], ast.Tuple)
                and all(isinstance(x, ast.Name) and self.lookup(x.id) and is_opt(self.lookup(x.id)[1]) for x in t_.comparators[0].elts)):
            names = [x.id for x in t_.comparators[0].elts]
            saved = dict(self.env)
            tmps = []
            for nm in names:
                ln, lt = self.lookup(nm)
                tmp = self.fresh('nn_' + nm)
                tmps.append((ln, tmp))
                self.env[nm] = (tmp, opt_inner(lt))
            out = [p + 'match %s with' % ', '.join(ln for ln, _ in tmps),
                   p + '| %s =>' % ', '.join('some %s' % tmp for _, tmp in tmps)]
            out += self.stmts(st.body, ind + 1) or [p + '  pure ()']
            self.env = saved
            out += [p + '| %s =>' % ', '.join('_' for _ in tmps)]
            out += (self.stmts(st.orelse, ind + 1) if st.orelse else []) or [p + '  pure ()']
            return out
        c, ct = self.expr(st.test)
        cond = self.truthy(c, ct)
        out = [p + 'if %s then' % cond]
        # A branch that sits directly in a block where variables may be re-typed may re-type them too.  Bindings are
        # branch-local: the else-branch starts from the bindings before the `if`; after the statement a re-typed
        # variable is usable only if every branch that can fall through left it in the same Lean variable.
        allow = ind == self.block_ok and not self.loop_depth
        body_lines, body_ver, body_end = self.run_branch(lambda: self.stmts(st.body, ind + 1), ind + 1, allow, {})
        out += body_lines or [p + '  pure ()']
        else_ver, else_end = {}, {}
        if st.orelse:
            pending = {n: b[0] for n, b in body_end.items()}
            if len(st.orelse) == 1 and isinstance(st.orelse[0], ast.If):
                sub, else_ver, else_end = self.run_branch(lambda: self.s_If(st.orelse[0], ind), ind, allow, pending)
                out += [p + 'else ' + sub[0].lstrip()] + sub[1:]
            else:
                else_lines, else_ver, else_end = self.run_branch(lambda: self.stmts(st.orelse, ind + 1), ind + 1, allow, pending)
                out += [p + 'else'] + (else_lines or [p + '  pure ()'])
        body_exits, else_exits = always_exits(st.body), bool(st.orelse) and always_exits(st.orelse)
        for name in list(body_ver) + [n for n in else_ver if n not in body_ver]:
            old = body_ver.get(name) or else_ver[name]
            b, e_ = body_end.get(name, old), else_end.get(name, old)
            if body_exits and else_exits:
                res = old
            elif body_exits:
                res = e_
            elif else_exits:
                res = b
            elif b[0] == e_[0] and unify(b[1], e_[1]) != 'any':
                res = (b[0], unify(b[1], e_[1]))
            else:
                raise Unsupported('variable %s has different types after the branches of an if statement' % name)
            self.env[name] = res
            if res[0] != old[0] and self.frames:
                self.frames[-1]['versioned'].setdefault(name, old)
        return out

    def run_branch(self, fn, level, allow, pending):
        """translate one branch of an if statement; returns (lines, {name: binding before the branch} for the
        variables the branch re-typed, {name: binding at the end of the branch}); the bindings before are restored"""
        if not allow:
            return fn(), {}, {}
        saved_ok = self.block_ok
        self.block_ok = level
        fr = {'versioned': {}, 'pending': pending}
        self.frames.append(fr)
        try:
            lines = fn()
        finally:
            self.frames.pop()
            self.block_ok = saved_ok
        ver = fr['versioned']
        end = {n: self.env[n] for n in ver}
        for n, old in ver.items():
            self.env[n] = old
        return lines, ver, end

    def s_For(self, st, ind):
        p = '  ' * ind
        if st.orelse:
            raise Unsupported('for/else')
        it, itt = self.expr(st.iter)
        lst, et = self.as_list(it, itt)
        saved = dict(self.env)
        pat = self.bind_pattern(st.target, et)
        lc = None
        if isinstance(st.iter, ast.Name) and isinstance(st.target, ast.Name) and self.lookup(st.iter.id) is None and et == 'str' \
                and st.target.id not in assigned_names(ast.Module(body=st.body, type_ignores=[])):
            try:
                vals = self.m.resolve(st.iter.id)
            except Unsupported:
                vals = None
            if isinstance(vals, (list, tuple)) and vals and all(isinstance(x, str) for x in vals):
                lc = st.target.id
                self.loop_consts[lc] = list(vals)
        self.loop_depth += 1
        body = self.stmts(st.body, ind + 1) or [p + '  pure ()']
        self.loop_depth -= 1
        if lc:
            self.loop_consts.pop(lc, None)
        # loop targets go out of scope in the model (python leaks them; not used by the library)
        for n in assigned_names(st.target):
            if n in saved:
                self.env[n] = saved[n]
            else:
                self.env.pop(n, None)
        return [p + 'for %s in %s do' % (pat, lst)] + body

    def s_While(self, st, ind):
        p = '  ' * ind
        if st.orelse:
            raise Unsupported('while/else')
        fuel = self.while_fuel(st)
        c, ct = self.expr(st.test)
        cond = self.truthy(c, ct)
        self.loop_depth += 1
        body = self.stmts(st.body, ind + 2)
        self.loop_depth -= 1
        c2, ct2 = self.expr(st.test)
        return [p + 'for _ in List.range %s do' % fuel,
                p + '  if !(%s) then break' % cond,
                p + '  else'] + body + [
                # never reached when the bound is right (see while_fuel); keeps a wrong bound from going unnoticed
                p + 'if %s then' % self.truthy(c2, ct2),
                p + '  Py.raise .other']

    def while_fuel(self, st):
        """an iteration bound (a Lean Nat term, evaluated once before the loop) for `while X > c: ...; X = X // d; ...`
        with constants c >= 0, d >= 2, where that division is an unconditional statement of the body and the only
        assignment to the int variable X, and the body has no `continue`.  Every iteration that completes at least
        halves X (and X > c >= 0 holds when it starts), so after bit_length(X) iterations X = 0 <= c: the loop runs at
        most bit_length(X at entry) times; it does not run at all when X <= 0."""
        t = st.test
        if not (isinstance(t, ast.Compare) and len(t.ops) == 1 and isinstance(t.left, ast.Name)
                and isinstance(t.comparators[0], ast.Constant) and type(t.comparators[0].value) is int):
            raise Unsupported('while loop')
        x, c = t.left.id, t.comparators[0].value
        if not (isinstance(t.ops[0], ast.Gt) and c >= 0 or isinstance(t.ops[0], ast.GtE) and c >= 1):
            raise Unsupported('while loop')
        got = self.lookup(x)
        if not got or got[1] != 'int':
            raise Unsupported('while loop')

        def is_div(stm):
            if isinstance(stm, ast.AugAssign):
                return (isinstance(stm.target, ast.Name) and stm.target.id == x and isinstance(stm.op, ast.FloorDiv)
                        and isinstance(stm.value, ast.Constant) and type(stm.value.value) is int and stm.value.value >= 2)
            if isinstance(stm, ast.Assign) and len(stm.targets) == 1:
                tg, v = stm.targets[0], stm.value
                return (isinstance(tg, ast.Name) and tg.id == x and isinstance(v, ast.BinOp) and isinstance(v.op, ast.FloorDiv)
                        and isinstance(v.left, ast.Name) and v.left.id == x
                        and isinstance(v.right, ast.Constant) and type(v.right.value) is int and v.right.value >= 2)
            return False
        stores = [n for b in st.body for n in ast.walk(b) if isinstance(n, ast.Name) and n.id == x and isinstance(n.ctx, ast.Store)]
        if len(stores) != 1 or sum(1 for b in st.body if is_div(b)) != 1:
            raise Unsupported('while loop')
        for b in st.body:
            for n in ast.walk(b):
                if isinstance(n, (ast.Continue, ast.While, ast.FunctionDef, ast.Lambda, ast.Global, ast.Nonlocal)):
                    raise Unsupported('while loop')
        return '(Py.natBitLength %s)' % got[0]

    def s_Break(self, st, ind):
        return ['  ' * ind + 'break']

    def s_Continue(self, st, ind):
        return ['  ' * ind + 'continue']

    def s_Pass(self, st, ind):
        return ['  ' * ind + 'pure ()']

    def s_Import(self, st, ind):
        return []

    def s_ImportFrom(self, st, ind):
        self.m.note_import(st)
        return []

    def s_Assert(self, st, ind):
        raise Unsupported('assert')

    def s_Try(self, st, ind):
        p = '  ' * ind
        if st.finalbody:
            raise Unsupported('try/finally')
        body = list(st.body)
        after = []
        if st.orelse:
            if not all(always_exits(h.body) for h in st.handlers):
                raise Unsupported('try/else with a handler that falls through')
            after = list(st.orelse)     # every handler leaves the function: the else-block simply follows
        out = [p + 'try'] + (self.stmts(body, ind + 1) or [p + '  pure ()'])
        out += [p + 'catch e__ =>']
        first = True
        saved_handler = getattr(self, 'handler_var', None)
        self.handler_var = 'e__'
        all_exits = True
        for h in st.handlers:
            if h.type is None:
                classes = ['.other']
            elif isinstance(h.type, ast.Name):
                if h.type.id not in EXC:
                    if h.type.id == 'ImportError':
                        continue
                    raise Unsupported('handler class ' + h.type.id)
                classes = [EXC[h.type.id]]
            elif isinstance(h.type, ast.Tuple):
                classes = []
                for c in h.type.elts:
                    if not isinstance(c, ast.Name) or c.id not in EXC:
                        raise Unsupported('handler class')
                    classes.append(EXC[c.id])
            else:
                raise Unsupported('handler class form')
            cond = ' || '.join('e__.caughtBy %s' % c for c in classes)
            out += [p + '  %s %s then' % ('if' if first else 'else if', cond)]
            out += self.stmts(h.body, ind + 2) or [p + '    pure ()']
            first = False
        self.handler_var = saved_handler
        if first:
            out += [p + '  Py.raise e__']
        else:
            out += [p + '  else', p + '    Py.raise e__']
        if after:
            out += self.stmts(after, ind)
        return out

    def s_With(self, st, ind):
        raise Unsupported('with statement')

    def s_FunctionDef(self, st, ind):
        raise Unsupported('nested function')

    def s_Global(self, st, ind):
        raise Unsupported('global statement')

    def s_Delete(self, st, ind):
        raise Unsupported('del')

    # ------------------------------------------------------------------ driver
    def run_pass(self):
        self.env = {}
        self.var_decl_pass = {}
        self.versions = {}
        self.ret_types = []
        self.lambda_ctr = 0
        self.loop_depth = 0
        self.block_ok = 1
        self.frames = []
        self._fmt_prelude = None
        store = assigned_names(self.fn)
        head = []
        for n, t in zip(self.sig.params, self.sig.ptypes):
            ln = mangle(n)
            self.env[n] = (ln, t)
            if n in store:
                head.append('  let mut %s := %s' % (ln, ln))
        self.param_names = {mangle(n) for n in self.sig.params}
        for n, val in (getattr(self.sig, 'fixed', None) or {}).items():
            self.env[n] = ('true' if val else 'false', 'bool')
        for g in self.m.cache_globals():
            # a module-level dict used as a cache: modelled as a local that starts empty (cold cache);
            # that warm and cold caches agree is property C13
            if any(isinstance(n, ast.Name) and n.id == g for n in ast.walk(self.fn)):
                ln = mangle(g)
                t0 = 'dict[?,?]' if self.final is None else self.final.get(ln, 'dict[?,?]')
                self.env[g] = (ln, t0)
                self.var_decl[ln] = unify(self.var_decl.get(ln), t0)
        body = self.stmts(self.fn.body, 1)
        return head, body

    def translate(self):
        # pass 1: discover variable and return types
        self.final = None
        self.var_decl = {}
        self.run_pass()
        falls = not always_exits(self.fn.body)
        rt = None
        for t in self.ret_types:
            rt = unify(rt, t)
        if falls:
            rt = unify(rt, 'none') if rt is not None else 'none'
        if rt is None:
            rt = 'none'   # only raises
            prof = self.m.ctx.profile.get('%s:%s' % (self.m.name, self.fn.name))
            if prof and prof.get('ret'):
                rt = prof['ret']
        if rt == 'any':
            raise Unsupported('return types do not unify: %s' % sorted(set(self.ret_types)))
        if 'list[?]' in rt or 'dict[?,?]' in rt:
            prof = self.m.ctx.profile.get('%s:%s' % (self.m.name, self.fn.name))
            if prof and prof.get('ret') and unify(rt, prof['ret']) != 'any':
                rt = unify(rt, prof['ret'])
        self.sig.rtype = rt
        decl1 = dict(self.var_decl)
        # pass 2: emit with final types
        self.final = {k: v for k, v in decl1.items()}
        self.var_decl = dict(decl1)
        head, body = self.run_pass()
        for ln, t in self.var_decl.items():
            if t != decl1.get(ln):
                raise Unsupported('unstable type for %s: %s vs %s' % (ln, decl1.get(ln), t))
        decls = []
        for ln, t in self.var_decl.items():
            if ln in self.param_names:
                continue
            decls.append('  let mut %s : %s := %s' % (ln, lean_type(t), default_value(t)))
        if falls:
            body.append('  return %s' % self.coerce('()', 'none', rt))
        params = []
        if self.sig.needs_today:
            params.append('(today__ : Date)')
        params += ['(%s : %s)' % (mangle(n), lean_type(t)) for n, t in zip(self.sig.params, self.sig.ptypes)]
        headline = 'def %s %s : R %s := do' % (mangle(self.sig.name), ' '.join(params), par(lean_type(rt)))
        if self.uses_today and not self.sig.needs_today:
            self.m.ctx.extra_today.add((self.sig.modname, self.sig.name))
            raise Unsupported('reads the clock but was not marked (retry)')
        return '\n'.join([headline] + head + decls + body)
