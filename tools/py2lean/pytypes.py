"""Type language of the translator (strings, hashable) and value -> type / value -> Lean literal."""
import datetime
import decimal
import re
import types as _types


class Unsupported(Exception):
    pass


def t_list(t):
    return 'list[%s]' % t


def t_opt(t):
    if t.startswith('opt[') or t == 'none':
        return t
    return 'opt[%s]' % t


def t_tuple(ts):
    return 'tuple[%s]' % ','.join(ts)


def t_dict(k, v):
    return 'dict[%s,%s]' % (k, v)


def split_args(inner):
    parts, depth, cur = [], 0, ''
    for ch in inner:
        if ch == '[':
            depth += 1
        if ch == ']':
            depth -= 1
        if ch == ',' and depth == 0:
            parts.append(cur)
            cur = ''
        else:
            cur += ch
    if cur or parts:
        parts.append(cur)
    return parts


def is_list(t):
    return t.startswith('list[')


def is_opt(t):
    return t.startswith('opt[')


def is_tuple(t):
    return t.startswith('tuple[')


def is_dict(t):
    return t.startswith('dict[')


def is_rec(t):
    return t.startswith('rec[')


def t_rec(fields):
    """a dict literal with constant string keys and values of different types: a record (keys in source order)"""
    return 'rec[%s]' % ','.join('%s=%s' % (k, t) for k, t in fields)


def rec_parts(t):
    return [tuple(x.split('=', 1)) for x in split_args(t[4:-1])]


def elem(t):
    return t[5:-1]


def opt_inner(t):
    return t[4:-1]


def tuple_parts(t):
    return split_args(t[6:-1])


def dict_parts(t):
    return split_args(t[5:-1])


def unify(a, b):
    """Least type covering both observations, or 'any'."""
    if a == b:
        return a
    if a is None:
        return b
    if b is None:
        return a
    if a == '?':
        return b
    if b == '?':
        return a
    if a == 'any' or b == 'any':
        return 'any'
    if {a, b} == {'int', 'bool'}:
        return 'int'
    if a == 'none':
        return t_opt(b)
    if b == 'none':
        return t_opt(a)
    if is_opt(a) and is_opt(b):
        u = unify(opt_inner(a), opt_inner(b))
        return 'any' if u == 'any' else t_opt(u)
    if is_opt(a):
        u = unify(opt_inner(a), b)
        return 'any' if u == 'any' else t_opt(u)
    if is_opt(b):
        return unify(b, a)
    if is_list(a) and is_list(b):
        u = unify(elem(a), elem(b))
        return 'any' if u == 'any' else t_list(u)
    if is_tuple(a) and is_tuple(b):
        pa, pb = tuple_parts(a), tuple_parts(b)
        if len(pa) == len(pb):
            us = [unify(x, y) for x, y in zip(pa, pb)]
            return 'any' if 'any' in us else t_tuple(us)
        # tuples of different lengths: a homogeneous sequence
        us = None
        for x in pa + pb:
            us = unify(us, x)
        return 'any' if us == 'any' else t_list(us)
    if is_tuple(a) and is_list(b):
        u = elem(b)
        for x in tuple_parts(a):
            u = unify(u, x)
        return 'any' if u == 'any' else t_list(u)
    if is_list(a) and is_tuple(b):
        return unify(b, a)
    if is_dict(a) and is_dict(b):
        (ka, va), (kb, vb) = dict_parts(a), dict_parts(b)
        k, v = unify(ka, kb), unify(va, vb)
        return 'any' if 'any' in (k, v) else t_dict(k, v)
    if {a, b} == {'date', 'datetime'}:
        return 'any'
    return 'any'


# instances of the few classes the library defines, modelled by the value of one identifying attribute:
# 'module.Class' -> (type name, attribute); the methods are modelled in translate.py (inst_method)
INSTANCE_TYPES = {'stdnum.de.stnr._Format': ('stnrfmt', '_fmt')}
_INSTANCE_ATTR = {t: a for t, a in INSTANCE_TYPES.values()}


def type_of_value(v, depth=0):
    if v is None:
        return 'none'
    q = '%s.%s' % (type(v).__module__, type(v).__qualname__)
    if q in INSTANCE_TYPES:
        return INSTANCE_TYPES[q][0]
    if isinstance(v, bool):
        return 'bool'
    if isinstance(v, int):
        return 'int'
    if isinstance(v, str):
        return 'str'
    if isinstance(v, datetime.datetime):
        return 'datetime'
    if isinstance(v, datetime.date):
        return 'date'
    if isinstance(v, decimal.Decimal):
        return 'decimal'
    if isinstance(v, re.Pattern):
        return 'regex'
    if isinstance(v, re.Match):
        return 'match'
    if isinstance(v, _types.ModuleType):
        return 'module'
    if isinstance(v, (_types.FunctionType, _types.BuiltinFunctionType, _types.MethodType)):
        return 'fn'
    if depth > 6:
        return 'any'
    if isinstance(v, (list, set, frozenset)):
        t = '?'
        for x in (sorted(v, key=repr) if isinstance(v, (set, frozenset)) else v):
            t = unify(t, type_of_value(x, depth + 1))
        if t == 'any' and isinstance(v, list) and 2 <= len(v) <= 4:
            # a short record-like list that mixes strings with modelled instances: typed like a tuple
            ts = [type_of_value(x, depth + 1) for x in v]
            if 'any' not in ts and any(x in _INSTANCE_ATTR for x in ts):
                return t_tuple(ts)
        return 'any' if t == 'any' else t_list(t)
    if isinstance(v, tuple):
        ts = [type_of_value(x, depth + 1) for x in v]
        if 'any' in ts:
            return 'any'
        if len(v) == 0:
            return 'list[?]'
        if len(set(ts)) == 1 and len(v) != 2:
            return t_list(ts[0])
        if len(v) > 4:
            t = '?'
            for x in ts:
                t = unify(t, x)
            return 'any' if t == 'any' else t_list(t)
        return t_tuple(ts)
    if isinstance(v, dict):
        k = vt = '?'
        for kk, vv in v.items():
            k = unify(k, type_of_value(kk, depth + 1))
            vt = unify(vt, type_of_value(vv, depth + 1))
        return 'any' if 'any' in (k, vt) else t_dict(k, vt)
    if type(v).__name__ == 'NumDB':
        return 'numdb'
    return 'any'


def par(s):
    s = s.strip()
    if not s:
        return s
    if ' ' not in s and not s.startswith('-'):
        return s
    if s[0] == '(' and _balanced(s):
        return s
    if s[0] == '[' and s[-1] == ']' and _balanced_sq(s):
        return s
    return '(' + s + ')'


def _balanced(s):
    depth = 0
    for i, ch in enumerate(s):
        if ch == '(':
            depth += 1
        elif ch == ')':
            depth -= 1
            if depth == 0 and i != len(s) - 1:
                return False
    return depth == 0


def _balanced_sq(s):
    depth = 0
    for i, ch in enumerate(s):
        if ch == '[':
            depth += 1
        elif ch == ']':
            depth -= 1
            if depth == 0 and i != len(s) - 1:
                return False
    return depth == 0


def lean_type(t):
    if t == 'str':
        return 'Str'
    if t == 'int':
        return 'Int'
    if t == 'bool':
        return 'Bool'
    if t == 'none':
        return 'Unit'
    if t == 'date':
        return 'Date'
    if t == 'match':
        return 'Re.Match'
    if t == 'regex':
        return 'Re.Pattern'
    if t == 'exc':
        return 'Exc'
    if t == 'module':
        return 'String'
    if t == 'numdb':
        return 'List Spec.NumDB.Entry'
    if t in _INSTANCE_ATTR:
        return 'Str'
    if is_list(t):
        if elem(t) == '?':
            raise Unsupported('list of unknown element type')
        return 'List ' + par(lean_type(elem(t)))
    if is_opt(t):
        return 'Option ' + par(lean_type(opt_inner(t)))
    if is_tuple(t):
        return '(' + ' × '.join(par(lean_type(p)) for p in tuple_parts(t)) + ')'
    if is_rec(t):
        return '(' + ' × '.join(par(lean_type(p)) for _, p in rec_parts(t)) + ')'
    if is_dict(t):
        k, v = dict_parts(t)
        return 'List (%s × %s)' % (par(lean_type(k)), par(lean_type(v)))
    raise Unsupported('type ' + t)


def default_value(t):
    if t == 'str':
        return '([] : Str)'
    if t == 'int':
        return '(0 : Int)'
    if t == 'bool':
        return 'false'
    if t == 'none':
        return '()'
    if t == 'date':
        return '(default : Date)'
    if t == 'match':
        return '(default : Re.Match)'
    if t == 'module':
        return '""'
    if t == 'numdb':
        return '([] : List Spec.NumDB.Entry)'
    if t in _INSTANCE_ATTR:
        return '([] : Str)'
    if is_list(t) or is_dict(t):
        return '([] : %s)' % lean_type(t)
    if is_opt(t):
        return '(none : %s)' % lean_type(t)
    if is_tuple(t):
        return '(' + ', '.join(default_value(p) for p in tuple_parts(t)) + ')'
    if is_rec(t):
        return '(' + ', '.join(default_value(p) for _, p in rec_parts(t)) + ')'
    raise Unsupported('default of ' + t)


def lit_str(s):
    return '[' + ', '.join(str(ord(c)) for c in s) + ']'


def lean_value(v, t):
    """Lean literal for Python value v at type t."""
    if t == 'str':
        if not isinstance(v, str):
            raise Unsupported('value/type mismatch str')
        return '(%s : Str)' % lit_str(v)
    if t == 'int':
        return '(%d : Int)' % int(v)
    if t == 'bool':
        return 'true' if v else 'false'
    if t == 'none':
        return '()'
    if t == 'date':
        return '(Date.mk %d %d %d)' % (v.year, v.month, v.day)
    if t == 'module':
        return '"%s"' % v.__name__
    if t in _INSTANCE_ATTR:
        a = getattr(v, _INSTANCE_ATTR[t])
        if not isinstance(a, str):
            raise Unsupported('instance attribute %s is not a str' % _INSTANCE_ATTR[t])
        return '(%s : Str)' % lit_str(a)
    if is_opt(t):
        if v is None:
            return '(none : %s)' % lean_type(t)
        return '(some %s)' % lean_value(v, opt_inner(t))
    if is_list(t):
        xs = list(v)
        if isinstance(v, (set, frozenset)):
            xs = sorted(xs, key=lambda x: (repr(type(x)), x))
        return '([' + ', '.join(lean_value(x, elem(t)) for x in xs) + '] : %s)' % lean_type(t)
    if is_tuple(t):
        ps = tuple_parts(t)
        if len(ps) != len(v):
            raise Unsupported('tuple arity')
        return '(' + ', '.join(lean_value(x, p) for x, p in zip(v, ps)) + ')'
    if is_dict(t):
        k, vt = dict_parts(t)
        return '([' + ', '.join('(%s, %s)' % (lean_value(a, k), lean_value(b, vt)) for a, b in v.items()) + '] : %s)' % lean_type(t)
    raise Unsupported('literal of type ' + t)
