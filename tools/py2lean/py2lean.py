#!/venv/bin/python
"""Regenerate the Lean model (lean/Gen/**) from /repo's current working tree.

usage: py2lean.py [--repo /repo] [--out /verif/lean] [--report FILE]
Writes files only when their content changed (keeps lake's incremental build effective).
"""
import argparse
import ast
import hashlib
import importlib
import inspect
import json
import os
import re
import sys
import types
import warnings

HERE = os.path.dirname(os.path.abspath(__file__))
sys.path.insert(0, HERE)

from pytypes import (  # noqa: E402
    Unsupported, dict_parts, elem, is_dict, is_list, is_opt, is_tuple, lean_type, lean_value, par,
    t_opt, type_of_value, unify)
from translate import EXC, Ctx, FuncSig, FuncTranslator, mangle  # noqa: E402


def ns_of(modname):
    return modname.replace('stdnum.', '', 1).replace('.', '_') if modname != 'stdnum' else 'stdnum'


SKIP_FUNCS = {
    # network / introspection / deprecated: not part of the modelled behaviour (DESIGN.md §2.2)
    'stdnum.util': {'to_unicode', 'get_number_modules', 'get_module_name', 'get_module_description',
                    'get_soap_client', '_get_zeep_soap_client', '_get_suds_soap_client',
                    '_get_pysimplesoap_soap_client', '_mk_char_map'},
}
SKIP_PREFIX = ('check_', '_convert_result')


def _iban_structures():
    import stdnum.numdb
    out = ['']
    def walk(prefixes):
        for e in prefixes:
            v = e[3].get('bban')
            if v is not None and v not in out:
                out.append(v)
            walk(e[4])
    walk(stdnum.numdb.get('iban').prefixes)
    return out


# functions that build a value the model cannot compute symbolically (a compiled pattern from a format string):
# tabulated by evaluating the real function on every argument that can reach it from the current data
TABULATED = {('stdnum.iban', '_struct_to_re'): _iban_structures}


def warm_variant(code, caches):
    """State-passing twin of a function that uses a module-level cache dictionary: `f__warm cache0 args` starts from
    an arbitrary cache content and returns the result together with the new content.  (`f` itself is the cold-cache
    function; Props/C13w proves that both give the same result for every cache content satisfying the invariant.)
    Produced textually from the emitted definition; only for the simple shape (one cache, single-line returns,
    no nested `do` blocks returning)."""
    if len(caches) != 1:
        return None
    c = caches[0]
    lines = code.split('\n')
    m = re.match(r'^def (\S+) (.*) : R (.+) := do$', lines[0])
    if not m:
        return None
    decl = [i for i, l in enumerate(lines) if re.match(r'^  let mut %s : (.+) := (.+)$' % re.escape(c), l)]
    if len(decl) != 1:
        return None
    ct = re.match(r'^  let mut %s : (.+?) := ' % re.escape(c), lines[decl[0]]).group(1)
    if any('(do' in l or 'try' in l.split() for l in lines[1:]):
        return None
    out = ['def %s__warm (cache0__ : %s) %s : R (%s × %s) := do' % (m.group(1), ct, m.group(2), m.group(3), ct)]
    for i, l in enumerate(lines[1:], 1):
        if i == decl[0]:
            out.append('  let mut %s : %s := cache0__' % (c, ct))
            continue
        r = re.match(r'^(\s*)return (.*)$', l)
        if r:
            out.append('%sreturn (%s, %s)' % (r.group(1), r.group(2), c))
        else:
            out.append(l)
    return '\n'.join(out)


class ModuleTranslator:
    def __init__(self, ctx, name):
        self.ctx = ctx
        self.name = name
        self.ns = ns_of(name)
        self.mod = importlib.import_module(name)
        self.src = open(self.mod.__file__).read()
        self.tree = ast.parse(self.src)
        self.funcs = {}              # name -> ast.FunctionDef (module level)
        for st in self.tree.body:
            if isinstance(st, ast.FunctionDef):
                self.funcs[st.name] = st
        self.imported_modules = {}   # local name -> module name
        for k, v in vars(self.mod).items():
            if isinstance(v, types.ModuleType) and v.__name__.startswith('stdnum'):
                self.imported_modules[k] = v.__name__
        self.local_imports = {}      # names imported inside functions: name -> object
        for node in ast.walk(self.tree):
            if isinstance(node, (ast.ImportFrom, ast.Import)):
                self.note_import(node)
        self.consts = {}             # name -> (lean def text)
        self.const_types = {}
        self.outputs = []            # lean text of functions, in dependency order
        self.disp_outputs = []       # functions that (transitively) dispatch to other modules: second file
        self.deps = set()
        self.disp_deps = set()
        self.report = {}
        self.in_progress = set()
        self.dispatchers = {}
        self.relit_names = {}

    # -------------------------------------------------------------- imports / globals
    def note_import(self, node):
        try:
            if isinstance(node, ast.ImportFrom) and node.module and node.level == 0:
                base = importlib.import_module(node.module)
                for a in node.names:
                    if a.name == '*':
                        continue
                    local = a.asname or a.name
                    try:
                        obj = getattr(base, a.name)
                    except AttributeError:
                        obj = importlib.import_module(node.module + '.' + a.name)
                    if isinstance(obj, types.ModuleType):
                        if obj.__name__.startswith('stdnum'):
                            self.imported_modules.setdefault(local, obj.__name__)
                    else:
                        self.local_imports.setdefault(local, obj)
        except Exception:
            pass

    def resolve(self, name):
        if hasattr(self.mod, name):
            return getattr(self.mod, name)
        if name in self.local_imports:
            return self.local_imports[name]
        raise Unsupported('unknown name ' + name)

    def const_ref(self, owner_mod, name, value, ft):
        """reference to a module-level constant of module `owner_mod`"""
        t = type_of_value(value)
        if t in ('any', 'module', 'fn') or '?' in t and t not in ('list[?]',):
            raise Unsupported('constant %s of type %s' % (name, t))
        if t == 'regex':
            return self.ctx.mods[owner_mod].regex_const(name, value), 'regex'
        if t == 'numdb':
            import stdnum.numdb
            for rname, obj in stdnum.numdb._open_databases.items():
                if obj is value:
                    return self.ctx.registry_ref(rname, ft), 'numdb'
            raise Unsupported('registry object %s of unknown origin' % name)
        if t in ('str', 'int', 'bool', 'none') and (not isinstance(value, str) or len(value) <= 40):
            return lean_value(value, t), t
        if t == 'list[?]':
            return '[]', t
        owner = self.ctx.mods[owner_mod]
        owner.ensure_const(name, value, t)
        if owner_mod != self.name:
            ft.fdeps.add(owner_mod)
        return 'Gen.%s.%s' % (owner.ns, mangle(name)), t

    def ensure_const(self, name, value, t):
        if name not in self.consts:
            self.consts[name] = 'def %s : %s := %s' % (mangle(name), lean_type(t), lean_value(value, t))
            self.const_types[name] = t

    def regex_const(self, name, value):
        """module-level compiled pattern -> a Lean constant built from CPython's own parse of the pattern"""
        import regex_ser
        key = 're:' + name
        if key not in self.consts:
            try:
                term = regex_ser.regex_to_lean(value.pattern, value.flags)
            except regex_ser.Unsupported as u:
                raise Unsupported('regex %s: %s' % (name, u))
            self.consts[key] = 'def %s : Re.Pattern := %s' % (mangle(name), term)
        return 'Gen.%s.%s' % (self.ns, mangle(name))

    def regex_literal(self, pattern, flags):
        import regex_ser
        key = 'relit:%s:%d' % (pattern, flags)
        if key not in self.consts:
            name = '_re_lit_%d' % sum(1 for k in self.consts if k.startswith('relit:'))
            try:
                term = regex_ser.regex_to_lean(pattern, flags)
            except regex_ser.Unsupported as u:
                raise Unsupported('regex literal: %s' % u)
            self.consts[key] = 'def %s : Re.Pattern := %s' % (name, term)
            self.relit_names[key] = name
        return 'Gen.%s.%s' % (self.ns, self.relit_names[key])

    def re_literal_call(self, kind, e, ft):
        """re.match('literal', s[, flags]) / re.search / re.fullmatch / re.sub('literal', 'template', s)"""
        args = list(e.args)
        flags = 0
        for kw in e.keywords:
            if kw.arg == 'flags':
                flags = self.const_int_expr(kw.value)
            else:
                raise Unsupported('re keyword ' + str(kw.arg))
        if args and isinstance(args[0], ast.Name) and args[0].id in getattr(ft, 'loop_consts', {}) \
                and kind in ('match', 'search', 'fullmatch'):
            return self.re_table_call(kind, e, ft, flags)
        if not args or not isinstance(args[0], ast.Constant) or not isinstance(args[0].value, str):
            raise Unsupported('re.%s with non-literal pattern' % kind)
        pat = args[0].value
        if kind in ('match', 'search', 'fullmatch'):
            if len(args) == 3:
                flags = self.const_int_expr(args[2])
            elif len(args) != 2:
                raise Unsupported('re.%s arity' % kind)
            v, t = ft.expr(args[1])
            if t != 'str':
                raise Unsupported('re.%s subject type %s' % (kind, t))
            try:
                ft.last_pattern = re.compile(pat, flags)
            except re.error:
                ft.last_pattern = None
            return ('(Re.%s %s %s)' % ('match_' if kind == 'match' else kind, self.regex_literal(pat, flags), par(v)), 'opt[match]')
        if kind == 'sub':
            if len(args) == 5:
                flags = self.const_int_expr(args[4])
            elif len(args) != 3:
                raise Unsupported('re.sub arity')
            r, rt = ft.expr(args[1])
            v, t = ft.expr(args[2])
            if rt != 'str' or t != 'str':
                raise Unsupported('re.sub argument types')
            return ('(← Re.sub %s %s %s)' % (self.regex_literal(pat, flags), par(r), par(v)), 'str')
        raise Unsupported('re.' + kind)

    def re_table_call(self, kind, e, ft, flags):
        """re.match(fmt, s[, flags]) where fmt is the variable of a loop over a module-level constant list of strings:
        the patterns are compiled here (all values of the list, with the flags of the call) into a table"""
        import regex_ser
        from pytypes import lit_str
        from translate import MultiPattern
        args = list(e.args)
        if len(args) == 3:
            flags = self.const_int_expr(args[2])
        elif len(args) != 2:
            raise Unsupported('re.%s arity' % kind)
        vals = ft.loop_consts[args[0].id]
        pv, pt = ft.expr(args[0])
        v, t = ft.expr(args[1])
        if t != 'str' or pt != 'str':
            raise Unsupported('re.%s subject type %s' % (kind, t))
        key = 'retab:%r:%d' % (tuple(vals), flags)
        if key not in self.consts:
            name = '_re_tab_%d' % sum(1 for k in self.consts if k.startswith('retab:'))
            try:
                rows = ['(%s, %s)' % (lit_str(x), regex_ser.regex_to_lean(x, flags)) for x in dict.fromkeys(vals)]
            except regex_ser.Unsupported as u:
                raise Unsupported('regex table: %s' % u)
            self.consts[key] = ('/-- the patterns of a constant list, compiled with the flags of the call site -/\n'
                                'def %s : List (Str × Re.Pattern) := [%s]' % (name, ',\n  '.join(rows)))
            self.relit_names[key] = name
        try:
            ft.last_pattern = MultiPattern([re.compile(x, flags) for x in vals])
        except re.error:
            raise Unsupported('regex table: invalid pattern')
        pat = ('(← (match Py.dictGet? Gen.%s.%s %s with | some p__ => pure p__ | none => Py.raise .other : R Re.Pattern))'
               % (self.ns, self.relit_names[key], par(pv)))
        return ('(Re.%s %s %s)' % ('match_' if kind == 'match' else kind, pat, par(v)), 'opt[match]')

    def const_int_expr(self, node):
        """evaluate a constant flags expression such as re.I | re.U"""
        try:
            return int(eval(compile(ast.Expression(body=node), '<flags>', 'eval'), {'re': re}))   # noqa: S307
        except Exception:
            raise Unsupported('non-constant regex flags')

    def owner_of_global(self, name):
        """module that defines the global `name` visible in this module (by identity search)"""
        return self.name

    def cache_globals(self):
        if not hasattr(self, '_cache_globals'):
            out = set()
            for fn in self.funcs.values():
                for node in ast.walk(fn):
                    if isinstance(node, ast.Subscript) and isinstance(node.ctx, ast.Store) and isinstance(node.value, ast.Name):
                        n = node.value.id
                        if isinstance(getattr(self.mod, n, None), dict) and n not in {a.arg for a in fn.args.args} and n not in assigned_names_of(fn):
                            out.add(n)
            self._cache_globals = out
        return self._cache_globals

    def dispatch_call(self, mcode, meth, e, ft):
        """call `meth` on a module-typed value: a generated local dispatch function over the module universe"""
        ft.sig.in_disp = True
        uni = self.module_universe()
        sigs = []
        for mn in uni:
            mod = sys.modules.get(mn) or importlib.import_module(mn)
            obj = getattr(mod, meth, None)
            if isinstance(obj, types.FunctionType):
                sig = self.ctx.sigs.get((obj.__module__, obj.__name__))
                if sig is None:
                    raise Unsupported('dispatch target %s.%s unmodelled' % (mn, meth))
                self.ctx.ensure_translated(sig)
                if not sig.ok:
                    raise Unsupported('dispatch target %s.%s not translated' % (mn, meth))
                sigs.append((mn, sig))
        if not sigs:
            raise Unsupported('no dispatch targets for .' + meth)
        # arguments as given at the call site (positional only; defaults filled per target)
        if e.keywords:
            raise Unsupported('keywords in dispatched call')
        given = [ft.expr(a) for a in e.args]
        rt = None
        for _, s_ in sigs:
            rt = unify(rt, s_.rtype)
        if rt == 'any':
            raise Unsupported('dispatch result types differ: %s' % sorted({s_.rtype for _, s_ in sigs}))
        key = (meth, tuple(t for _, t in given))
        if key not in self.dispatchers:
            name = 'dispatch_%s_%d' % (meth, len(self.dispatchers))
            params = ' '.join('(a%d : %s)' % (i, lean_type(t)) for i, (_, t) in enumerate(given))
            today = any(s.needs_today for _, s in sigs)
            lines = ['def %s %s(m : String) %s : R %s :=' % (name, '(today__ : Date) ' if today else '', params, par(lean_type(rt))), '  match m with']
            for mn, sig in sigs:
                args = []
                for i, (pname, pt) in enumerate(zip(sig.params, sig.ptypes)):
                    if i < len(given):
                        if given[i][1] != pt:
                            raise Unsupported('dispatch argument type %s vs %s' % (given[i][1], pt))
                        args.append('a%d' % i)
                    elif pname in sig.defaults:
                        args.append(par(lean_value(sig.defaults[pname], pt)))
                    else:
                        raise Unsupported('dispatch arity')
                if len(given) > len(sig.params):
                    raise Unsupported('dispatch arity')
                call = '%s%s %s' % (sig.lean_name, ' today__' if sig.needs_today else '', ' '.join(args))
                if sig.rtype != rt:
                    call = 'do let r__ ← %s; pure %s' % (call, par(ft.coerce('r__', sig.rtype, rt)))
                lines.append('  | "%s" => %s' % (mn, call))
                if sig.modname != self.name:
                    ft.fdeps.add(sig.modname)
                ft.sig.calls.add('%s:%s' % (sig.modname, sig.name))
            lines.append('  | _ => Py.raise .attributeError')
            self.dispatchers[key] = (name, today, '\n'.join(lines))
            self.disp_outputs.append('\n'.join(lines))
        name, today, _ = self.dispatchers[key]
        if today:
            ft.uses_today = True
        return ('(← Gen.%s.%s%s %s%s)' % (self.ns, name, ' today__' if today else '', par(mcode), ''.join(' ' + par(v) for v, _ in given)), rt)

    STNR_FORMAT_CLASS = '''
class _Format():

    def __init__(self, fmt):
        self._fmt = fmt
        self._re = re.compile('^%s$' % re.sub(
            r'([FBUP])\\1*',
            lambda x: r'(\\d{%d})' % len(x.group(0)), fmt))

    def match(self, number):
        return self._re.match(number)

    def replace(self, f, b, u, p):
        items = iter([f, b, u, p])
        return re.sub(r'([FBUP])\\1*', lambda x: next(items), self._fmt)
'''

    def ensure_stnr_format(self):
        """`stdnum.de.stnr._Format`: an instance is represented by its `_fmt` string.  `match` goes through a table
        `_fmt -> compiled pattern` read off the instances of the imported module (so `__init__` is taken by
        evaluation), `replace` is `Py.subRunsNext`; both are valid only for the class text above, which is compared
        with the class in the tree."""
        if 'cls:_Format' in self.consts:
            return
        import regex_ser
        from pytypes import lit_str
        node = next((st for st in self.tree.body if isinstance(st, ast.ClassDef) and st.name == '_Format'), None)
        want = ast.parse(self.STNR_FORMAT_CLASS).body[0]
        if node is None or ast.dump(node) != ast.dump(want) or self.name != 'stdnum.de.stnr':
            raise Unsupported('class _Format differs from the modelled one')
        cls = getattr(self.mod, '_Format')
        found = {}

        def walk(v, depth=0):
            if isinstance(v, cls):
                pat = (v._re.pattern, v._re.flags)
                if found.setdefault(v._fmt, pat) != pat:
                    raise Unsupported('_Format instances with equal _fmt and different patterns')
            elif depth < 6 and isinstance(v, (list, tuple, set, frozenset)):
                for x in v:
                    walk(x, depth + 1)
            elif depth < 6 and isinstance(v, dict):
                for x in v.values():
                    walk(x, depth + 1)
        for k, v in vars(self.mod).items():
            if not k.startswith('__'):
                walk(v)
        try:
            rows = ['(%s, %s)' % (lit_str(f), regex_ser.regex_to_lean(pt, fl)) for f, (pt, fl) in found.items()]
        except regex_ser.Unsupported as u:
            raise Unsupported('regex of _Format: %s' % u)
        self.consts['cls:_Format'] = (
            '/-- `_Format(fmt)._re` for every `_Format` instance of the module (evaluated) -/\n'
            'def _Format_table : List (Str × Re.Pattern) := [%s]\n\n'
            '/-- the compiled pattern of a `_Format` instance given by its `_fmt`; a value that is not in the table '
            'cannot arise (instances come from module constants only) and is outside the model (`.other`) -/\n'
            'def _Format_re (fmt : Str) : R Re.Pattern :=\n  match Py.dictGet? _Format_table fmt with\n'
            '  | some p => .ok p\n  | none => Py.raise .other' % ',\n  '.join(rows))

    def hasattr_call(self, e, ft):
        """hasattr(<module value>, 'literal'): evaluated on every module that can flow into module values of this file"""
        if e.keywords or len(e.args) != 2 or not (isinstance(e.args[1], ast.Constant) and isinstance(e.args[1].value, str)):
            raise Unsupported('hasattr form')
        v, t = ft.expr(e.args[0])
        if t != 'module':
            raise Unsupported('hasattr of ' + t)
        attr = e.args[1].value
        have = [mn for mn in self.module_universe() if hasattr(sys.modules.get(mn) or importlib.import_module(mn), attr)]
        return ('(([%s] : List String).contains %s)' % (', '.join('"%s"' % mn for mn in have), par(v)), 'bool')

    def module_universe(self):
        """all modules that can flow into module-typed values of this file"""
        if not hasattr(self, '_universe'):
            uni = []
            def add(v):
                if isinstance(v, types.ModuleType):
                    if v.__name__ not in uni:
                        uni.append(v.__name__)
                elif isinstance(v, (tuple, list, set, frozenset)):
                    for x in v:
                        add(x)
                elif isinstance(v, dict):
                    for x in v.values():
                        add(x)
            for k, v in vars(self.mod).items():
                if k.startswith('__'):
                    continue
                if isinstance(v, types.ModuleType):
                    # only modules that are used as values (not `from stdnum import luhn` + luhn.validate)
                    continue
                add(v)
            for node in ast.walk(self.tree):
                if isinstance(node, ast.Name) and isinstance(node.ctx, ast.Load):
                    v = getattr(self.mod, node.id, None)
                    if isinstance(v, types.ModuleType) and v.__name__.startswith('stdnum.') and not self._is_call_prefix(node):
                        add(v)
            # module values produced by functions of this file (e.g. `_get_cc_module(cc)`): evaluate the real
            # function on every candidate key; the translated function maps every other key to None as well
            # (its only source of modules is the tabulated util.get_cc_module), which the differential run checks
            import pkgutil
            import stdnum
            cands = [n for _l, n, _p in pkgutil.iter_modules(stdnum.__path__)] + ['el', 'xi', 'eu', 'im', 'gr', 'gb']
            cands = list(dict.fromkeys(cands + [c.upper() for c in cands]))
            direct_gcc = False
            for fname, fn in self.funcs.items():
                uses = [n for n in ast.walk(fn) if isinstance(n, ast.Call) and isinstance(n.func, ast.Name) and n.func.id == 'get_cc_module']
                if not uses:
                    continue
                obj = getattr(self.mod, fname, None)
                nargs = len(fn.args.args)
                if isinstance(obj, types.FunctionType) and nargs == 1:
                    saved = {k: dict(v) for k, v in vars(self.mod).items() if isinstance(v, dict) and k in self.cache_globals()}
                    for cc in cands:
                        try:
                            add(obj(cc))
                        except Exception:
                            pass
                    for k, v in saved.items():
                        getattr(self.mod, k).clear()
                        getattr(self.mod, k).update(v)
                else:
                    direct_gcc = True
            if direct_gcc:
                for node in ast.walk(self.tree):
                    if isinstance(node, ast.Call) and isinstance(node.func, ast.Name) and node.func.id == 'get_cc_module' and len(node.args) == 2 \
                            and isinstance(node.args[1], ast.Constant):
                        for cc, mn in self.ctx.cc_table(node.args[1].value):
                            if mn not in uni:
                                uni.append(mn)
            self._universe = uni
        return self._universe

    def _is_call_prefix(self, name_node):
        # `mod.func(...)` / `mod.CONST` uses of an imported module are not module *values*
        for node in ast.walk(self.tree):
            if isinstance(node, ast.Attribute) and node.value is name_node:
                return True
        return False

    def global_name(self, name, ft):
        obj = self.resolve(name)
        if isinstance(obj, types.ModuleType):
            return ('"%s"' % obj.__name__, 'module')
        if isinstance(obj, types.FunctionType):
            raise Unsupported('function value ' + name)
        if isinstance(obj, type):
            raise Unsupported('class value ' + name)
        # find which stdnum module owns this constant (for `from x import CONST`)
        owner = self.name
        if name not in self.assigned_globals():
            for node in ast.walk(self.tree):
                if isinstance(node, ast.ImportFrom) and node.module and node.module.startswith('stdnum'):
                    for a in node.names:
                        if (a.asname or a.name) == name and node.module in self.ctx.mods:
                            owner = node.module
        return self.const_ref(owner, name, obj, ft)

    def foreign_global(self, modname, attr, ft):
        mod = sys.modules[modname]
        obj = getattr(mod, attr)
        if modname not in self.ctx.mods:
            raise Unsupported('module %s not translated' % modname)
        return self.const_ref(modname, attr, obj, ft)

    def assigned_globals(self):
        if not hasattr(self, '_assigned'):
            s = set()
            for st in self.tree.body:
                if isinstance(st, (ast.Assign, ast.AnnAssign, ast.AugAssign)):
                    for n in ast.walk(st):
                        if isinstance(n, ast.Name) and isinstance(n.ctx, ast.Store):
                            s.add(n.id)
            self._assigned = s
        return self._assigned

    # -------------------------------------------------------------- calls
    def sig_of_function(self, obj):
        modname = obj.__module__
        key = (modname, obj.__name__)
        sig = self.ctx.sigs.get(key)
        if sig is None:
            raise Unsupported('call to unmodelled function %s.%s' % key)
        return sig

    def call_global(self, n, e, ft):
        obj = self.resolve(n)
        if isinstance(obj, types.FunctionType) and obj.__module__ == 'stdnum.util' and obj.__name__ == 'get_cc_module':
            if len(e.args) == 2 and isinstance(e.args[1], ast.Constant) and isinstance(e.args[1].value, str) and not e.keywords:
                v, t = ft.expr(e.args[0])
                if t != 'str':
                    raise Unsupported('get_cc_module argument type')
                self.ctx.cc_table(e.args[1].value)
                ft.fdeps.add('__ccmods__')
                return ('(Gen.ccmods.get_cc_module_%s %s)' % (e.args[1].value, par(v)), 'opt[module]')
            raise Unsupported('get_cc_module with non-literal name')
        if isinstance(obj, types.FunctionType):
            return self.user_call(self.sig_of_function(obj), e, ft)
        raise Unsupported('call of %s (%s)' % (n, type(obj).__name__))

    def call_module_func(self, target, meth, e, ft):
        if target == 'stdnum.numdb' and meth == 'get':
            if len(e.args) == 1 and isinstance(e.args[0], ast.Constant) and isinstance(e.args[0].value, str) and not e.keywords:
                return (self.ctx.registry_ref(e.args[0].value, ft), 'numdb')
            raise Unsupported('numdb.get with non-literal name')
        mod = sys.modules.get(target) or importlib.import_module(target)
        obj = getattr(mod, meth, None)
        if isinstance(obj, types.FunctionType):
            return self.user_call(self.sig_of_function(obj), e, ft)
        raise Unsupported('call of %s.%s' % (target, meth))

    def user_call(self, sig, e, ft):
        sig = self.ctx.maybe_specialize(sig, e)
        self.ctx.ensure_translated(sig)
        if not sig.ok:
            raise Unsupported('callee %s.%s not translated' % (sig.modname, sig.name))
        given = {}
        fixed = getattr(sig, 'fixed', None) or {}
        call_params = sig.params
        if fixed:
            base = self.ctx.sigs[(sig.modname, sig.base_name)]
            call_params = base.params
        if len(e.args) > len(call_params):
            raise Unsupported('too many arguments')
        for a, pname in zip(e.args, call_params):
            if isinstance(a, ast.Starred):
                raise Unsupported('star args')
            given[pname] = a
        for kw in e.keywords:
            if kw.arg is None or kw.arg not in call_params:
                raise Unsupported('keyword argument ' + str(kw.arg))
            given[kw.arg] = kw.value
        args = []
        for pname, pt in zip(sig.params, sig.ptypes):
            if pname in given:
                v, t = ft.expr(given[pname])
                args.append(par(ft.coerce(v, t, pt)))
            elif pname in sig.defaults:
                args.append(par(lean_value(sig.defaults[pname], pt)))
            else:
                raise Unsupported('missing argument ' + pname)
        if sig.modname != self.name:
            ft.fdeps.add(sig.modname)
        if sig.in_disp and sig.modname == self.name:
            ft.sig.in_disp = True
        ft.sig.calls.add('%s:%s' % (sig.modname, sig.name))
        today = ''
        if sig.needs_today:
            ft.uses_today = True
            today = ' today__'
        return ('(← %s%s%s)' % (sig.lean_name, today, ''.join(' ' + a for a in args)), sig.rtype)

    def while_fuel(self, fname, st, ft):
        raise Unsupported('while loop')

    # -------------------------------------------------------------- functions
    def translate_tabulated(self, sig, cands):
        import regex_ser
        from pytypes import lit_str
        obj = getattr(self.mod, sig.name)
        rows = []
        for c in cands():
            r = obj(c)
            if not isinstance(r, re.Pattern):
                raise Unsupported('tabulated function returned %s' % type(r).__name__)
            rows.append('(%s, %s)' % (lit_str(c), regex_ser.regex_to_lean(r.pattern, r.flags)))
        nm = mangle(sig.name)
        code = ('def %s_table : List (Str × Re.Pattern) := [%s]\n\n'
                '/-- tabulated: the real function evaluated on every argument the current registry can supply;\n'
                'any other argument is outside the model (`.other`) -/\n'
                'def %s (%s : Str) : R Re.Pattern := do\n  match Py.dictGet? %s_table %s with\n  | some p => return p\n  | none => Py.raise .other'
                % (nm, ',\n  '.join(rows), nm, mangle(sig.params[0]), nm, mangle(sig.params[0])))
        sig.rtype = 'regex'
        sig.ok = True
        sig.done = True
        self.outputs.append(code)
        self.report[sig.name] = 'ok (tabulated)'

    def translate_function(self, sig):
        if (self.name, sig.name) in TABULATED and not getattr(sig, 'fixed', None):
            try:
                return self.translate_tabulated(sig, TABULATED[(self.name, sig.name)])
            except Unsupported as u:
                sig.ok = False
                sig.rtype = None
                sig.reason = str(u)
                sig.done = True
                return
        fn = self.funcs[sig.base_name if hasattr(sig, 'base_name') else sig.name]
        key = sig.name
        if key in self.in_progress:
            raise Unsupported('recursive function ' + key)
        self.in_progress.add(key)
        try:
            ft = FuncTranslator(self, fn, sig)
            code = ft.translate()
            warm = warm_variant(code, [mangle(g) for g in self.cache_globals()
                                       if any(isinstance(n, ast.Name) and n.id == g for n in ast.walk(fn))])
            if warm:
                code = code + '\n\n' + warm
                g = [g for g in self.cache_globals() if any(isinstance(n, ast.Name) and n.id == g for n in ast.walk(fn))][0]
                if not hasattr(self.ctx, 'warm'):
                    self.ctx.warm = {}
                self.ctx.warm['%s:%s' % (self.name, sig.name)] = {
                    'lean': sig.lean_name + '__warm', 'cache': g, 'cache_type': ft.var_decl[mangle(g)],
                    'ptypes': list(sig.ptypes), 'rtype': sig.rtype, 'today': bool(sig.needs_today), 'ns': self.ns}
            sig.ok = True
            if sig.in_disp:
                self.disp_outputs.append(code)
                self.disp_deps |= ft.fdeps
            else:
                self.outputs.append(code)
                self.deps |= ft.fdeps
            self.report[sig.name] = 'ok'
        except Unsupported as u:
            sig.ok = False
            sig.rtype = None
            sig.reason = str(u)
            self.report[sig.name] = 'UNSUPPORTED: %s' % u
        except RecursionError:
            raise
        except Exception as ex:   # translator bug: report, never crash the run
            sig.ok = False
            sig.rtype = None
            sig.reason = 'internal: %r' % ex
            self.report[sig.name] = 'ERROR: %r' % ex
        finally:
            self.in_progress.discard(key)
            sig.done = True

    def _import_name(self, d):
        if d == '__ccmods__':
            return 'ccmods'
        if d.startswith('__db__'):
            return 'db_' + d[6:].replace('/', '_')
        other = self.ctx.mods[d]
        # a module inside the dispatch closure of `other` may only use other's base file (no import cycle)
        if other.disp_outputs and self.name in other.disp_closure():
            return other.ns + '__b'
        return other.ns

    def disp_closure(self):
        seen, st = set(), [d for d in self.disp_deps if d in self.ctx.mods]
        while st:
            d = st.pop()
            if d in seen:
                continue
            seen.add(d)
            o = self.ctx.mods[d]
            st += [x for x in (o.deps | o.disp_deps) if x in self.ctx.mods]
        return seen

    def emit(self):
        """{file name: text}"""
        def head(imports, extra=''):
            h = 'import PyRt\n' + extra + ''.join('import Gen.%s\n' % i for i in sorted(set(imports)))
            return h + 'open Py\nset_option linter.unusedVariables false\nnamespace Gen.%s\n\n' % self.ns
        tail = '\n\nend Gen.%s\n' % self.ns
        base_imports = [self._import_name(d) for d in self.deps if d != self.name]
        base_body = '\n\n'.join(list(self.consts.values()) + self.outputs)
        if not self.disp_outputs:
            return {self.ns + '.lean': head(base_imports) + base_body + tail}
        disp_imports = [self._import_name(d) for d in self.disp_deps if d != self.name]
        return {self.ns + '__b.lean': head(base_imports) + base_body + tail,
                self.ns + '.lean': head(disp_imports, 'import Gen.%s__b\n' % self.ns) + '\n\n'.join(self.disp_outputs) + tail}


def assigned_names_of(fn):
    out = set()
    for n in ast.walk(fn):
        if isinstance(n, ast.Name) and isinstance(n.ctx, ast.Store):
            out.add(n.id)
    return out


class Context(Ctx):
    def __init__(self, profile):
        super().__init__(profile)
        self.cc_tables = {}
        self.extra_today = set()
        self.registries = {}

    def cc_table(self, attr):
        """[(package name, module name)] for which util.get_cc_module(package, attr) is a module (evaluated)"""
        if attr not in self.cc_tables:
            import pkgutil
            import stdnum
            from stdnum.util import get_cc_module
            rows = []
            for _l, name, _ispkg in pkgutil.iter_modules(stdnum.__path__):
                try:
                    r = get_cc_module(name, attr)
                except Exception:
                    r = None
                if isinstance(r, types.ModuleType):
                    rows.append((name, r.__name__))
            self.cc_tables[attr] = rows
        return self.cc_tables[attr]

    def _cur_ft_deps(self, ft):
        return ft.fdeps

    def registry_ref(self, rname, mt):
        """Lean constant holding the parsed registry `rname` (tree produced by the real reader on the current file)"""
        if rname not in self.registries:
            import stdnum.numdb
            db = stdnum.numdb.get(rname)
            n = sum(1 for _ in self._walk_entries(db.prefixes))
            if n > 12000:
                raise Unsupported('registry %s too large to embed (%d entries)' % (rname, n))
            self.registries[rname] = db.prefixes
        self._cur_ft_deps(mt).add('__db__' + rname)
        return 'Gen.db_%s.db' % rname.replace('/', '_')

    def _walk_entries(self, prefixes):
        for e in prefixes:
            yield e
            for c in self._walk_entries(e[4]):
                yield c

    def emit_registry(self, rname):
        """{file name: text}: the registry as the raw text of the current .dat file, parsed by the Lean model of
        the numdb reader (Spec.NumDB.readText; its agreement with the Python reader on every shipped file is
        part of the C10 correspondence run)"""
        import stdnum
        path = os.path.join(os.path.dirname(stdnum.__file__), rname + '.dat')
        text = open(path, encoding='utf-8').read()
        lit = text.replace('\\', '\\\\').replace('"', '\\"').replace('\n', '\\n').replace('\r', '\\r').replace('\t', '\\t')
        ns = 'db_' + rname.replace('/', '_')
        out = ['import PyRt', 'import Spec.NumDB', 'namespace Gen.%s' % ns, '',
               '/-- the current text of `stdnum/%s.dat` -/' % rname,
               'def text : String := "%s"' % lit, '',
               '/-- the registry tree: the model reader applied to the file text -/',
               'def db : List Spec.NumDB.Entry := Spec.NumDB.dbOfText (Py.ofString text)', '', 'end Gen.%s' % ns]
        return {'%s.lean' % ns: '\n'.join(out) + '\n'}

    def emit_ccmods(self):
        lines = ['import PyRt', 'open Py', 'namespace Gen.ccmods', '',
                 '/-- `stdnum.util.get_cc_module(cc, name)` tabulated by evaluating it on every sub-package of the',
                 'current tree (module values are represented by their names) -/',
                 'def norm (cc : Str) : Str :=',
                 '  let cc := Py.lower cc',
                 '  if cc == Py.ofString "in" || cc == Py.ofString "is" || cc == Py.ofString "if" then cc ++ [95] else cc', '']
        for attr, rows in sorted(self.cc_tables.items()):
            lines.append('def table_%s : List (Str × String) := [%s]' % (attr, ', '.join('(%s, "%s")' % ('[' + ', '.join(str(ord(c)) for c in cc) + ']', mn) for cc, mn in rows)))
            lines.append('def get_cc_module_%s (cc : Str) : Option String := Py.dictGet? table_%s (norm cc)' % (attr, attr))
            lines.append('')
        lines.append('end Gen.ccmods')
        return '\n'.join(lines) + '\n'

    def add_module(self, name):
        try:
            mt = ModuleTranslator(self, name)
        except Exception as ex:
            print('cannot load %s: %r' % (name, ex), file=sys.stderr)
            return
        self.mods[name] = mt
        for fname, fn in mt.funcs.items():
            if fname in SKIP_FUNCS.get(name, ()) or fname.startswith(SKIP_PREFIX):
                continue
            a = fn.args
            if a.vararg or a.kwarg or a.posonlyargs:
                continue
            params = [x.arg for x in a.args] + [x.arg for x in a.kwonlyargs]
            obj = getattr(mt.mod, fname, None)
            defaults = {}
            if isinstance(obj, types.FunctionType):
                try:
                    for p in inspect.signature(obj).parameters.values():
                        if p.default is not p.empty:
                            defaults[p.name] = p.default
                except (TypeError, ValueError):
                    pass
            prof = self.profile.get('%s:%s' % (name, fname), {}).get('params', {})
            ptypes = []
            for p in params:
                t = prof.get(p)
                if p in defaults:
                    dt = type_of_value(defaults[p])
                    t = unify(t, dt) if t else dt
                    if dt == 'none' and t == 'none':
                        t = 'opt[str]'
                if t is None or t == 'any' or '?' in t:
                    t = 'str'
                ptypes.append(t)
            sig = FuncSig(name, fname, params, ptypes, defaults, None, False, 'Gen.%s.%s' % (mt.ns, mangle(fname)))
            sig.done = False
            sig.guessed = {p for p in params if p in defaults and defaults[p] is None and prof.get(p) in (None, 'none')}
            self.sigs[(name, fname)] = sig
        # a None-default parameter that was never observed: take the type of the same-named parameter of a
        # sibling function (it is typically passed straight through)
        sibs = [s_ for (m_, _f), s_ in self.sigs.items() if m_ == name]
        for s_ in sibs:
            for i, p in enumerate(s_.params):
                if p in getattr(s_, 'guessed', ()):
                    for o in sibs:
                        if o is not s_ and p in o.params and p not in getattr(o, 'guessed', ()):
                            s_.ptypes[i] = t_opt(o.ptypes[o.params.index(p)])
                            break

    def compute_today(self):
        direct = set()
        edges = {}
        for (modname, fname), sig in self.sigs.items():
            mt = self.mods[modname]
            fn = mt.funcs[fname]
            callees = set()
            for node in ast.walk(fn):
                if isinstance(node, ast.Call):
                    f = node.func
                    if isinstance(f, ast.Attribute) and f.attr in ('today', 'now'):
                        direct.add((modname, fname))
                    obj = None
                    try:
                        if isinstance(f, ast.Name):
                            obj = mt.resolve(f.id)
                        elif isinstance(f, ast.Attribute) and isinstance(f.value, ast.Name) and f.value.id in mt.imported_modules:
                            obj = getattr(sys.modules[mt.imported_modules[f.value.id]], f.attr, None)
                    except Unsupported:
                        obj = None
                    if isinstance(obj, types.FunctionType):
                        callees.add((obj.__module__, obj.__name__))
            edges[(modname, fname)] = callees
        need = set(direct) | set(getattr(self, 'forced_today', ()))
        changed = True
        while changed:
            changed = False
            for k, cs in edges.items():
                if k not in need and cs & need:
                    need.add(k)
                    changed = True
        for k in need:
            if k in self.sigs:
                self.sigs[k].needs_today = True

    def maybe_specialize(self, sig, e):
        """`f(x, flag=False)` where `if flag:` guards a block that dispatches to other modules: use a copy of f
        specialised to that constant (the dead block is dropped), so that modules inside the dispatch closure
        can call it without an import cycle (iban.validate(number, check_country=False) from es.iban etc.)"""
        if getattr(sig, 'fixed', None):
            return sig
        mt = self.mods[sig.modname]
        fn = mt.funcs.get(sig.name)
        if fn is None:
            return sig
        given = {}
        for a, pname in zip(e.args, sig.params):
            given[pname] = a
        for kw in e.keywords:
            if kw.arg:
                given[kw.arg] = kw.value
        for pname, a in given.items():
            if pname in sig.params and isinstance(a, ast.Constant) and isinstance(a.value, bool):
                guarded = [n for n in ast.walk(fn) if isinstance(n, ast.If) and isinstance(n.test, ast.Name) and n.test.id == pname]
                if any(isinstance(x, ast.Name) and x.id == '_get_cc_module' for g in guarded for x in ast.walk(g)):
                    key = (sig.modname, '%s__%s_%s' % (sig.name, pname, a.value))
                    if key not in self.sigs:
                        i = sig.params.index(pname)
                        sp = FuncSig(sig.modname, key[1], sig.params[:i] + sig.params[i + 1:], sig.ptypes[:i] + sig.ptypes[i + 1:],
                                     {k: v for k, v in sig.defaults.items() if k != pname}, None, sig.needs_today,
                                     'Gen.%s.%s' % (mt.ns, mangle(key[1])))
                        sp.done = False
                        sp.fixed = {pname: a.value}
                        sp.base_name = sig.name
                        self.sigs[key] = sp
                    return self.sigs[key]
        return sig

    def ensure_translated(self, sig):
        if not sig.done:
            self.mods[sig.modname].translate_function(sig)

    def run(self):
        self.compute_today()
        # functions that test `hasattr(module, name)` go last: their dispatch functions are then numbered after the
        # ones of the other functions of the file (generated names are referred to by proofs and must stay stable)
        def late(key):
            fn = self.mods[key[0]].funcs.get(key[1])
            return fn is not None and any(isinstance(n, ast.Call) and isinstance(n.func, ast.Name) and n.func.id == 'hasattr'
                                          for n in ast.walk(fn))
        keys = sorted(self.sigs)
        for key in [k for k in keys if not late(k)] + [k for k in keys if late(k)]:
            self.ensure_translated(self.sigs[key])


def write_if_changed(path, text):
    try:
        if open(path).read() == text:
            return False
    except FileNotFoundError:
        pass
    os.makedirs(os.path.dirname(path), exist_ok=True)
    with open(path, 'w') as f:
        f.write(text)
    return True


def module_names(repo):
    from stdnum.util import get_number_modules
    names = ['stdnum.util', 'stdnum.numdb']
    for m in get_number_modules():
        if m.__name__ not in names:
            names.append(m.__name__)
    return names


def main():
    ap = argparse.ArgumentParser()
    ap.add_argument('--repo', default='/repo')
    ap.add_argument('--out', default=os.path.join(os.path.dirname(os.path.dirname(HERE)), 'lean'))
    ap.add_argument('--report', default=None)
    ap.add_argument('--quiet', action='store_true')
    args = ap.parse_args()
    sys.path.insert(0, args.repo)
    warnings.simplefilter('ignore')
    sys.setrecursionlimit(10000)
    names = module_names(args.repo)
    import profile_types
    sys.path.insert(0, os.path.dirname(HERE))
    import common
    os.makedirs(common.WORK, exist_ok=True)
    pcache = os.path.join(common.WORK, 'profile-%s.json' % common.tree_hash()[:16])
    if os.path.exists(pcache):
        profile = json.load(open(pcache))
    else:
        profile = profile_types.collect(names, repo=args.repo)
        for old in os.listdir(common.WORK):
            if old.startswith('profile-'):
                os.remove(os.path.join(common.WORK, old))
        json.dump(profile, open(pcache, 'w'))
    extra = set()
    for _attempt in range(4):
        ctx = Context(profile)
        ctx.forced_today = set(extra)
        for n in names:
            ctx.add_module(n)
        ctx.run()
        if ctx.extra_today <= extra:
            break
        extra |= ctx.extra_today
    gen_dir = os.path.join(args.out, 'Gen')
    written = 0
    keep = set()
    for name, mt in ctx.mods.items():
        for fname, text in mt.emit().items():
            path = os.path.join(gen_dir, fname)
            keep.add(os.path.abspath(path))
            written += write_if_changed(path, text)
    ccpath = os.path.join(gen_dir, 'ccmods.lean')
    keep.add(os.path.abspath(ccpath))
    written += write_if_changed(ccpath, ctx.emit_ccmods())
    for rname in sorted(ctx.registries):
        for fname, text in ctx.emit_registry(rname).items():
            rp = os.path.join(gen_dir, fname)
            keep.add(os.path.abspath(rp))
            written += write_if_changed(rp, text)
    root = 'import Gen.ccmods\n' + ''.join('import Gen.db_%s\n' % r.replace('/', '_') for r in sorted(ctx.registries)) + ''.join('import Gen.%s\n' % ctx.mods[n].ns for n in ctx.mods)
    written += write_if_changed(os.path.join(args.out, 'Gen.lean'), root)
    if os.path.isdir(gen_dir):
        for fn in os.listdir(gen_dir):
            p = os.path.abspath(os.path.join(gen_dir, fn))
            if fn.endswith('.lean') and p not in keep:
                os.remove(p)
    manifest = {'modules': {}, 'functions': {}}
    stats = {'ok': 0, 'fail': 0}
    reasons = {}
    for (modname, fname), sig in sorted(ctx.sigs.items()):
        manifest['functions']['%s:%s' % (modname, fname)] = {
            'ok': sig.ok, 'lean': sig.lean_name, 'params': sig.params, 'ptypes': sig.ptypes,
            'defaults': {k: repr(v) for k, v in sig.defaults.items()},
            'rtype': sig.rtype, 'today': sig.needs_today, 'reason': sig.reason, 'calls': sorted(sig.calls)}
        stats['ok' if sig.ok else 'fail'] += 1
        if not sig.ok:
            r = re.sub(r'[A-Za-z_.]*\d*__\d+', 'X', sig.reason or '')[:70]
            reasons[r] = reasons.get(r, 0) + 1
    for name, mt in ctx.mods.items():
        manifest['modules'][name] = {'ns': mt.ns, 'deps': sorted(mt.deps)}
    write_if_changed(os.path.join(gen_dir, 'manifest.json'), json.dumps(manifest, indent=0, sort_keys=True))
    write_if_changed(os.path.join(gen_dir, 'warm.json'), json.dumps(getattr(ctx, 'warm', {}), indent=0, sort_keys=True))
    if not args.quiet:
        full = [n for n in ctx.mods if all(ctx.sigs.get((n, f)) and ctx.sigs[(n, f)].ok for f in ('validate', 'compact') if f in ctx.mods[n].funcs)]
        print('functions: %(ok)d translated, %(fail)d unmodelled' % stats, '| files written:', written,
              '| modules with validate+compact:', len(full), 'of', len(ctx.mods))
        for r, c in sorted(reasons.items(), key=lambda kv: -kv[1])[:45]:
            print('  %4d  %s' % (c, r))
    if args.report:
        json.dump({'stats': stats, 'reasons': reasons}, open(args.report, 'w'), indent=1)


if __name__ == '__main__':
    main()
