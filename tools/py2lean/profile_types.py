"""Observe argument and return types of stdnum functions while running the docstring doctests.

The result is only a *hint* for the translator's typing (wrong hints make the generated Lean fail to
type-check or the differential run disagree; they cannot make a theorem true).
"""
import doctest
import importlib
import io
import os
import sys
import warnings

from pytypes import type_of_value, unify


def collect(modnames, repo='/repo', extra_doctests=False):
    prefix = os.path.join(repo, 'stdnum') + os.sep
    seen = {}   # (filename, qualname) -> {'params': {name: type}, 'ret': type or None}

    def key_of(code):
        return (code.co_filename, code.co_qualname)

    def on_call(frame, event, arg):
        if event != 'call':
            return
        code = frame.f_code
        if not code.co_filename.startswith(prefix):
            return
        rec = seen.setdefault(key_of(code), {'params': {}, 'ret': None})
        nargs = code.co_argcount + code.co_kwonlyargcount
        for name in code.co_varnames[:nargs]:
            if name in frame.f_locals:
                rec['params'][name] = unify(rec['params'].get(name), type_of_value(frame.f_locals[name]))

    mon = sys.monitoring
    tool = mon.PROFILER_ID
    try:
        mon.use_tool_id(tool, 'py2lean')
    except ValueError:
        mon.free_tool_id(tool)
        mon.use_tool_id(tool, 'py2lean')

    def on_return(code, offset, retval):
        if code.co_filename.startswith(prefix):
            if code.co_flags & 0x20:   # generator
                return
            rec = seen.setdefault(key_of(code), {'params': {}, 'ret': None})
            rec['ret'] = unify(rec['ret'], type_of_value(retval))

    mon.register_callback(tool, mon.events.PY_RETURN, on_return)
    mon.set_events(tool, mon.events.PY_RETURN)
    warnings.simplefilter('ignore')
    finder = doctest.DocTestFinder(exclude_empty=True)
    old_stdout = sys.stdout
    sys.setprofile(on_call)
    try:
        for name in modnames:
            try:
                mod = importlib.import_module(name)
            except Exception:
                continue
            runner = doctest.DocTestRunner(verbose=False, optionflags=doctest.ELLIPSIS | doctest.NORMALIZE_WHITESPACE)
            for test in finder.find(mod, name):
                sink = io.StringIO()
                try:
                    runner.run(test, out=sink.write, clear_globs=True)
                except Exception:
                    pass
        if extra_doctests:
            tests_dir = os.path.join(repo, 'tests')
            for fn in sorted(os.listdir(tests_dir)):
                if fn.endswith('.doctest'):
                    try:
                        doctest.testfile(os.path.join(tests_dir, fn), module_relative=False, report=False,
                                         optionflags=doctest.ELLIPSIS | doctest.NORMALIZE_WHITESPACE)
                    except Exception:
                        pass
    finally:
        sys.setprofile(None)
        mon.set_events(tool, 0)
        mon.free_tool_id(tool)
        sys.stdout = old_stdout
    out = {}
    for (filename, qualname), rec in seen.items():
        rel = filename[len(prefix):]
        modname = 'stdnum.' + rel[:-3].replace(os.sep, '.')
        if modname.endswith('.__init__'):
            modname = modname[:-9]
        out['%s:%s' % (modname, qualname)] = rec
    return out


if __name__ == '__main__':
    import json
    sys.path.insert(0, '/repo')
    from stdnum.util import get_number_modules
    names = ['stdnum.util', 'stdnum.numdb'] + [m.__name__ for m in get_number_modules()]
    res = collect(names)
    json.dump(res, sys.stdout, indent=0, sort_keys=True)
