"""Generate the native model driver's dispatch tables from Gen/manifest.json.

Driver/D_<ns>.lean  : per module `handle (fn : String) (args : List Json) : Option String`
Driver/Dispatch.lean: `dispatch (target : String) (args : List Json) : String`, target = "<module>:<function>"
Functions whose parameter or result types cannot be put on the wire are listed in the manifest as not driven.
"""
import json
import os
import sys

HERE = os.path.dirname(os.path.abspath(__file__))
sys.path.insert(0, HERE)
from pytypes import Unsupported, dict_parts, elem, is_dict, is_list, is_opt, is_tuple, opt_inner, tuple_parts  # noqa: E402
from pytypes import is_rec, lit_str, rec_parts  # noqa: E402


def codec(t, kind):
    """Lean term of type Enc T / Dec T"""
    p = 'Wire.' + kind
    if t == 'str':
        return p + 'Str'
    if t == 'int':
        return p + 'Int'
    if t == 'bool':
        return p + 'Bool'
    if t == 'none':
        return p + 'Unit'
    if t == 'date':
        return p + 'Date'
    if t == 'module':
        return p + 'Module'
    if is_opt(t):
        return '(%sOpt %s)' % (p, codec(opt_inner(t), kind))
    if is_list(t):
        if elem(t) == '?':
            raise Unsupported('list[?]')
        return '(%sList %s)' % (p, codec(elem(t), kind))
    if is_dict(t):
        k, v = dict_parts(t)
        return '(%sDict %s %s)' % (p, codec(k, kind), codec(v, kind))
    if is_tuple(t):
        ps = tuple_parts(t)
        if 2 <= len(ps) <= 4:
            return '(%sT%d %s)' % (p, len(ps), ' '.join(codec(x, kind) for x in ps))
    if is_rec(t) and kind == 'enc':
        # a record goes on the wire like the dict it models: {"d": [[key, value], ...]} in key order
        fields = rec_parts(t)
        names = ['f%d__' % i for i in range(len(fields))]
        pairs = ', '.join('Json.arr #[Wire.encStr (%s : Str), %s %s]' % (lit_str(k), codec(ft, 'enc'), n)
                          for (k, ft), n in zip(fields, names))
        return '(fun r__ => match r__ with | (%s) => Json.mkObj [("d", Json.arr #[%s])])' % (', '.join(names), pairs)
    raise Unsupported('no codec for ' + t)


def write_if_changed(path, text):
    try:
        if open(path).read() == text:
            return False
    except FileNotFoundError:
        pass
    os.makedirs(os.path.dirname(path), exist_ok=True)
    with open(path, 'w') as f:
        f.write(text)
    return True


def main(lean_dir):
    man = json.load(open(os.path.join(lean_dir, 'Gen', 'manifest.json')))
    by_mod = {}
    driven = {}
    for key, f in sorted(man['functions'].items()):
        modname, fname = key.split(':')
        if not f['ok']:
            continue
        try:
            decs = [codec(t, 'dec') for t in f['ptypes']]
            enc = codec(f['rtype'], 'enc')
        except Unsupported as u:
            driven[key] = 'not driven: %s' % u
            continue
        names = ['x%d' % i for i in range(len(decs))]
        pats = list(names)
        binds = ''.join('let %s ← %s a%d; ' % (n, d, i) for i, (n, d) in enumerate(zip(names, decs)))
        apats = ['a%d' % i for i in range(len(decs))]
        if f['today']:
            apats = ['t'] + apats
            binds = 'let today__ ← Wire.decDate t; ' + binds
        call = f['lean'] + (' today__' if f['today'] else '') + ''.join(' ' + n for n in names)
        line = '  | "%s" => match args with\n    | [%s] => (do %spure (Wire.respondWith %s (%s)) : Option String).getD "badargs"\n    | _ => "badargs"' % (
            fname, ', '.join(apats), binds, enc, call)
        by_mod.setdefault(modname, []).append(line)
        driven[key] = 'driven'
    # state-passing twins of the functions that use a module-level cache (Gen/warm.json): `<fn>__warm`
    try:
        warm = json.load(open(os.path.join(lean_dir, 'Gen', 'warm.json')))
    except (OSError, ValueError):
        warm = {}
    for key, w in sorted(warm.items()):
        modname, fname = key.split(':')
        if w.get('today') or modname not in by_mod:
            continue
        try:
            decs = [codec(w['cache_type'], 'dec')] + [codec(t, 'dec') for t in w['ptypes']]
            enc = '(Wire.encT2 %s %s)' % (codec(w['rtype'], 'enc'), codec(w['cache_type'], 'enc'))
        except Unsupported:
            continue
        names = ['x%d' % i for i in range(len(decs))]
        binds = ''.join('let %s ← %s a%d; ' % (n, d, i) for i, (n, d) in enumerate(zip(names, decs)))
        by_mod[modname].append('  | "%s__warm" => match args with\n    | [%s] => (do %spure (Wire.respondWith %s (%s)) : Option String).getD "badargs"\n    | _ => "badargs"' % (
            fname, ', '.join('a%d' % i for i in range(len(decs))), binds, enc, w['lean'] + ''.join(' ' + n for n in names)))
        driven[key + '__warm'] = 'driven-warm'
    keep = set()
    for modname, lines in by_mod.items():
        ns = man['modules'][modname]['ns']
        text = ('import PyRt\nimport Gen.%s\nopen Py Lean\nnamespace Driver.D_%s\n'
                'def handle (fn : String) (args : List Json) : String :=\n  match fn with\n%s\n  | _ => "nofunc"\n'
                'end Driver.D_%s\n') % (ns, ns, '\n'.join(lines), ns)
        path = os.path.join(lean_dir, 'Driver', 'D_%s.lean' % ns)
        keep.add(os.path.abspath(path))
        write_if_changed(path, text)
    for fn in os.listdir(os.path.join(lean_dir, 'Driver')):
        p = os.path.abspath(os.path.join(lean_dir, 'Driver', fn))
        if fn.startswith('D_') and fn.endswith('.lean') and p not in keep:
            os.remove(p)
    mods = sorted(by_mod)
    text = ''.join('import Driver.D_%s\n' % man['modules'][m]['ns'] for m in mods)
    text += 'open Lean\nnamespace Driver\ndef dispatchGen (modname fn : String) (args : List Json) : String :=\n  match modname with\n'
    for m in mods:
        text += '  | "%s" => D_%s.handle fn args\n' % (m, man['modules'][m]['ns'])
    text += '  | _ => "nofunc"\nend Driver\n'
    write_if_changed(os.path.join(lean_dir, 'Driver', 'Dispatch.lean'), text)
    write_if_changed(os.path.join(lean_dir, 'Gen', 'driven.json'), json.dumps(driven, indent=0, sort_keys=True))
    return driven


if __name__ == '__main__':
    d = main(sys.argv[1] if len(sys.argv) > 1 else os.path.join(os.path.dirname(os.path.dirname(HERE)), 'lean'))
    print(sum(1 for v in d.values() if v == 'driven'), 'driven;', sum(1 for v in d.values() if v != 'driven'), 'not driven')
