"""Serialise CPython's own parse of a regular expression as a Lean term of type `Py.Re.Pattern`
(see lean/PyRt/Regex.lean) or as JSON (for the differential-test driver lean/Driver/Regex.lean).

    regex_to_lean(pattern, flags)  -> str     Lean term
    regex_to_json(pattern, flags)  -> object  JSON-able value understood by Driver.Regex
    regex_tree(pattern, flags)     -> (tree, flagdict, ngroups, names)   the intermediate form
    template_to_lean(repl, pattern, flags) -> str   Lean term of type `Py.Re.Template`

Nothing is re-implemented here: `re._parser.parse(pattern, flags)` does the parsing, this module only
walks the resulting opcode tree.  Anything outside the supported subset raises `Unsupported`.

Intermediate tree (nested tuples):
    ('empty',) ('fail',) ('lit', c) ('notLit', c) ('any',)
    ('cls', neg, [item...])   item = ('chr', c) | ('range', lo, hi) | ('cat', name)
    ('seq', a, b) ('alt', a, b) ('rep', greedy, min, max|None, r) ('group', idx, r)
    ('withFlags', flagdict, r) ('anchor', name) ('backref', idx) ('look', neg, r)
"""
import re
import re._constants as C
import re._parser as P


class Unsupported(Exception):
    pass


_CATS = {
    C.CATEGORY_DIGIT: 'digit', C.CATEGORY_NOT_DIGIT: 'notDigit',
    C.CATEGORY_SPACE: 'space', C.CATEGORY_NOT_SPACE: 'notSpace',
    C.CATEGORY_WORD: 'word', C.CATEGORY_NOT_WORD: 'notWord',
}
_ATS = {
    C.AT_BEGINNING: 'bol', C.AT_BEGINNING_STRING: 'bos',
    C.AT_END: 'eol', C.AT_END_STRING: 'eos',
    C.AT_BOUNDARY: 'wordB', C.AT_NON_BOUNDARY: 'notWordB',
}
_MATCH_FLAGS = C.SRE_FLAG_IGNORECASE | C.SRE_FLAG_MULTILINE | C.SRE_FLAG_DOTALL | C.SRE_FLAG_ASCII
_TYPE_FLAGS = P.TYPE_FLAGS


def _flagdict(flags):
    if flags & C.SRE_FLAG_LOCALE:
        raise Unsupported('LOCALE flag')
    return {
        'ignorecase': bool(flags & C.SRE_FLAG_IGNORECASE),
        'multiline': bool(flags & C.SRE_FLAG_MULTILINE),
        'dotall': bool(flags & C.SRE_FLAG_DOTALL),
        'ascii': bool(flags & C.SRE_FLAG_ASCII),
    }


def _combine_flags(flags, add_flags, del_flags):
    # same as re._compiler._combine_flags
    if add_flags & _TYPE_FLAGS:
        flags &= ~_TYPE_FLAGS
    return (flags | add_flags) & ~del_flags


def _seq(items):
    if not items:
        return ('empty',)
    out = items[-1]
    for it in reversed(items[:-1]):
        out = ('seq', it, out)
    return out


def _alt(items):
    out = items[-1]
    for it in reversed(items[:-1]):
        out = ('alt', it, out)
    return out


def _set_item(op, av):
    if op is C.LITERAL:
        return ('chr', av)
    if op is C.RANGE:
        return ('range', av[0], av[1])
    if op is C.CATEGORY:
        if av not in _CATS:
            raise Unsupported('category %s' % av)
        return ('cat', _CATS[av])
    raise Unsupported('set item %s' % op)


def _walk(sub, flags):
    return _seq([_node(op, av, flags) for op, av in sub])


def _node(op, av, flags):
    if op is C.LITERAL:
        return ('lit', av)
    if op is C.NOT_LITERAL:
        return ('notLit', av)
    if op is C.ANY:
        return ('any',)
    if op is C.IN:
        items = list(av)
        neg = False
        if items and items[0][0] is C.NEGATE:
            neg = True
            items = items[1:]
        return ('cls', neg, [_set_item(o, a) for o, a in items])
    if op is C.BRANCH:
        return _alt([_walk(alt, flags) for alt in av[1]])
    if op is C.SUBPATTERN:
        group, add_flags, del_flags, p = av
        inner_flags = _combine_flags(flags, add_flags, del_flags)
        r = _walk(p, inner_flags)
        if (inner_flags ^ flags) & (_MATCH_FLAGS | C.SRE_FLAG_LOCALE):
            r = ('withFlags', _flagdict(inner_flags), r)
        if group is not None:
            r = ('group', group, r)
        return r
    if op is C.MAX_REPEAT or op is C.MIN_REPEAT:
        lo, hi, p = av
        return ('rep', op is C.MAX_REPEAT, int(lo), None if hi is C.MAXREPEAT else int(hi), _walk(p, flags))
    if op is C.AT:
        if av not in _ATS:
            raise Unsupported('AT %s' % av)
        return ('anchor', _ATS[av])
    if op is C.GROUPREF:
        return ('backref', av)
    if op is C.ASSERT or op is C.ASSERT_NOT:
        direction, p = av
        if direction < 0:
            raise Unsupported('look-behind')
        return ('look', op is C.ASSERT_NOT, _walk(p, flags))
    if op is C.FAILURE:
        return ('fail',)
    raise Unsupported('regex construct %s' % op)


def regex_tree(pattern, flags=0):
    """(tree, flagdict, ngroups, [(name, index)...]) for a `str` pattern"""
    if isinstance(pattern, re.Pattern):
        pattern, flags = pattern.pattern, pattern.flags
    if not isinstance(pattern, str):
        raise Unsupported('bytes pattern')
    flags = int(flags)
    p = P.parse(pattern, flags)
    final = p.state.flags
    tree = _walk(p, final)
    names = sorted(p.state.groupdict.items(), key=lambda kv: kv[1])
    return tree, _flagdict(final), p.state.groups - 1, names


# ---------------------------------------------------------------------------- Lean output

def _lean_bool(b):
    return 'true' if b else 'false'


def _lean_flags(fd):
    on = [k for k in ('ignorecase', 'multiline', 'dotall', 'ascii') if fd[k]]
    return '{' + ', '.join('%s := true' % k for k in on) + '}' if on else '{}'


def _lean_str(s):
    return '[' + ', '.join(str(ord(c)) for c in s) + ']'


def _lean_item(it):
    if it[0] == 'chr':
        return '.chr %d' % it[1]
    if it[0] == 'range':
        return '.range %d %d' % (it[1], it[2])
    return '.cat .%s' % it[1]


def _lean(t):
    k = t[0]
    if k in ('empty', 'fail', 'any'):
        return '.' + k
    if k in ('lit', 'notLit', 'backref'):
        return '(.%s %d)' % (k, t[1])
    if k == 'cls':
        return '(.cls %s [%s])' % (_lean_bool(t[1]), ', '.join(_lean_item(i) for i in t[2]))
    if k in ('seq', 'alt'):
        return '(.%s %s %s)' % (k, _lean(t[1]), _lean(t[2]))
    if k == 'rep':
        mx = 'none' if t[3] is None else '(some %d)' % t[3]
        return '(.rep %s %d %s %s)' % (_lean_bool(t[1]), t[2], mx, _lean(t[4]))
    if k == 'group':
        return '(.group %d %s)' % (t[1], _lean(t[2]))
    if k == 'withFlags':
        return '(.withFlags %s %s)' % (_lean_flags(t[1]), _lean(t[2]))
    if k == 'anchor':
        return '(.anchor .%s)' % t[1]
    if k == 'look':
        return '(.look %s %s)' % (_lean_bool(t[1]), _lean(t[2]))
    raise AssertionError(k)


def regex_to_lean(pattern, flags=0):
    """Lean term of type `Py.Re.Pattern` for `re.compile(pattern, flags)`"""
    tree, fd, ngroups, names = regex_tree(pattern, flags)
    return ('({ re := %s, flags := %s, ngroups := %d, names := [%s] } : Py.Re.Pattern)'
            % (_lean(tree), _lean_flags(fd), ngroups,
               ', '.join('(%s, %d)' % (_lean_str(n), i) for n, i in names)))


def template_items(repl, pattern, flags=0):
    """[('lit', str) | ('grp', int)] via `re._parser.parse_template`"""
    pat = pattern if isinstance(pattern, re.Pattern) else re.compile(pattern, flags)
    out = []
    for x in P.parse_template(repl, pat):
        if isinstance(x, int):
            out.append(('grp', x))
        elif x:
            out.append(('lit', x))
    return out


def template_to_lean(repl, pattern, flags=0):
    """Lean term of type `Py.Re.Template` for the replacement string `repl`"""
    items = template_items(repl, pattern, flags)
    return '([%s] : Py.Re.Template)' % ', '.join(
        '.lit %s' % _lean_str(v) if k == 'lit' else '.grp %d' % v for k, v in items)


# ---------------------------------------------------------------------------- JSON output

def _json(t):
    k = t[0]
    if k == 'cls':
        return ['cls', t[1], [list(i) for i in t[2]]]
    if k in ('seq', 'alt'):
        return [k, _json(t[1]), _json(t[2])]
    if k == 'rep':
        return ['rep', t[1], t[2], t[3], _json(t[4])]
    if k in ('group',):
        return ['group', t[1], _json(t[2])]
    if k == 'withFlags':
        return ['withFlags', t[1], _json(t[2])]
    if k == 'look':
        return ['look', t[1], _json(t[2])]
    return list(t)


def regex_to_json(pattern, flags=0):
    tree, fd, ngroups, names = regex_tree(pattern, flags)
    return {'re': _json(tree), 'flags': fd, 'ngroups': ngroups,
            'names': [[[ord(c) for c in n], i] for n, i in names]}


if __name__ == '__main__':
    import sys
    print(regex_to_lean(sys.argv[1], int(sys.argv[2]) if len(sys.argv) > 2 else 0))
