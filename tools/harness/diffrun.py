"""Differential run: generated Lean model (native driver) vs CPython on the same inputs.

This validates the trusted translator (`py2lean`) and runtime (`PyRt`); it is a test, never a proof.
"""
import datetime
import json
import os
import random
import subprocess
import sys
import types

sys.path.insert(0, os.path.dirname(os.path.dirname(os.path.abspath(__file__))))
import common  # noqa: E402
sys.path.insert(0, os.path.join(common.VERIF, 'tools', 'py2lean'))
from pytypes import dict_parts, elem, is_dict, is_list, is_opt, is_tuple, opt_inner, tuple_parts  # noqa: E402
from pytypes import is_rec, rec_parts  # noqa: E402

DRIVER = os.path.join(common.LEAN_DIR, '.lake', 'build', 'bin', 'driver')


class Mismatch(Exception):
    pass


def to_wire(v, t):
    """encode python value v at model type t (must mirror PyRt.Wire)"""
    if t == 'str':
        if not isinstance(v, str):
            raise Mismatch
        return {'s': [ord(c) for c in v]}
    if t == 'int':
        if isinstance(v, bool) or not isinstance(v, int):
            if isinstance(v, bool):
                return int(v)
            raise Mismatch
        return v
    if t == 'bool':
        if not isinstance(v, bool):
            raise Mismatch
        return v
    if t == 'none':
        if v is not None:
            raise Mismatch
        return None
    if t == 'date':
        if not isinstance(v, datetime.date) or isinstance(v, datetime.datetime):
            raise Mismatch
        return {'date': [v.year, v.month, v.day]}
    if t == 'module':
        if not isinstance(v, types.ModuleType):
            raise Mismatch
        return v.__name__
    if is_opt(t):
        return None if v is None else to_wire(v, opt_inner(t))
    if is_list(t):
        if isinstance(v, (set, frozenset)):
            v = sorted(v)
        if not isinstance(v, (list, tuple)):
            raise Mismatch
        return [to_wire(x, elem(t)) for x in v]
    if is_dict(t):
        if not isinstance(v, dict):
            raise Mismatch
        k, vt = dict_parts(t)
        return {'d': [[to_wire(a, k), to_wire(b, vt)] for a, b in v.items()]}
    if is_tuple(t):
        ps = tuple_parts(t)
        if not isinstance(v, (tuple, list)) or len(v) != len(ps):
            raise Mismatch
        return {'t': [to_wire(x, p) for x, p in zip(v, ps)]}
    if is_rec(t):
        fields = rec_parts(t)
        if not isinstance(v, dict) or list(v.keys()) != [k for k, _ in fields]:
            raise Mismatch
        return {'d': [[to_wire(k, 'str'), to_wire(v[k], ft)] for k, ft in fields]}
    raise Mismatch


VERR = {'InvalidFormat', 'InvalidLength', 'InvalidChecksum', 'InvalidComponent', 'ValidationError'}


def py_response(f, args, rtype):
    o = common.outcome(f, *args)
    if o[0] == 'ok':
        try:
            return ['ok', to_wire(o[1], rtype)]
        except Mismatch:
            return ['ok?', repr(o[1])[:80]]
    if o[0] == 'verr':
        return ['err', o[1] if o[1] in VERR else 'ValidationError']
    return ['err', 'NonValidation']


def parse_response(line):
    line = line.rstrip('\n')
    if line.startswith('ok '):
        try:
            return ['ok', json.loads(line[3:])]
        except ValueError:
            return ['bad', line[:80]]
    if line.startswith('err '):
        return ['err', line[4:]]
    return ['bad', line[:80]]


def gen_strings(rng, modname, fname, pname, n):
    """inputs for a str parameter"""
    c = common.corpus().get(modname, {'valid': [], 'invalid': []})
    valid = c['valid']
    pool = []
    base = list(valid[:40]) + list(c['invalid'][:20])
    pool += base
    pool += ['', ' ', '0', 'A', '\n', '00000000000', '1234567890']
    k = max(1, n // max(1, len(valid[:12])) if valid else n)
    for v in valid[:12]:
        pool += common.mutations(rng, v, k)
    if pname not in ('number', 'value', 'text') or fname.startswith(('calc_', 'checksum', '_')):
        for L in range(0, 18):
            pool.append(''.join(rng.choice('0123456789') for _ in range(L)))
        for v in valid[:12]:
            cv = ''.join(ch for ch in v if ch.isalnum())
            for a, b in ((0, -1), (0, -2), (1, None), (0, 9), (2, None)):
                pool.append(cv[a:b])
    seen, out = set(), []
    for s in pool:
        if s not in seen:
            seen.add(s)
            out.append(s)
    rng.shuffle(out)
    head = [s for s in base if s in seen][:max(4, n // 4)]
    rest = [s for s in out if s not in set(head)]
    return (head + rest)[:n]


def literal_hints(pyf):
    """{parameter name: literals the function compares that parameter with} (so that `format == 'dec'`-style
    branches are reached)"""
    import ast
    import inspect
    import textwrap
    out = {}
    try:
        tree = ast.parse(textwrap.dedent(inspect.getsource(pyf)))
    except (OSError, TypeError, SyntaxError):
        return out
    glob = getattr(pyf, '__globals__', {})
    for node in ast.walk(tree):
        if isinstance(node, ast.Call) and isinstance(node.func, ast.Attribute) and node.func.attr == 'get' and node.args \
                and isinstance(node.func.value, ast.Name) and isinstance(node.args[0], ast.Name) \
                and isinstance(glob.get(node.func.value.id), dict):
            # CONSTANT_DICT.get(param): some keys of the dictionary
            keys = [k for k in glob[node.func.value.id] if isinstance(k, (str, int)) and not isinstance(k, bool)]
            out.setdefault(node.args[0].id, []).extend(keys[:6])
        if isinstance(node, ast.Compare) and isinstance(node.left, ast.Name) and len(node.comparators) == 1:
            c = node.comparators[0]
            vals = [c] if isinstance(c, ast.Constant) else (list(c.elts) if isinstance(c, (ast.Tuple, ast.List, ast.Set)) else [])
            for v in vals:
                if isinstance(v, ast.Constant) and isinstance(v.value, (str, int)) and not isinstance(v.value, bool):
                    out.setdefault(node.left.id, []).append(v.value)
    return out


def gen_value(rng, t, default, has_default, hints=()):
    choices = [h for h in hints if (isinstance(h, str) and t in ('str', 'opt[str]')) or (isinstance(h, int) and t in ('int', 'opt[int]'))]
    if has_default:
        choices.append(default)
    if t == 'bool':
        choices += [True, False]
    elif t == 'int':
        choices += [0, 1, 2, 5, 10, -1]
    elif t == 'str':
        choices += [' ', '-', '', '.', '0123456789', 'ab']
    elif is_opt(t):
        choices += [None]
    elif t == 'date':
        choices += [datetime.date(2026, 9, 26)]
    return rng.choice(choices) if choices else None


def plan_cases(rng, man, keys, n_per_func):
    cases = []
    for key in keys:
        f = man['functions'][key]
        modname, fname = key.split(':')
        try:
            mod = common.module(modname)
        except Exception:
            continue
        pyf = getattr(mod, fname, None)
        if pyf is None or not callable(pyf):
            continue
        params, ptypes = f['params'], f['ptypes']
        if not params:
            cases.append((key, pyf, [], f))
            continue
        import inspect
        try:
            sig = inspect.signature(pyf)
            defaults = {p.name: p.default for p in sig.parameters.values() if p.default is not p.empty}
        except (TypeError, ValueError):
            defaults = {}
        hints = literal_hints(pyf)
        for p_ in params:
            # a parameter `region` of a module that publishes `REGIONS`: its members (and near misses) are candidates
            pub = getattr(mod, p_.upper() + 'S', None)
            if isinstance(pub, (list, tuple)) and pub and all(isinstance(x, str) for x in pub):
                hints.setdefault(p_, [])
                hints[p_] += list(pub) + [pub[0].upper(), pub[-1].lower() + ' ', 'x' + pub[0]]
        firsts = gen_strings(rng, modname, fname, params[0], n_per_func) if ptypes[0] == 'str' else [
            gen_value(rng, ptypes[0], defaults.get(params[0]), params[0] in defaults) for _ in range(min(n_per_func, 8))]
        for i, x in enumerate(firsts):
            args = [x]
            ok = True
            for p, t in zip(params[1:], ptypes[1:]):
                if p in defaults and (i % 3 != 2):
                    v = defaults[p]
                else:
                    v = gen_value(rng, t, defaults.get(p), p in defaults, hints.get(p, ()))
                    if t == 'str' and p not in defaults:
                        v = rng.choice(gen_strings(rng, modname, fname, p, 6) or [''])
                try:
                    to_wire(v, t)
                except Mismatch:
                    ok = False
                    break
                args.append(v)
            if ok:
                try:
                    to_wire(args[0], ptypes[0])
                except Mismatch:
                    continue
                cases.append((key, pyf, args, f))
    return cases


def run(keys=None, n_per_func=60, seed=None, today=None, extra_cases=None, driver=DRIVER):
    """returns summary dict; `keys` = list of 'module:function' (default: all driven)"""
    rng = random.Random(seed if seed is not None else common.seed())
    man = json.load(open(os.path.join(common.LEAN_DIR, 'Gen', 'manifest.json')))
    driven = json.load(open(os.path.join(common.LEAN_DIR, 'Gen', 'driven.json')))
    allkeys = [k for k, v in driven.items() if v == 'driven']
    if keys is None:
        keys = allkeys
    else:
        keys = [k for k in keys if k in set(allkeys)]
    today = today or datetime.date(2026, 9, 26)
    cases = plan_cases(rng, man, sorted(keys), n_per_func)
    if extra_cases:
        for key, args in extra_cases:
            if key in man['functions'] and driven.get(key) == 'driven':
                modname, fname = key.split(':')
                cases.append((key, getattr(common.module(modname), fname), args, man['functions'][key]))
    lines, expect = [], []
    with common.frozen_today(today):
        for key, pyf, args, f in cases:
            wargs = [to_wire(a, t) for a, t in zip(args, f['ptypes'])]
            if f['today']:
                wargs = [{'date': [today.year, today.month, today.day]}] + wargs
            lines.append('%s\t%s' % (key, json.dumps(wargs, separators=(',', ':'))))
            expect.append(py_response(pyf, args, f['rtype']))
    p = subprocess.run([driver], input='\n'.join(lines) + '\n', capture_output=True, text=True)
    got = p.stdout.split('\n')
    dis, dist, perfunc = [], {}, {}
    agree = 0
    accepted = 0
    for (key, pyf, args, f), e, g in zip(cases, expect, got):
        gp = parse_response(g)
        d = dist.setdefault(key.split(':')[0], {'n': 0, 'ok': 0, 'err': 0})
        d['n'] += 1
        d['ok' if e[0] == 'ok' else 'err'] += 1
        pf = perfunc.setdefault(key, {})
        oc = 'ok' if e[0] == 'ok' else (e[1] if e[0] == 'err' else e[0])
        pf[oc] = pf.get(oc, 0) + 1
        if e[0] == 'ok':
            accepted += 1
        if e == gp:
            agree += 1
        else:
            dis.append({'target': key, 'args': [common.describe(a) for a in args], 'python': e, 'model': gp})
    if len(got) < len(cases):
        dis.append({'target': '<driver>', 'args': [], 'python': 'n/a', 'model': 'driver produced %d of %d lines; stderr: %s' % (len(got), len(cases), p.stderr[-300:])})
    return {'evaluations': len(cases), 'agree': agree, 'accepted_by_python': accepted, 'functions': len(set(c[0] for c in cases)),
            'disagreements': dis, 'distribution': dist, 'per_function': perfunc,
            'samples': lines[:3]}


if __name__ == '__main__':
    import argparse
    ap = argparse.ArgumentParser()
    ap.add_argument('--n', type=int, default=60)
    ap.add_argument('--match', default=None)
    ap.add_argument('--show', type=int, default=30)
    ap.add_argument('--perfunc', action='store_true', help='print the outcome distribution (python side) per function')
    a = ap.parse_args()
    keys = None
    if a.match:
        driven = json.load(open(os.path.join(common.LEAN_DIR, 'Gen', 'driven.json')))
        keys = [k for k in driven if a.match in k]
    t = common.Timer()
    r = run(keys, a.n)
    byf = {}
    for d in r['disagreements']:
        byf.setdefault(d['target'], []).append(d)
    print(json.dumps({k: v for k, v in r.items() if k not in ('disagreements', 'distribution', 'per_function')}, indent=1))
    if a.perfunc:
        for k, v in sorted(r['per_function'].items()):
            print('  %-50s %s' % (k, ' '.join('%s=%d' % kv for kv in sorted(v.items()))))
    print('disagreeing functions:', len(byf), 'disagreements:', len(r['disagreements']), 'wall', t.s())
    for k, v in sorted(byf.items(), key=lambda kv: -len(kv[1]))[:a.show]:
        d = v[0]
        arg = d['args'][0] if d['args'] else None
        s = common.rebuild(arg) if arg and arg.get('kind') == 'str' else arg
        print(k, len(v), repr(s)[:60], [x.get('repr', '') for x in d['args'][1:]], 'PY', str(d['python'])[:70], 'MODEL', str(d['model'])[:70])
