"""MANIFEST.setup_cmd: build the framework from files on disk only (offline)."""
import json
import os
import sys

sys.path.insert(0, os.path.dirname(os.path.abspath(__file__)))
import common  # noqa: E402
import prepare  # noqa: E402

if __name__ == '__main__':
    r = prepare.prepare()
    print('setup: translated %s functions, %d unmodelled, lake rc=%s in %ss; failed modules: %s' % (
        r.get('translated'), len(r.get('unmodelled', [])), r['steps'].get('lake', {}).get('rc'), r.get('wall_s'), r.get('failed_modules')))
    common.corpus()
    sys.exit(0)
