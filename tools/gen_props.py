"""Generate the per-module theorem files lean/Props/Auto/*.lean from Gen/manifest.json.

Families (one theorem statement scheme each, stated on the *generated* definitions):
  C03  validate_of_compact : compact x = compact y -> validate x = validate y
  C01  validate_contract   : validate never raises anything but a ValidationError        (mvcgen + py_vc)
       is_valid_contract   : is_valid never raises and equals "validate returned"
By default only the obligations recorded in /verif/obligations/<prop>.json are emitted (what checks on the
clean tree); `--all` emits every candidate (used by tools/discover.py to (re)build the obligation lists).
"""
import json
import os
import re
import sys

sys.path.insert(0, os.path.dirname(os.path.abspath(__file__)))
import common  # noqa: E402
sys.path.insert(0, os.path.join(common.VERIF, 'tools', 'py2lean'))
from pytypes import lean_type  # noqa: E402
from translate import mangle  # noqa: E402

C03_EXCLUDED = {'stdnum.isan', 'stdnum.meid', 'stdnum.us.ssn', 'stdnum.us.itin', 'stdnum.us.ein', 'stdnum.us.atin', 'stdnum.us.tin'}


def binder(f, names=None):
    ps = []
    if f['today']:
        ps.append('(today__ : Date)')
    for p, t in zip(f['params'], f['ptypes']):
        ps.append('(%s : %s)' % (mangle(p) + "'", lean_type(t)))
    return ps


def args_of(f, first=None):
    out = []
    if f['today']:
        out.append('today__')
    for i, p in enumerate(f['params']):
        out.append(first if (i == 0 and first) else mangle(p) + "'")
    return ' '.join(out)


def closure(F, key, skip_util=True):
    seen, st = [], [key]
    while st:
        k = st.pop()
        if k in seen or k not in F:
            continue
        seen.append(k)
        for c in F[k].get('calls', []):
            if skip_util and c.startswith('stdnum.util:'):
                continue
            st.append(c)
    return seen


def fam_c03(man):
    F = man['functions']
    out = []
    for mod, m in sorted(man['modules'].items()):
        v, c = F.get(mod + ':validate'), F.get(mod + ':compact')
        if not v or not c or not v['ok'] or not c['ok'] or mod in C03_EXCLUDED:
            continue
        if not v['params'] or v['ptypes'][0] != 'str' or c['ptypes'][:1] != ['str']:
            continue
        ns = m['ns']
        vb = binder(v)[(1 if v['today'] else 0) + 1:]
        today = '(today__ : Date) ' if (v['today'] or c['today']) else ''
        copts = ' '.join('(%s : %s)' % ('c_' + mangle(p), lean_type(t)) for p, t in zip(c['params'][1:], c['ptypes'][1:]))
        cargs = ''.join(' c_' + mangle(p) for p in c['params'][1:])
        ct = ' today__' if c['today'] else ''
        hyp = '%s%s x%s = %s%s y%s' % (c['lean'], ct, cargs, c['lean'], ct, cargs)
        if copts:
            hyp = '∀ %s, %s' % (copts, hyp)
        vt = ' today__' if v['today'] else ''
        vargs = ''.join(' ' + mangle(p) + "'" for p in v['params'][1:])
        name = 'Props.Auto.C03.%s.validate_of_compact' % ns
        src = ('theorem %s %s(x y : Str) %s\n    (h : %s) :\n    %s%s x%s = %s%s y%s := by\n  unfold %s\n  simp only [h]\n' % (
            name, today, ' '.join(vb), hyp, v['lean'], vt, vargs, v['lean'], vt, vargs, v['lean']))
        out.append({'name': name, 'ns': ns, 'covers': mod, 'family': 'C03', 'src': src, 'imports': ['Gen.' + ns], 'prelude': 'open Py\n'})
    return out


def fam_c04_format(man):
    """format() depends only on the compact form: compact x = compact y -> format x = format y
    (so the formatted text does not depend on how the number was written; with compact (validate x) = validate x
    this gives format(x) = format(validate(x)))"""
    F = man['functions']
    out = []
    for mod, m in sorted(man['modules'].items()):
        v, c = F.get(mod + ':format'), F.get(mod + ':compact')
        if not v or not c or not v['ok'] or not c['ok']:
            continue
        if not v['params'] or v['ptypes'][0] != 'str' or c['ptypes'][:1] != ['str']:
            continue
        ns = m['ns']
        vb = ['(%s : %s)' % (mangle(p) + "'", lean_type(t)) for p, t in zip(v['params'][1:], v['ptypes'][1:])]
        today = '(today__ : Date) ' if (v['today'] or c['today']) else ''
        copts = ' '.join('(%s : %s)' % ('c_' + mangle(p), lean_type(t)) for p, t in zip(c['params'][1:], c['ptypes'][1:]))
        cargs = ''.join(' c_' + mangle(p) for p in c['params'][1:])
        ct = ' today__' if c['today'] else ''
        hyp = '%s%s x%s = %s%s y%s' % (c['lean'], ct, cargs, c['lean'], ct, cargs)
        if copts:
            hyp = '∀ %s, %s' % (copts, hyp)
        vt = ' today__' if v['today'] else ''
        vargs = ''.join(' ' + mangle(p) + "'" for p in v['params'][1:])
        name = 'Props.Auto.C04.%s.format_of_compact' % ns
        src = ('theorem %s %s(x y : Str) %s\n    (h : %s) :\n    %s%s x%s = %s%s y%s := by\n  unfold %s\n  simp only [h]\n' % (
            name, today, ' '.join(vb), hyp, v['lean'], vt, vargs, v['lean'], vt, vargs, v['lean']))
        out.append({'name': name, 'ns': ns, 'covers': mod, 'family': 'C04', 'src': src, 'imports': ['Gen.' + ns], 'prelude': 'open Py\n'})
    return out


def fam_c01_isvalid(man):
    """is_valid(x, o) = (validate(x, o) returned a non-empty value), and it raises only what validate raises
    outside the ValidationError hierarchy"""
    F = man['functions']
    out = []
    for mod, m in sorted(man['modules'].items()):
        v, iv = F.get(mod + ':validate'), F.get(mod + ':is_valid')
        if not v or not iv or not v['ok'] or not iv['ok'] or v['rtype'] != 'str' or iv['rtype'] != 'bool':
            continue
        if iv['params'] != v['params'] or iv['ptypes'] != v['ptypes']:
            continue
        ns = m['ns']
        today = '(today__ : Date) ' if (v['today'] or iv['today']) else ''
        bs = ' '.join('(%s : %s)' % (mangle(p) + "'", lean_type(t)) for p, t in zip(v['params'], v['ptypes']))
        args = ''.join(' ' + mangle(p) + "'" for p in v['params'])
        name = 'Props.Auto.C01v.%s.is_valid_eq' % ns
        src = ('theorem %s %s%s :\n    %s%s%s =\n    (match %s%s%s with\n     | .ok v => .ok (!v.isEmpty)\n'
               '     | .error e => if e.isValidation then .ok false else .error e) := by\n'
               '  unfold %s\n  cases h : %s%s%s with\n  | ok v => rfl\n  | error e => cases e <;> rfl\n' % (
                   name, today, bs, iv['lean'], ' today__' if iv['today'] else '', args,
                   v['lean'], ' today__' if v['today'] else '', args, iv['lean'], v['lean'], ' today__' if v['today'] else '', args))
        out.append({'name': name, 'ns': ns, 'covers': mod, 'family': 'C01v', 'src': src, 'imports': ['Gen.' + ns], 'prelude': 'open Py\n'})
    return out


# loop invariants: nothing is known about the accumulators; a `raise` inside a loop body must be a validation error
VC_SCRIPT = ('  try any_goals (exact post⟨fun _ => ⌜True⌝, fun e => ⌜e.isValidation = true⌝⟩)\n'
             '  all_goals (try (mleave; done))\n'
             '  all_goals (clear_jps; py_vc)\n')

# the heartbeat budget is per declaration and a contract proof is the sum of 20-60 small verification conditions
# (each well under a second); 5x the default keeps every file under about a minute
CONTRACT_HEARTBEATS = 1000000

# hand-proved triples (lean/Lemmas/Contracts.lean) used instead of unfolding the function
CONTRACTS = {
    'stdnum.luhn:validate': 'Py.Contracts.luhn_validate_spec',
    'stdnum.luhn:checksum': 'Py.Contracts.luhn_checksum_spec',
    'stdnum.luhn:calc_check_digit': 'Py.Contracts.luhn_calc_check_digit_spec',
    'stdnum.verhoeff:validate': 'Py.Contracts.verhoeff_validate_spec',
    'stdnum.iso7064.mod_11_10:validate': 'Py.Contracts.mod_11_10_validate_spec',
    'stdnum.iso7064.mod_11_2:validate': 'Py.Contracts.mod_11_2_validate_spec',
    'stdnum.damm:validate': 'Py.Contracts.damm_validate_spec',
    'stdnum.iso7064.mod_37_2:validate': 'Py.Contracts.mod_37_2_validate_spec',
    'stdnum.iso7064.mod_37_36:validate': 'Py.Contracts.mod_37_36_validate_spec',
    'stdnum.iso7064.mod_97_10:validate': 'Py.Contracts.mod_97_10_validate_spec',
    'stdnum.iso7064.mod_97_10:checksum': 'Py.Contracts.mod_97_10_checksum_spec',
    'stdnum.iso7064.mod_97_10:calc_check_digits': 'Py.Contracts.mod_97_10_calc_check_digits_spec',
    'stdnum.iso7064.mod_97_10:_to_base10': 'Py.Contracts.to_base10_spec',
}


# partial-correctness mode (exceptional post-condition `True`): no safety conditions are generated at all
CONTRACTS_PC = dict(CONTRACTS, **{
    'stdnum.luhn:checksum': 'Py.Contracts.luhn_checksum_pc',
    'stdnum.luhn:calc_check_digit': 'Py.Contracts.luhn_calc_check_digit_pc',
    'stdnum.iso7064.mod_97_10:checksum': 'Py.Contracts.mod_97_10_checksum_pc',
    'stdnum.iso7064.mod_97_10:calc_check_digits': 'Py.Contracts.mod_97_10_calc_check_digits_pc',
    'stdnum.iso7064.mod_97_10:_to_base10': 'Py.Contracts.to_base10_pc',
})
PC_ERASE = ['Py.mapM_spec2', 'Py.dictGet_spec2', 'Py.groupNamedR_spec', 'Py.groupR_spec', 'Py.intOf_spec', 'Py.intOfBase_spec', 'Py.getItem_spec', 'Py.getItem_spec2', 'Py.getItemL_spec', 'Py.getItemL_spec2',
            'Py.index_spec', 'Py.indexL_spec', 'Py.dictGet_spec', 'Py.optGet_spec', 'Py.pymod_spec', 'Py.pyfloordiv_spec',
            'Py.pydivmod_spec', 'Py.mkDate_spec', 'Py.monthrangeDays_spec', 'Py.ord_spec', 'Py.chr_spec', 'Py.asciiOnly_spec',
            'Py.mapM_spec', 'Py.filterMapM_spec', 'Py.maxInt_spec', 'Py.minInt_spec', 'Py.pypow_spec', 'Py.pypowmod_spec',
            'Py.pyshl_spec', 'Py.pyshr_spec', 'Py.splitOnR_spec', 'Py.rsplitOnR_spec']
PC_SPECS = ['Py.intOf_pc', 'Py.intOfBase_pc', 'Py.getItem_pc', 'Py.getItemL_pc', 'Py.index_pc', 'Py.indexL_pc', 'Py.dictGet_pc',
            'Py.optGet_pc', 'Py.optGetT_pc', 'Py.pymod_pc', 'Py.pyfloordiv_pc', 'Py.pydivmod_pc', 'Py.mkDate_pc',
            'Py.monthrangeDays_pc', 'Py.ord_pc', 'Py.chr_pc', 'Py.asciiOnly_pc', 'Py.mapM_pc', 'Py.filterMapM_pc',
            'Py.maxInt_pc', 'Py.minInt_pc', 'Py.pypow_pc', 'Py.pypowmod_pc', 'Py.pyshl_pc', 'Py.pyshr_pc', 'Py.splitOnR_pc',
            'Py.rsplitOnR_pc', 'Py.groupNamedR_pc', 'Py.groupR_pc']
VC_SCRIPT_PC = ('  try any_goals (exact post⟨fun _ => ⌜True⌝, fun _ => ⌜True⌝⟩)\n'
                '  all_goals (try (mleave; done))\n'
                '  all_goals (clear_jps; py_vc)\n')
GENERIC_MODULES = {'stdnum.luhn', 'stdnum.verhoeff', 'stdnum.damm', 'stdnum.iso7064.mod_11_10', 'stdnum.iso7064.mod_11_2',
                   'stdnum.iso7064.mod_37_2', 'stdnum.iso7064.mod_37_36', 'stdnum.iso7064.mod_97_10'}


def _is_candidate(F, mod):
    v = F.get(mod + ':validate')
    return bool(v and v['ok'] and v['rtype'] == 'str' and v['params'] and v['ptypes'][0] == 'str')


def contract_closure(F, key, contracts=None, no_callee=()):
    """functions to unfold, hand-proved contracts to use, and `validate` functions of other modules whose own
    generated contract is used as a spec (so nothing is proved twice and proofs stay small)"""
    contracts = CONTRACTS if contracts is None else contracts
    mod = key.split(':')[0]
    unfold, specs, callees = [], [], []
    seen, st = set(), [key]
    while st:
        k = st.pop()
        if k in seen or k not in F:
            continue
        seen.add(k)
        if k in contracts:
            specs.append(contracts[k])
            continue
        if (k != key and k.endswith(':validate') and k.split(':')[0] != mod and _is_candidate(F, k.split(':')[0])
                and k.split(':')[0] not in no_callee):
            callees.append(k)
            continue
        unfold.append(k)
        for c in F[k].get('calls', []):
            if c.startswith('stdnum.util:'):
                continue
            st.append(c)
    return unfold, specs, callees


def _stuck_retry(man, keys, mv, indent='  '):
    """`mvcgen` stops at `if (match opt with | some v => … | none => false) then …` (the translation of `x and …` on an
    optional argument): split the `match`/`if` by hand and run `mvcgen` again, two levels deep.  Only emitted for the
    modules whose translation contains that shape."""
    hit = 0
    for c in sorted({c.split(':')[0] for c in keys}):
        try:
            t = open(os.path.join(common.LEAN_DIR, 'Gen', man['modules'][c]['ns'] + '.lean')).read()
        except OSError:
            continue
        hit += len(re.findall(r'if \(+match \w+ with \| some v__ =>', t))
    if hit != 1:      # several such conditions (de.handelsregisternummer): the repeated splitting explodes
        return ''
    return ('%sall_goals (try (py_is_wp; split <;> mvcgen [%s] <;> try (py_is_wp; split <;> mvcgen [%s])))\n' % (indent, mv, mv))


def _db_seal(imports):
    """`attribute [local irreducible]` for the registry constants of the imported `Gen` modules: the elaborator must never
    unfold `Gen.db_*.db` (a 40 KB string that is parsed) while unifying"""
    dbs = set()
    for i in imports:
        if not i.startswith('Gen.'):
            continue
        try:
            dbs |= set(re.findall(r'Gen\.db_\w+\.db\b', open(os.path.join(common.LEAN_DIR, 'Gen', i[4:] + '.lean')).read()))
        except OSError:
            pass
    return ''.join('attribute [local irreducible] %s\n' % d for d in sorted(dbs))


def _db_inline(man, F, keys):
    """`_db_generalize` as one `;`-separated line (for use inside a parenthesised tactic block)"""
    t = _db_generalize(man, F, keys, '')
    return ''.join(ln.strip() + '; ' for ln in t.split('\n') if ln.strip())


def _db_generalize(man, F, keys, indent='  '):
    """tactic text that unfolds the functions `keys` and abstracts the registry constants they mention (mvcgen cannot
    cope with the 40 KB string literal behind `Gen.db_*.db`)"""
    dbs = set()
    for c in keys:
        gp = os.path.join(common.LEAN_DIR, 'Gen', man['modules'][c.split(':')[0]]['ns'] + '.lean')
        try:
            dbs |= set(re.findall(r'Gen\.db_\w+\.db\b', open(gp).read()))
        except OSError:
            pass
    if not dbs:
        return ''
    fl = [F[c]['lean'] for c in keys]
    return ''.join('%stry unfold %s\n' % (indent, f) for f in fl + fl) + '%spy_gen_db\n' % indent


def _contract(man, fam, post, post_name, exc='e.isValidation = true', pc=False, exclude=()):
    """one theorem per module: Holds (validate args) (fun v => post) (fun e => exc).  pc=True: partial-correctness
    mode (exc must be `True`): primitives get specs without safety preconditions, so the only verification conditions
    are the post-condition on each return path."""
    F = man['functions']
    out = []
    cand_ok = {}
    contracts = CONTRACTS_PC if pc else CONTRACTS
    script = VC_SCRIPT_PC if pc else VC_SCRIPT

    def full_ok(mod, depth=0):
        """every function that has to be unfolded (here or in a callee's own proof) is translated"""
        if mod not in cand_ok:
            cand_ok[mod] = False
            unfold, _, callees = contract_closure(F, mod + ':validate', contracts, exclude)
            cand_ok[mod] = all(F[c]['ok'] for c in unfold) and all(full_ok(c.split(':')[0]) for c in callees)
        return cand_ok[mod]

    for mod, m in sorted(man['modules'].items()):
        if not _is_candidate(F, mod) or not full_ok(mod) or mod in exclude:
            continue
        v = F[mod + ':validate']
        unfold, specs, callees = contract_closure(F, mod + ':validate', contracts, exclude)
        ns = m['ns']
        today = '(today__ : Date) ' if v['today'] else ''
        bs = ' '.join('(%s : %s)' % (mangle(p) + "'", lean_type(t)) for p, t in zip(v['params'], v['ptypes']))
        args = (' today__' if v['today'] else '') + ''.join(' ' + mangle(p) + "'" for p in v['params'])
        imports = {'Gen.' + man['modules'][c.split(':')[0]]['ns'] for c in unfold + callees} | {'Gen.' + ns, 'Lemmas.Contracts'}
        pre = ''
        for c in sorted(callees):
            cv = F[c]
            cns = man['modules'][c.split(':')[0]]['ns']
            imports.add('Props.Auto.%s_%s' % (fam, cns))
            cbs = ('(today__ : Date) ' if cv['today'] else '') + ' '.join(
                '(%s : %s)' % (mangle(p) + "'", lean_type(t)) for p, t in zip(cv['params'], cv['ptypes']))
            cargs = (' today__' if cv['today'] else '') + ''.join(' ' + mangle(p) + "'" for p in cv['params'])
            sname = 'Props.Auto.%s.%s.spec_%s_validate' % (fam, ns, cns)
            pre += ('theorem %s %s :\n    ⦃⌜True⌝⦄ %s%s ⦃post⟨fun v => ⌜%s⌝, fun %s => ⌜%s⌝⟩⦄ :=\n'
                    '  Py.triple_of_holds _ _ _ (Props.Auto.%s.%s.%s%s)\n\n' % (
                        sname, cbs, cv['lean'], cargs, post, 'e' if re.search(r'\be\b', exc) else '_', exc, fam, cns, post_name, cargs))
            specs = specs + [sname]
        name = 'Props.Auto.%s.%s.%s' % (fam, ns, post_name)
        # registry constants (NumDB literals) must stay folded: mvcgen's simp runs out of recursion depth on them
        dbs = set()
        for c in unfold:
            gp = os.path.join(common.LEAN_DIR, 'Gen', man['modules'][c.split(':')[0]]['ns'] + '.lean')
            try:
                dbs |= set(re.findall(r'Gen\.db_\w+\.db\b', open(gp).read()))
            except OSError:
                pass
        # ... so the functions are unfolded by hand and the constant is abstracted before mvcgen runs
        gen = ''
        if dbs:
            fl = [F[c]['lean'] for c in unfold]
            gen = ''.join('  try unfold %s\n' % f for f in fl + fl) + '  py_gen_db\n'
        extra = (['-' + x for x in PC_ERASE] + PC_SPECS) if pc else []
        mvl = ', '.join([F[c]['lean'] for c in unfold] + sorted(set(specs)) + ['Py.stateT_pure_apply', 'Py.earlyReturn_eq'] + extra)
        src = pre + ('set_option maxHeartbeats %d in\ntheorem %s %s%s :\n    Py.Holds (%s%s) (fun v => %s) (fun %s => %s) := by\n'
                     '  refine Py.holds_of_triple _ _ _ ?_\n%s  mvcgen [%s]\n%s%s' % (
                         CONTRACT_HEARTBEATS, name, today, bs, v['lean'], args, post, 'e' if re.search(r'\be\b', exc) else '_', exc, gen,
                         mvl, _stuck_retry(man, unfold, mvl), script))
        out.append({'name': name, 'ns': ns, 'covers': mod, 'family': fam, 'src': src, 'imports': sorted(imports),
                    'prelude': 'open Py Std.Do\nset_option mvcgen.warning false\npy_setup\n' + _db_seal(imports)})
    return out


def fam_c01_contract(man):
    """validate(x, o) raises nothing but ValidationError subclasses (all strings, all options, all dates)"""
    return _contract(man, 'C01c', 'True', 'validate_contract')


def fam_c15_ascii(man):
    """what validate() returns consists of ASCII characters only (C15); the eight generic modules return their argument"""
    return _contract(man, 'C15a', 'AllIn isAscii v', 'validate_ascii', exc='True', pc=True, exclude=GENERIC_MODULES)


def fam_c02_fixed(man):
    """validate x = ok v -> validate v = ok v and strip v = v, for the modules whose validate() returns its compact()
    result after an `isdigits` gate on the whole number.  Three steps per module: (a) a partial-correctness contract
    `compact x = ok v and IsDigits v` (compact is not unfolded: it gets the reflexive spec), (b) compact is the
    identity on digit strings, (c) the generated C03 theorem `compact x = compact y -> validate x = validate y`."""
    F = man['functions']
    out = []
    for mod, m in sorted(man['modules'].items()):
        v, c = F.get(mod + ':validate'), F.get(mod + ':compact')
        if mod in GENERIC_MODULES or not _is_candidate(F, mod) or not c or not c['ok'] or mod in C03_EXCLUDED:
            continue
        if c['params'] != ['number'] or c['ptypes'] != ['str'] or c['today'] or c['rtype'] != 'str':
            continue
        ckey = mod + ':compact'
        unfold, specs, callees = contract_closure(F, mod + ':validate', dict(CONTRACTS_PC, **{ckey: None}), GENERIC_MODULES)
        if not all(F[k]['ok'] for k in unfold) or callees:
            continue     # wrappers around another module's validate: later
        specs = [x for x in specs if x]
        ns = m['ns']
        today = '(today__ : Date) ' if v['today'] else ''
        bs = ' '.join('(%s : %s)' % (mangle(p) + "'", lean_type(t)) for p, t in zip(v['params'], v['ptypes']))
        first = mangle(v['params'][0]) + "'"
        vt = ' today__' if v['today'] else ''
        opts = ''.join(' ' + mangle(p) + "'" for p in v['params'][1:])
        imports = {'Gen.' + man['modules'][k.split(':')[0]]['ns'] for k in unfold} | {'Gen.' + ns, 'Lemmas.Contracts', 'Props.Auto.C03_' + ns}
        pfx = 'Props.Auto.C02f.%s' % ns
        mv = ', '.join([F[k]['lean'] for k in unfold] + sorted(set(specs)) + [pfx + '.compact_graph', 'Py.stateT_pure_apply', 'Py.earlyReturn_eq']
                       + ['-' + x for x in PC_ERASE] + PC_SPECS)
        src = (
            'theorem %s.compact_graph (number : Str) :\n'
            '    ⦃⌜True⌝⦄ %s number ⦃post⟨fun r => ⌜%s number = .ok r⌝, fun _ => ⌜True⌝⟩⦄ :=\n'
            '  Py.pc_triple (fun _ h => h)\n\n' % (pfx, c['lean'], c['lean']) +
            'set_option maxHeartbeats %d in\n'
            'theorem %s.validate_shape %s%s :\n'
            '    Py.Holds (%s%s %s%s) (fun v => %s %s = .ok v ∧ IsDigits v) (fun _ => True) := by\n'
            '  refine Py.holds_of_triple _ _ _ ?_\n  mvcgen [%s]\n%s\n' % (
                CONTRACT_HEARTBEATS, pfx, today, bs, v['lean'], vt, first, opts, c['lean'], first, mv, VC_SCRIPT_PC) +
            'theorem %s.compact_of_digits (v : Str) (h : IsDigits v) : %s v = .ok v := by\n'
            '  unfold %s\n  py_compact_digits h\n\n' % (pfx, c['lean'], c['lean']) +
            'theorem %s.validate_fixed %s%s (v : Str)\n'
            '    (h : %s%s %s%s = .ok v) :\n'
            '    %s%s v%s = .ok v ∧ Py.strip v = v := by\n'
            '  have h1 := %s.validate_shape%s %s%s\n'
            '  rw [h] at h1\n'
            '  obtain ⟨hc, hd⟩ : %s %s = .ok v ∧ IsDigits v := h1\n'
            '  have h2 := %s.compact_of_digits v hd\n'
            '  have h3 := Props.Auto.C03.%s.validate_of_compact%s %s v%s (hc.trans h2.symm)\n'
            '  exact ⟨h3 ▸ h, Py.strip_eq_self_of_asciiDigit v hd.2⟩\n' % (
                pfx, today, bs, v['lean'], vt, first, opts, v['lean'], vt, opts,
                pfx, vt, first, opts, c['lean'], first, pfx, ns, vt, first, opts))
        out.append({'name': pfx + '.validate_fixed', 'ns': ns, 'covers': mod, 'family': 'C02f', 'src': src,
                    'imports': sorted(imports),
                    'prelude': 'open Py Std.Do\nset_option mvcgen.warning false\nset_option linter.unusedVariables false\npy_setup\n' + _db_seal(imports)})
    return out


def fam_c02_idem(man):
    """validate x = ok v -> validate v = ok v and strip v = v, proved at the return point of validate: with all gates
    in the context, the returned string is compact(x), a fixed point of compact (digit/alphabet/regex gates make the
    clean-up steps identities; strip/lstrip/zfill steps are idempotent) and of strip; then the generated C03 theorem."""
    F = man['functions']
    out = []
    for mod, m in sorted(man['modules'].items()):
        v, c = F.get(mod + ':validate'), F.get(mod + ':compact')
        if mod in GENERIC_MODULES or not _is_candidate(F, mod) or not c or not c['ok'] or mod in C03_EXCLUDED:
            continue
        if c['params'] != ['number'] or c['ptypes'] != ['str'] or c['today'] or c['rtype'] != 'str':
            continue
        unfold, specs, callees = contract_closure(F, mod + ':validate', CONTRACTS_PC, GENERIC_MODULES)
        if not all(F[k]['ok'] for k in unfold) or callees:
            continue
        ns = m['ns']
        today = '(today__ : Date) ' if v['today'] else ''
        bs = ' '.join('(%s : %s)' % (mangle(p) + "'", lean_type(t)) for p, t in zip(v['params'], v['ptypes']))
        first = mangle(v['params'][0]) + "'"
        vt = ' today__' if v['today'] else ''
        opts = ''.join(' ' + mangle(p) + "'" for p in v['params'][1:])
        imports = {'Gen.' + man['modules'][k.split(':')[0]]['ns'] for k in unfold} | {'Gen.' + ns, 'Lemmas.Contracts', 'Props.Auto.C03_' + ns}
        pfx = 'Props.Auto.C02i.%s' % ns
        mv = ', '.join([F[k]['lean'] for k in unfold] + sorted(set(specs)) + ['Py.stateT_pure_apply', 'Py.earlyReturn_eq']
                       + ['-' + x for x in PC_ERASE] + PC_SPECS)
        post = '%s %s = .ok v ∧ %s v = .ok v ∧ Py.strip v = v' % (c['lean'], first, c['lean'])
        src = ('set_option maxHeartbeats %d in\n'
               'theorem %s.validate_compact %s%s :\n'
               '    Py.Holds (%s%s %s%s) (fun v => %s) (fun _ => True) := by\n'
               '  refine Py.holds_of_triple _ _ _ ?_\n  mvcgen [%s]\n%s'
               '  try any_goals (exact post⟨fun _ => ⌜True⌝, fun _ => ⌜True⌝⟩)\n'
               '  all_goals (try (mleave; done))\n'
               '  all_goals (clear_jps; py_c02 %s)\n\n' % (
                   CONTRACT_HEARTBEATS, pfx, today, bs, v['lean'], vt, first, opts, post, mv, _stuck_retry(man, unfold, mv), c['lean']) +
               'theorem %s.validate_fixed %s%s (v : Str)\n'
               '    (h : %s%s %s%s = .ok v) :\n'
               '    %s%s v%s = .ok v ∧ Py.strip v = v := by\n'
               '  have h1 := %s.validate_compact%s %s%s\n'
               '  rw [h] at h1\n'
               '  obtain ⟨hc, h2, h3⟩ : %s := h1\n'
               '  have h4 := Props.Auto.C03.%s.validate_of_compact%s %s v%s (hc.trans h2.symm)\n'
               '  exact ⟨h4 ▸ h, h3⟩\n' % (
                   pfx, today, bs, v['lean'], vt, first, opts, v['lean'], vt, opts,
                   pfx, vt, first, opts, post, ns, vt, first, opts))
        out.append({'name': pfx + '.validate_fixed', 'ns': ns, 'covers': mod, 'family': 'C02i', 'src': src,
                    'imports': sorted(imports),
                    'prelude': 'open Py Std.Do\nset_option mvcgen.warning false\nset_option linter.unusedVariables false\npy_setup\n' + _db_seal(imports)})
    return out


def _py_default_to_lean(d):
    """Lean text of a Python default value (only the literals that occur as defaults of `format`)"""
    d = d.strip()
    if d in ('True', 'False'):
        return d.lower()
    if d == 'None':
        return 'none'
    m = re.match(r"^'([ -~]*)'$", d)
    if m and "'" not in m.group(1) and '\\' not in m.group(1):
        return '([%s] : Str)' % ', '.join(str(ord(ch)) for ch in m.group(1))
    return None


def fam_c04_vformat(man):
    """second half of C04: an accepted number survives formatting,
        validate x opts = ok v  ->  exists f, format v = ok f  and  validate f opts = ok v     (format with its defaults).
    At the return point of validate (gates in the context) `compact (format v) = ok v` is evaluated: the pieces format
    cuts v into survive clean(), the separators are deleted, consecutive slices concatenate to v.  Then the generated
    C03 theorem (validate depends only on compact) and C02i (compact v = ok v, validate v = ok v)."""
    F = man['functions']
    out = []
    for mod, m in sorted(man['modules'].items()):
        v, c, f = F.get(mod + ':validate'), F.get(mod + ':compact'), F.get(mod + ':format')
        if mod in GENERIC_MODULES or not _is_candidate(F, mod) or not c or not c['ok'] or not f or not f['ok'] or mod in C03_EXCLUDED:
            continue
        if c['params'] != ['number'] or c['ptypes'] != ['str'] or c['today'] or c['rtype'] != 'str':
            continue
        if not f['params'] or f['params'][0] != 'number' or f['ptypes'][0] != 'str' or f['rtype'] != 'str' or f['today']:
            continue
        fargs = []
        for p_ in f['params'][1:]:
            d = _py_default_to_lean(f.get('defaults', {}).get(p_, '')) if p_ in f.get('defaults', {}) else None
            fargs.append(d)
        if any(a is None for a in fargs):
            continue
        unfold, specs, callees = contract_closure(F, mod + ':validate', CONTRACTS_PC, GENERIC_MODULES)
        if not all(F[k]['ok'] for k in unfold) or callees:
            continue
        ns = m['ns']
        today = '(today__ : Date) ' if v['today'] else ''
        bs = ' '.join('(%s : %s)' % (mangle(p) + "'", lean_type(t)) for p, t in zip(v['params'], v['ptypes']))
        first = mangle(v['params'][0]) + "'"
        vt = ' today__' if v['today'] else ''
        opts = ''.join(' ' + mangle(p) + "'" for p in v['params'][1:])
        fcall = lambda x: '%s %s%s' % (f['lean'], x, ''.join(' ' + a for a in fargs))
        imports = {'Gen.' + man['modules'][k.split(':')[0]]['ns'] for k in unfold} | {
            'Gen.' + ns, 'Lemmas.Contracts', 'Props.Auto.C03_' + ns, 'Props.Auto.C02i_' + ns}
        pfx = 'Props.Auto.C04v.%s' % ns
        mv = ', '.join([F[k]['lean'] for k in unfold] + sorted(set(specs)) + ['Py.stateT_pure_apply', 'Py.earlyReturn_eq']
                       + ['-' + x for x in PC_ERASE] + PC_SPECS)
        post = '∃ f, %s = .ok f ∧ %s f = .ok v' % (fcall('v'), c['lean'])
        try:
            gsrc = open(os.path.join(common.LEAN_DIR, 'Gen', ns + '.lean')).read()
        except OSError:
            gsrc = ''
        fm = re.search(r'^def format \(number : Str\) : R Str := do\n  return \(← %s number\)\n\n' % re.escape(c['lean']), gsrc, re.M)
        if fm:
            # format is compact: nothing to evaluate
            src = ('theorem %s.validate_format %s%s (v : Str)\n'
                   '    (h : %s%s %s%s = .ok v) :\n'
                   '    ∃ f, %s = .ok f ∧ %s%s f%s = .ok v := by\n'
                   '  have h1 := Props.Auto.C02i.%s.validate_compact%s %s%s\n'
                   '  rw [h] at h1\n'
                   '  have h2 := Props.Auto.C02i.%s.validate_fixed%s %s%s v h\n'
                   '  refine ⟨v, ?_, h2.1⟩\n'
                   '  unfold %s\n'
                   '  rw [h1.2.1]\n'
                   '  all_goals rfl\n' % (
                       pfx, today, bs, v['lean'], vt, first, opts,
                       fcall('v'), v['lean'], vt, opts,
                       ns, vt, first, opts, ns, vt, first, opts, f['lean']))
            out.append({'name': pfx + '.validate_format', 'ns': ns, 'covers': mod, 'family': 'C04v', 'src': src,
                        'imports': sorted(imports),
                        'prelude': 'open Py Std.Do\nset_option mvcgen.warning false\nset_option linter.unusedVariables false\npy_setup\n' + _db_seal(imports)})
            continue
        src = ('set_option maxHeartbeats %d in\n'
               'theorem %s.format_compact %s%s :\n'
               '    Py.Holds (%s%s %s%s) (fun v => %s) (fun _ => True) := by\n'
               '  refine Py.holds_of_triple _ _ _ ?_\n  mvcgen [%s]\n%s'
               '  try any_goals (exact post⟨fun _ => ⌜True⌝, fun _ => ⌜True⌝⟩)\n'
               '  all_goals (try (mleave; done))\n'
               '  all_goals (clear_jps; py_c04 %s %s)\n\n' % (
                   CONTRACT_HEARTBEATS, pfx, today, bs, v['lean'], vt, first, opts, post, mv,
                   _stuck_retry(man, unfold, mv), f['lean'], c['lean']) +
               'theorem %s.validate_format %s%s (v : Str)\n'
               '    (h : %s%s %s%s = .ok v) :\n'
               '    ∃ f, %s = .ok f ∧ %s%s f%s = .ok v := by\n'
               '  obtain ⟨f, hf, hcf⟩ : %s :=\n'
               '    Py.holds_ok (x := %s%s %s%s) (v := v) (E := fun _ => True) (Q := fun v => %s) h (%s.format_compact%s %s%s)\n'
               '  have h1 := Props.Auto.C02i.%s.validate_compact%s %s%s\n'
               '  rw [h] at h1\n'
               '  have h2 := Props.Auto.C02i.%s.validate_fixed%s %s%s v h\n'
               '  have h4 := Props.Auto.C03.%s.validate_of_compact%s f v%s (hcf.trans h1.2.1.symm)\n'
               '  exact ⟨f, hf, h4.trans h2.1⟩\n' % (
                   pfx, today, bs, v['lean'], vt, first, opts,
                   fcall('v'), v['lean'], vt, opts,
                   post, v['lean'], vt, first, opts, post, pfx, vt, first, opts,
                   ns, vt, first, opts,
                   ns, vt, first, opts,
                   ns, vt, opts))
        out.append({'name': pfx + '.validate_format', 'ns': ns, 'covers': mod, 'family': 'C04v', 'src': src,
                    'imports': sorted(imports),
                    'prelude': 'open Py Std.Do\nset_option mvcgen.warning false\nset_option linter.unusedVariables false\npy_setup\n' + _db_seal(imports)})
    return out


def _validate_gate_facts(src):
    """gates of `def validate` that are stated on the returned variable `number` at top level: Lean propositions
    about `v` (used as the summary of an accepted number in the getter theorems); `v0` stands for validate's argument"""
    m = re.search(r'^def validate .*?(?=^def |^end )', src, re.S | re.M)
    if not m:
        return []
    body = m.group(0)
    if not re.search(r'^  return number\s*$', body, re.M):
        return []
    facts = []
    cm = re.search(r'^  number := \(← (Gen\.[A-Za-z0-9_]+\.compact) number\)\s*$', body, re.M)
    if cm:
        facts.append('%s v0 = .ok v' % cm.group(1))
    if (re.search(r'^  if !\(← Gen\.util\.isdigits number\) then', body, re.M)
            or re.search(r'^  if \(← \(do if !\(← Gen\.util\.isdigits number\) then pure true else', body, re.M)
            or re.search(r'^  if \(!\(← Gen\.util\.isdigits number\) \|\| ', body, re.M)):
        facts.append('isDigitsB v = true')
    lm = re.search(r'^  if \(\(\(number\)\.length : Int\) != \((\d+) : Int\)\) then', body, re.M)
    if lm:
        facts.append('((v).length : Int) = %s' % lm.group(1))
    else:
        lm = re.search(r'^  if !\(\(\(\[([^\]]*)\] : List Int\)\)\.contains \(\(number\)\.length : Int\)\) then', body, re.M)
        if lm:
            ns_ = re.findall(r'\((\d+) : Int\)', lm.group(1))
            if ns_:
                facts.append('(' + ' ∨ '.join('((v).length : Int) = %s' % n for n in ns_) + ')')
    rm = re.search(r'^  if !\(\(\(Re\.match_ (Gen\.[A-Za-z0-9_.]+) number\)\)\.isSome\) then', body, re.M)
    if rm:
        facts.append('(Re.match_ %s v).isSome = true' % rm.group(1))
    return facts


# auxiliary shared-helper theorems (be.nn/be.bis birth dates): the chain works, but the partial-correctness specs of
# `int()`/`monthrange` do not carry the values a later `datetime.date(...)` needs; off until they do
C12G_AUX = False


def fam_c12_getters(man):
    """after validate(v) returned v, every public getter (get_*, info, split; `number` the only required parameter)
    raises nothing but validation errors:  validate v = ok v -> Holds (getter v) True isValidation.
    The getter contract is proved *inside* the post-condition of a partial-correctness run of validate
    (`r = v -> Holds (getter v) ..`), so all gates validate passed are in the context of the getter's conditions."""
    F = man['functions']
    out = []
    for mod, m in sorted(man['modules'].items()):
        v = F.get(mod + ':validate')
        if mod in GENERIC_MODULES or not _is_candidate(F, mod):
            continue
        vunfold, vspecs, vcallees = contract_closure(F, mod + ':validate', CONTRACTS_PC, GENERIC_MODULES)
        if not all(F[k]['ok'] for k in vunfold) or vcallees:
            continue
        ns = m['ns']
        for key, g in sorted(F.items()):
            gmod, gname = key.split(':')
            if gmod != mod or not (gname.startswith('get_') or gname in ('info', 'split')) or not g['ok']:
                continue
            if not g['params'] or g['params'][0] != 'number' or g['ptypes'][0] != 'str':
                continue
            if [p for p in g['params'][1:] if p not in g['defaults']]:
                continue
            gunfold, gspecs, gcallees = contract_closure(F, key, CONTRACTS, GENERIC_MODULES)
            if not all(F[k]['ok'] for k in gunfold) or gcallees:
                continue
            today = '(today__ : Date) ' if (v['today'] or g['today']) else ''
            vbs = ' '.join('(%s : %s)' % (mangle(p) + "'", lean_type(t)) for p, t in zip(v['params'][1:], v['ptypes'][1:]))
            gbs = ' '.join('(g_%s : %s)' % (mangle(p), lean_type(t)) for p, t in zip(g['params'][1:], g['ptypes'][1:]))
            vcall = '%s%s v%s' % (v['lean'], ' today__' if v['today'] else '', ''.join(' ' + mangle(p) + "'" for p in v['params'][1:]))
            gcall = '%s%s v%s' % (g['lean'], ' today__' if g['today'] else '', ''.join(' g_' + mangle(p) for p in g['params'][1:]))
            goal = 'Py.Holds (%s) (fun _ => True) (fun e => e.isValidation = true)' % gcall
            mv_v = ', '.join([F[k]['lean'] for k in vunfold] + sorted(set(vspecs)) + ['Py.stateT_pure_apply', 'Py.earlyReturn_eq']
                             + ['-' + x for x in PC_ERASE] + PC_SPECS)
            mv_g = ', '.join([F[k]['lean'] for k in gunfold] + sorted(set(gspecs)) + ['Py.stateT_pure_apply', 'Py.earlyReturn_eq'])
            imports = {'Gen.' + man['modules'][k.split(':')[0]]['ns'] for k in vunfold + gunfold} | {'Gen.' + ns, 'Lemmas.Contracts'}
            name = 'Props.Auto.C12g.%s.%s_after_validate' % (ns, gname)
            try:
                facts = _validate_gate_facts(open(os.path.join(common.LEAN_DIR, 'Gen', ns + '.lean')).read())
            except OSError:
                facts = []
            header = ('set_option maxHeartbeats %d in\n'
                      'theorem %s %s(v : Str) %s %s\n    (h : %s = .ok v) :\n    %s := by\n' % (
                          CONTRACT_HEARTBEATS, name, today, vbs, gbs, vcall, goal))
            # general variant: the getter contract is proved inside the post-condition of the pc run of validate
            slow = ('have hs : Py.Holds (%s) (fun r => r = v → %s) (fun _ => True) := by\n'
                    '  clear h\n'
                    '  refine Py.holds_of_triple _ _ _ ?_\n%s'
                    '  mvcgen [%s]\n'
                    '  try any_goals (exact post⟨fun _ => ⌜True⌝, fun _ => ⌜True⌝⟩)\n'
                    '  all_goals (try (mleave; done))\n'
                    '  all_goals (clear_jps; intros; py_zeta; (try py_subst_inacc); (try py_fixpoint_rw); (try subst_vars); refine Py.holds_of_triple _ _ _ ?_; mvcgen [%s]\n'
                    '    <;> (try (first | exact post⟨fun _ => ⌜True⌝, fun e => ⌜e.isValidation = true⌝⟩ | (mleave; done))))\n'
                    '  all_goals (clear_jps; py_vc)\n'
                    'exact Py.holds_ok (x := %s) (v := v) (E := fun _ => True) (Q := fun r => r = v → %s) h hs rfl\n' % (
                        vcall, goal, _db_generalize(man, F, sorted(set(vunfold + gunfold), key=(vunfold + gunfold).index), '  '),
                        mv_v, mv_g, vcall, goal))
            # graph variant: only validate itself is unfolded; every function it calls gets the reflexive specification
            # `Py.graph_spec` (the call equation `f args = ok r` lands in the context).  At the return point the getter
            # is either one of those calls (done) or is verified after rewriting its own calls with the equations.
            direct = [c for c in F[mod + ':validate'].get('calls', []) if c in vunfold and c != mod + ':validate']
            gthms, gdecl = [], ''
            for c in direct:
                ar = len(F[c]['params']) + (1 if F[c]['today'] else 0)
                xs = ' '.join('a%d' % i for i in range(ar))
                tn = 'Props.Auto.C12g.%s.%s_graph_%s' % (ns, gname, F[c]['lean'].replace('.', '_'))
                gdecl += ('private theorem %s %s:\n    ⦃⌜True⌝⦄ %s %s ⦃post⟨fun r => ⌜%s %s = .ok r⌝, fun _ => ⌜True⌝⟩⦄ := Py.graph_spec _\n\n' % (
                    tn, ('(%s) ' % xs) if ar else '', F[c]['lean'], xs, F[c]['lean'], xs))
                gthms.append(tn)
            mv_v1 = ', '.join([v['lean']] + sorted(set(vspecs)) + gthms + ['Py.stateT_pure_apply', 'Py.earlyReturn_eq']
                              + ['-' + x for x in PC_ERASE] + PC_SPECS)
            ind = lambda t, n: ''.join((' ' * n + ln + '\n') for ln in t.rstrip('\n').split('\n'))
            # a helper both validate and the getter call (e.g. `_get_birth_date_parts`): an auxiliary theorem verifies the
            # getter under the helper's own path conditions, given the call equation
            aux_name, aux_decl, aux_alt = None, '', ''
            shared = [c for c in direct if c in gunfold and c != key and not c.endswith(':compact')
                      and F[c]['params'] == ['number'] and F[c]['ptypes'] == ['str']]
            ckey = mod + ':compact'
            if C12G_AUX and shared and (ckey not in gunfold or ckey in direct):
                k = shared[0]
                kunfold, kspecs, kcallees = contract_closure(F, k, CONTRACTS_PC, GENERIC_MODULES)
                if all(F[x]['ok'] for x in kunfold) and not kcallees:
                    aux_name = 'Props.Auto.C12g.%s.%s_aux' % (ns, gname)
                    kcall = '%s%s v' % (F[k]['lean'], ' today__' if F[k]['today'] else '')
                    hc = ('(hc : %s v = .ok v) ' % F[ckey]['lean']) if ckey in gunfold else ''
                    mv_k = ', '.join([F[x]['lean'] for x in kunfold] + sorted(set(kspecs)) + ['Py.stateT_pure_apply', 'Py.earlyReturn_eq']
                                     + ['-' + x for x in PC_ERASE] + PC_SPECS)
                    aux_decl = ('set_option maxHeartbeats %d in\n'
                                'private theorem %s %s(v : Str) %s (p) %s(hk : %s = .ok p) :\n    %s := by\n'
                                '  have hs : Py.Holds (%s) (fun p\' => p\' = p → %s) (fun _ => True) := by\n'
                                '    refine Py.holds_of_triple _ _ _ ?_\n%s'
                                '    mvcgen [%s]\n'
                                '    try any_goals (exact post⟨fun _ => ⌜True⌝, fun _ => ⌜True⌝⟩)\n'
                                '    all_goals (try (mleave; done))\n'
                                '    all_goals (clear_jps; intros; py_zeta; (try py_subst_inacc); (try subst_vars); refine Py.holds_of_triple _ _ _ ?_; unfold %s; (try py_rw_calls); %s'
                                'mvcgen [%s]\n'
                                '      <;> (try (first | exact post⟨fun _ => ⌜True⌝, fun e => ⌜e.isValidation = true⌝⟩ | (mleave; done))))\n'
                                '    all_goals (clear_jps; py_vc)\n'
                                '  exact Py.holds_ok (x := %s) (v := p) (E := fun _ => True) (Q := fun p\' => p\' = p → %s) hk hs rfl\n\n' % (
                                    CONTRACT_HEARTBEATS, aux_name, today, gbs, hc, kcall, goal, kcall, goal,
                                    _db_generalize(man, F, kunfold, '    '), mv_k, g['lean'], _db_inline(man, F, gunfold), mv_g,
                                    kcall, goal))
                    nargs = (1 if today else 0) + 1 + len(g['params'][1:]) + 1
                    aux_alt = '    | exact %s %s %s(by assumption)\n' % (aux_name, ' '.join(['_'] * nargs), '(by assumption) ' if hc else '')
            nondirect = [F[x]['lean'] for x in gunfold if x not in direct and x != key]
            nd_unfold = ('(try simp only [%s]); ' % ', '.join(nondirect)) if nondirect else ''
            if direct:
                graph = (('have hs : Py.Holds (%s) (fun r => r = v → %s) (fun _ => True) := by\n'
                         '  clear h\n'
                         '  refine Py.holds_of_triple _ _ _ ?_\n'
                         '  mvcgen [%s]\n' + _stuck_retry(man, [mod + ':validate'], mv_v1).replace('%', '%%') +
                         '  try any_goals (exact post⟨fun _ => ⌜True⌝, fun _ => ⌜True⌝⟩)\n'
                         '  all_goals (try (mleave; done))\n'
                         '  all_goals (clear_jps; intros; py_zeta; (try py_subst_inacc); (try py_fixpoint_rw); (try subst_vars); first\n'
                         '    | (py_rw_calls; exact True.intro)\n' + aux_alt.replace('%', '%%') +
                         '    | (refine Py.holds_of_triple _ _ _ ?_; unfold %s; %spy_gen_fns; (try py_rw_calls); '
                         'mvcgen [%s]\n'
                         '       <;> (try (first | exact post⟨fun _ => ⌜True⌝, fun e => ⌜e.isValidation = true⌝⟩ | (mleave; done)))))\n'
                         '  all_goals (clear_jps; py_vc)\n'
                         'exact Py.holds_ok (x := %s) (v := v) (E := fun _ => True) (Q := fun r => r = v → %s) h hs rfl\n') % (
                             vcall, goal, mv_v1, g['lean'], nd_unfold, mv_g, vcall, goal))
                src = gdecl + aux_decl + header + '  first\n  | (\n' + ind(graph, 4) + '    )\n  | (\n' + ind(slow, 4) + '    )\n'
            else:
                src = header + ind(slow, 2)
            out.append({'name': name, 'ns': ns + '__' + gname, 'covers': mod + ':' + gname, 'family': 'C12g', 'src': src, 'imports': sorted(imports),
                        'prelude': 'open Py Std.Do\nset_option mvcgen.warning false\nset_option linter.unusedVariables false\npy_setup\n' + _db_seal(imports)})
    return out


def _split_top(text, sep):
    """split `text` at the first occurrence of `sep` that is not inside parentheses/brackets"""
    depth = 0
    i = 0
    while i < len(text):
        ch = text[i]
        if ch in '([':
            depth += 1
        elif ch in ')]':
            depth -= 1
        elif depth == 0 and text.startswith(sep, i):
            return text[:i], text[i + len(sep):]
        i += 1
    return None


def _strip_parens(t):
    t = t.strip()
    while t.startswith('(') and t.endswith(')'):
        depth = 0
        ok = True
        for i, ch in enumerate(t):
            if ch == '(':
                depth += 1
            elif ch == ')':
                depth -= 1
                if depth == 0 and i != len(t) - 1:
                    ok = False
                    break
        if not ok:
            break
        t = t[1:-1].strip()
    return t


def _guard_of_line(ln):
    """`if (a != b) then` with one side a generator call: (generator, payload arguments, check expression, monadic)"""
    cond = _strip_parens(ln.strip()[3:-5])
    parts = _split_top(cond, ' != ')
    if not parts:
        return None
    a, b = _strip_parens(parts[0]), _strip_parens(parts[1])
    if b.startswith('← Gen.') and not a.startswith('← Gen.'):
        a, b = b, a
    gm = re.match(r'← (Gen\.[A-Za-z0-9_]+\.[A-Za-z0-9_]+)\s*(.*)$', a, re.S)
    if not gm:
        return None
    gen, args = gm.group(1), gm.group(2).strip()
    if b.startswith('← Py.getItem number '):
        chk, mon = b[2:], True
    elif b.startswith('Py.slice number '):
        chk, mon = b, False
    else:
        return None
    text = args + ' ' + chk
    if '←' in text:
        return None
    idents = set(re.findall(r'(?<![A-Za-z0-9_.])[a-z_][A-Za-z0-9_]*(?![A-Za-z0-9_.])', re.sub(r'\([^()]*: [A-Za-z]+\)', '', text)))
    if idents - {'number', 'none', 'some'}:
        return None
    return gen, args, chk, mon


def _pure_cond(c):
    """a branch condition that only talks about `number` (no monadic bind, no other local)"""
    if '←' in c:
        return False
    idents = set(re.findall(r'(?<![A-Za-z0-9_.])[a-z_][A-Za-z0-9_]*(?![A-Za-z0-9_.])', re.sub(r'\([^()]*: [A-Za-z]+\)', '', c)))
    return not (idents - {'number', 'none', 'some', 'decide', 'true', 'false'})


def _checksum_guards(src):
    """the `if gen(payload) != check: raise InvalidChecksum` statements of `def validate` in a generated file:
    [(generator, payload arguments (Lean text), check expression (Lean text), check is monadic, premise or None)];
    first the top-level ones (premise None), then those nested one level inside an `if … / else if … / else` chain
    whose conditions only talk about `number` (premise = the path condition of the branch)"""
    m = re.search(r'^def validate .*?(?=^def |^end )', src, re.S | re.M)
    if not m:
        return []
    lines = m.group(0).split('\n')
    out, nested = [], []
    for i, ln in enumerate(lines):
        if ln.startswith('  if ((') and ln.rstrip().endswith(') then'):
            if i + 1 >= len(lines) or 'Py.raise .invalidChecksum' not in lines[i + 1]:
                continue
            g = _guard_of_line(ln)
            if g:
                out.append(g + (None,))
        elif ln.startswith('    if ((') and ln.rstrip().endswith(') then'):
            if i + 1 >= len(lines) or 'Py.raise .invalidChecksum' not in lines[i + 1]:
                continue
            g = _guard_of_line(ln)
            if not g:
                continue
            # the chain of branch heads (indent 2) above this line
            j = i - 1
            while j >= 0 and not re.match(r'  (if |else if |else$)', lines[j]):
                j -= 1
            if j < 0:
                continue
            heads = [lines[j]]
            k = j
            while not heads[0].startswith('  if '):
                k -= 1
                while k >= 0 and not re.match(r'  (if |else if |else$)', lines[k]):
                    if re.match(r'  \S', lines[k]):
                        k = -1
                        break
                    k -= 1
                if k < 0:
                    break
                heads.insert(0, lines[k])
            if not heads[0].startswith('  if '):
                continue
            conds = []
            ok = True
            for h in heads:
                hm = re.match(r'  (?:else )?if (.*) then$', h)
                if hm:
                    conds.append(hm.group(1))
                    ok = ok and _pure_cond(hm.group(1))
                else:
                    conds.append(None)
            if not ok:
                continue
            prem = ['¬((%s) = true)' % c for c in conds[:-1]] + (['(%s) = true' % conds[-1]] if conds[-1] else [])
            nested.append(g + (' ∧ '.join(prem),))
    return out + nested


def fam_c05_generators(man):
    """the check-digit generator reproduces the check character(s) of every accepted number (C05): for each top-level
    `if gen(payload(number)) != check(number): raise InvalidChecksum` of validate,
    validate x = ok v -> exists w, gen (payload v) = ok w and check v = ok w.   Partial-correctness run of validate
    in which the generator and `s[i]` get their reflexive specs, so the guard's two sides are in the context."""
    F = man['functions']
    lean2key = {f['lean']: k for k, f in F.items()}
    out = []
    for mod, m in sorted(man['modules'].items()):
        v = F.get(mod + ':validate')
        if mod in GENERIC_MODULES or not _is_candidate(F, mod):
            continue
        ns = m['ns']
        try:
            src = open(os.path.join(common.LEAN_DIR, 'Gen', ns + '.lean')).read()
        except OSError:
            continue
        guards = _checksum_guards(src)
        for idx, (gen, gargs, chk, mon, prem) in enumerate(guards):
            gkey = lean2key.get(gen)
            if not gkey or not F[gkey]['ok']:
                continue
            g = F[gkey]
            unfold, specs, callees = contract_closure(F, mod + ':validate', dict(CONTRACTS_PC, **{gkey: None}), GENERIC_MODULES)
            if not all(F[k]['ok'] for k in unfold) or not all(F[k]['ok'] for k in callees):
                continue
            specs = [x for x in specs if x]
            # validate functions of other modules: only their call equation is recorded (partial correctness)
            cdecl = ''
            for ci, ck in enumerate(sorted(set(callees))):
                ar = len(F[ck]['params']) + (1 if F[ck]['today'] else 0)
                xs = ' '.join('a%d' % i for i in range(ar))
                cn = 'Props.Auto.C05g.%s.callee_%d_%d' % (ns, idx, ci)
                cdecl += ('private theorem %s %s:\n    ⦃⌜True⌝⦄ %s %s ⦃post⟨fun r => ⌜%s %s = .ok r⌝, fun _ => ⌜True⌝⟩⦄ := Py.graph_spec _\n\n' % (
                    cn, ('(%s) ' % xs) if ar else '', F[ck]['lean'], xs, F[ck]['lean'], xs))
                specs.append(cn)
            today = '(today__ : Date) ' if (v['today'] or g['today']) else ''
            bs = ' '.join('(%s : %s)' % (mangle(p) + "'", lean_type(t)) for p, t in zip(v['params'], v['ptypes']))
            vcall = '%s%s%s' % (v['lean'], ' today__' if v['today'] else '', ''.join(' ' + mangle(p) + "'" for p in v['params']))
            sub = lambda t: re.sub(r'(?<![A-Za-z0-9_.])number(?![A-Za-z0-9_.])', 'v', t)
            gcall = '%s%s %s' % (gen, ' today__' if g['today'] else '', sub(gargs))
            stmt = ('∃ w, %s = .ok w ∧ %s = .ok w' % (gcall, sub(chk))) if mon else ('%s = .ok (%s)' % (gcall, sub(chk)))
            if prem:
                stmt = '%s → %s' % (sub(prem), stmt)
            gbs = ('(today__ : Date) ' if g['today'] else '') + ' '.join('(a%d : %s)' % (i, lean_type(t)) for i, t in enumerate(g['ptypes']))
            gapp = gen + (' today__' if g['today'] else '') + ''.join(' a%d' % i for i in range(len(g['ptypes'])))
            pfx = 'Props.Auto.C05g.%s' % ns
            gname = '%s.graph_%d' % (pfx, idx)
            mv = ', '.join([F[k]['lean'] for k in unfold] + sorted(set(specs)) + [gname, 'Py.stateT_pure_apply', 'Py.earlyReturn_eq']
                           + ['-' + x for x in PC_ERASE] + [x for x in PC_SPECS if x != 'Py.getItem_pc'] + ['Py.getItem_graph'])
            imports = {'Gen.' + man['modules'][k.split(':')[0]]['ns'] for k in unfold + list(callees)} | {'Gen.' + ns, 'Gen.' + man['modules'][gkey.split(':')[0]]['ns'], 'Lemmas.Contracts'}
            name = '%s.generator_agrees_%d' % (pfx, idx)
            src_t = (cdecl + 'theorem %s %s :\n    ⦃⌜True⌝⦄ %s ⦃post⟨fun r => ⌜%s = .ok r⌝, fun _ => ⌜True⌝⟩⦄ :=\n  Py.pc_triple (fun _ h => h)\n\n' % (
                         gname, gbs, gapp, gapp) +
                     'set_option maxHeartbeats %d in\n'
                     'theorem %s %s%s (v : Str)\n    (h : %s = .ok v) :\n    %s := by\n'
                     '  have hs : Py.Holds (%s) (fun v => %s) (fun _ => True) := by\n'
                     '    clear h\n'
                     '    refine Py.holds_of_triple _ _ _ ?_\n    mvcgen [%s]\n%s'
                     '    try any_goals (exact post⟨fun _ => ⌜True⌝, fun _ => ⌜True⌝⟩)\n'
                     '    all_goals (try (mleave; done))\n'
                     '    all_goals (clear_jps; py_c05)\n'
                     '  rw [h] at hs\n  exact hs\n' % (CONTRACT_HEARTBEATS, name, today, bs, vcall, stmt, vcall, stmt, mv,
                                                       _stuck_retry(man, unfold, mv, '    ')))
            out.append({'name': name, 'ns': '%s__%d' % (ns, idx), 'covers': '%s:%s:%d' % (mod, gen.split('.')[-1], idx), 'family': 'C05g',
                        'src': src_t, 'imports': sorted(imports),
                        'prelude': 'open Py Std.Do\nset_option mvcgen.warning false\nset_option linter.unusedVariables false\npy_setup\n' + _db_seal(imports)})
    return out


def fam_c01_nonempty(man):
    """... and what it returns is a non-empty string (so bool(validate(x)) is True exactly when it returns)"""
    return _contract(man, 'C01n', 'v ≠ []', 'validate_nonempty')


FAMILIES = {'C15a': fam_c15_ascii, 'C02f': fam_c02_fixed, 'C02i': fam_c02_idem, 'C12g': fam_c12_getters, 'C05g': fam_c05_generators, 'C03': fam_c03, 'C04': fam_c04_format, 'C04v': fam_c04_vformat, 'C01v': fam_c01_isvalid, 'C01c': fam_c01_contract, 'C01n': fam_c01_nonempty}
FAMILY_PROPERTY = {'C15a': 'C15', 'C02f': 'C02', 'C02i': 'C02', 'C12g': 'C12', 'C05g': 'C05', 'C03': 'C03', 'C04': 'C04', 'C04v': 'C04', 'C01v': 'C01', 'C01c': 'C01', 'C01n': 'C01'}


def emit(all_candidates=False, only_family=None):
    man = json.load(open(os.path.join(common.LEAN_DIR, 'Gen', 'manifest.json')))
    auto = os.path.join(common.LEAN_DIR, 'Props', 'Auto')
    os.makedirs(auto, exist_ok=True)
    keep = set()
    roots = []
    pending = []
    summary = {}
    for fam, fn in FAMILIES.items():
        if only_family and fam != only_family:
            continue
        cands = fn(man)
        wanted = None
        if not all_candidates:
            try:
                obl = json.load(open(os.path.join(common.VERIF, 'obligations', FAMILY_PROPERTY[fam] + '.json')))
                wanted = {t['name'] for t in obl.get('theorems', []) if t.get('generated') and t.get('family', fam) == fam}
            except (OSError, ValueError):
                wanted = set()
        by_file = {}
        for c in cands:
            if wanted is not None and c['name'] not in wanted:
                continue
            by_file.setdefault('%s_%s' % (fam, c['ns']), []).append(c)
        for fname, items in by_file.items():
            imports = sorted({i for c in items for i in c['imports']})
            pending.append((fam, fname, items, imports))
            roots.append('Props.Auto.' + fname)
        summary[fam] = {'candidates': len(cands), 'emitted': sum(len(v) for v in by_file.values())}
        if all_candidates:
            json.dump([{k: v for k, v in c.items() if k != 'src'} | {'module': 'Props.Auto.%s_%s' % (fam, c['ns'])} for c in cands],
                      open(os.path.join(common.WORK, 'candidates-%s.json' % fam), 'w'), indent=0)
    # Files about the same Python module are chained by imports (normal mode only): Lean realises auxiliary
    # declarations of the generated definitions (`Gen.m.validate.match_1.congr_eq_1...`) lazily in whichever module
    # first needs them, and two modules that both did cannot be imported together (umbrella, axiom audit).
    chain = not all_candidates and not only_family
    extra = {}
    if chain:
        groups = {}
        for fam, fname, items, imports in pending:
            groups.setdefault((items[0].get('covers') or items[0]['ns']).split(':')[0], []).append((fname, imports))
        for key, files in groups.items():
            names = [f for f, _ in files]
            deps = {f: [n for n in names if n != f and 'Props.Auto.' + n in imp] for f, imp in files}
            order, seen = [], set()

            def visit(f):
                if f in seen:
                    return
                seen.add(f)
                for d in deps[f]:
                    visit(d)
                order.append(f)
            for f in names:
                visit(f)
            for a, b in zip(order, order[1:]):
                extra[b] = 'Props.Auto.' + a
    for fam, fname, items, imports in pending:
        if fname in extra and extra[fname] not in imports:
            imports = sorted(set(imports) | {extra[fname]})
        text = ''.join('import %s\n' % i for i in imports) + items[0]['prelude'] + '\n' + '\n'.join(c['src'] for c in items)
        path = os.path.join(auto, fname + '.lean')
        keep.add(os.path.abspath(path))
        old = open(path).read() if os.path.exists(path) else None
        if old != text:
            with open(path, 'w') as f:
                f.write(text)
    if not only_family:
        for fn in os.listdir(auto):
            p = os.path.abspath(os.path.join(auto, fn))
            if fn.endswith('.lean') and p not in keep:
                os.remove(p)
    root = ''.join('import %s\n' % r for r in sorted(roots))
    rp = os.path.join(common.LEAN_DIR, 'Props', 'Auto.lean')
    if not os.path.exists(rp) or open(rp).read() != root:
        with open(rp, 'w') as f:
            f.write(root)
    return summary


if __name__ == '__main__':
    os.makedirs(common.WORK, exist_ok=True)
    print(json.dumps(emit(all_candidates='--all' in sys.argv)))
