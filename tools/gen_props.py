"""Generate the per-module theorem files lean/Props/Auto/*.lean from Gen/manifest.json.

Families (one theorem statement scheme each, stated on the *generated* definitions):
  C03  validate_of_compact : compact x = compact y -> validate x = validate y
  C01  validate_contract   : validate never raises anything but a ValidationError        (mvcgen + py_vc)
       is_valid_contract   : is_valid never raises and equals "validate returned"
By default only the obligations recorded in /verif/obligations/<prop>.json are emitted (what checks on the
clean tree); `--all` emits every candidate (used by tools/discover.py to (re)build the obligation lists).
"""
import json
import os
import sys

sys.path.insert(0, os.path.dirname(os.path.abspath(__file__)))
import common  # noqa: E402
sys.path.insert(0, os.path.join(common.VERIF, 'tools', 'py2lean'))
from pytypes import lean_type  # noqa: E402
from translate import mangle  # noqa: E402

C03_EXCLUDED = {'stdnum.isan', 'stdnum.meid', 'stdnum.us.ssn', 'stdnum.us.itin', 'stdnum.us.ein', 'stdnum.us.atin', 'stdnum.us.tin'}


def binder(f, names=None):
    ps = []
    if f['today']:
        ps.append('(today__ : Date)')
    for p, t in zip(f['params'], f['ptypes']):
        ps.append('(%s : %s)' % (mangle(p) + "'", lean_type(t)))
    return ps


def args_of(f, first=None):
    out = []
    if f['today']:
        out.append('today__')
    for i, p in enumerate(f['params']):
        out.append(first if (i == 0 and first) else mangle(p) + "'")
    return ' '.join(out)


def closure(F, key, skip_util=True):
    seen, st = [], [key]
    while st:
        k = st.pop()
        if k in seen or k not in F:
            continue
        seen.append(k)
        for c in F[k].get('calls', []):
            if skip_util and c.startswith('stdnum.util:'):
                continue
            st.append(c)
    return seen


def fam_c03(man):
    F = man['functions']
    out = []
    for mod, m in sorted(man['modules'].items()):
        v, c = F.get(mod + ':validate'), F.get(mod + ':compact')
        if not v or not c or not v['ok'] or not c['ok'] or mod in C03_EXCLUDED:
            continue
        if not v['params'] or v['ptypes'][0] != 'str' or c['ptypes'][:1] != ['str']:
            continue
        ns = m['ns']
        vb = binder(v)[(1 if v['today'] else 0) + 1:]
        today = '(today__ : Date) ' if (v['today'] or c['today']) else ''
        copts = ' '.join('(%s : %s)' % ('c_' + mangle(p), lean_type(t)) for p, t in zip(c['params'][1:], c['ptypes'][1:]))
        cargs = ''.join(' c_' + mangle(p) for p in c['params'][1:])
        ct = ' today__' if c['today'] else ''
        hyp = '%s%s x%s = %s%s y%s' % (c['lean'], ct, cargs, c['lean'], ct, cargs)
        if copts:
            hyp = '∀ %s, %s' % (copts, hyp)
        vt = ' today__' if v['today'] else ''
        vargs = ''.join(' ' + mangle(p) + "'" for p in v['params'][1:])
        name = 'Props.Auto.C03.%s.validate_of_compact' % ns
        src = ('theorem %s %s(x y : Str) %s\n    (h : %s) :\n    %s%s x%s = %s%s y%s := by\n  unfold %s\n  simp only [h]\n' % (
            name, today, ' '.join(vb), hyp, v['lean'], vt, vargs, v['lean'], vt, vargs, v['lean']))
        out.append({'name': name, 'ns': ns, 'covers': mod, 'family': 'C03', 'src': src, 'imports': ['Gen.' + ns], 'prelude': 'open Py\n'})
    return out


def fam_c04_format(man):
    """format() depends only on the compact form: compact x = compact y -> format x = format y
    (so the formatted text does not depend on how the number was written; with compact (validate x) = validate x
    this gives format(x) = format(validate(x)))"""
    F = man['functions']
    out = []
    for mod, m in sorted(man['modules'].items()):
        v, c = F.get(mod + ':format'), F.get(mod + ':compact')
        if not v or not c or not v['ok'] or not c['ok']:
            continue
        if not v['params'] or v['ptypes'][0] != 'str' or c['ptypes'][:1] != ['str']:
            continue
        ns = m['ns']
        vb = ['(%s : %s)' % (mangle(p) + "'", lean_type(t)) for p, t in zip(v['params'][1:], v['ptypes'][1:])]
        today = '(today__ : Date) ' if (v['today'] or c['today']) else ''
        copts = ' '.join('(%s : %s)' % ('c_' + mangle(p), lean_type(t)) for p, t in zip(c['params'][1:], c['ptypes'][1:]))
        cargs = ''.join(' c_' + mangle(p) for p in c['params'][1:])
        ct = ' today__' if c['today'] else ''
        hyp = '%s%s x%s = %s%s y%s' % (c['lean'], ct, cargs, c['lean'], ct, cargs)
        if copts:
            hyp = '∀ %s, %s' % (copts, hyp)
        vt = ' today__' if v['today'] else ''
        vargs = ''.join(' ' + mangle(p) + "'" for p in v['params'][1:])
        name = 'Props.Auto.C04.%s.format_of_compact' % ns
        src = ('theorem %s %s(x y : Str) %s\n    (h : %s) :\n    %s%s x%s = %s%s y%s := by\n  unfold %s\n  simp only [h]\n' % (
            name, today, ' '.join(vb), hyp, v['lean'], vt, vargs, v['lean'], vt, vargs, v['lean']))
        out.append({'name': name, 'ns': ns, 'covers': mod, 'family': 'C04', 'src': src, 'imports': ['Gen.' + ns], 'prelude': 'open Py\n'})
    return out


def fam_c01_isvalid(man):
    """is_valid(x, o) = (validate(x, o) returned a non-empty value), and it raises only what validate raises
    outside the ValidationError hierarchy"""
    F = man['functions']
    out = []
    for mod, m in sorted(man['modules'].items()):
        v, iv = F.get(mod + ':validate'), F.get(mod + ':is_valid')
        if not v or not iv or not v['ok'] or not iv['ok'] or v['rtype'] != 'str' or iv['rtype'] != 'bool':
            continue
        if iv['params'] != v['params'] or iv['ptypes'] != v['ptypes']:
            continue
        ns = m['ns']
        today = '(today__ : Date) ' if (v['today'] or iv['today']) else ''
        bs = ' '.join('(%s : %s)' % (mangle(p) + "'", lean_type(t)) for p, t in zip(v['params'], v['ptypes']))
        args = ''.join(' ' + mangle(p) + "'" for p in v['params'])
        name = 'Props.Auto.C01v.%s.is_valid_eq' % ns
        src = ('theorem %s %s%s :\n    %s%s%s =\n    (match %s%s%s with\n     | .ok v => .ok (!v.isEmpty)\n'
               '     | .error e => if e.isValidation then .ok false else .error e) := by\n'
               '  unfold %s\n  cases h : %s%s%s with\n  | ok v => rfl\n  | error e => cases e <;> rfl\n' % (
                   name, today, bs, iv['lean'], ' today__' if iv['today'] else '', args,
                   v['lean'], ' today__' if v['today'] else '', args, iv['lean'], v['lean'], ' today__' if v['today'] else '', args))
        out.append({'name': name, 'ns': ns, 'covers': mod, 'family': 'C01v', 'src': src, 'imports': ['Gen.' + ns], 'prelude': 'open Py\n'})
    return out


VC_SCRIPT = ('  try any_goals (exact ⇓ _ => ⌜True⌝)\n  all_goals (try (mleave; done))\n'
             '  all_goals (clear_jps; py_vc)\n')

# hand-proved triples (lean/Lemmas/Contracts.lean) used instead of unfolding the function
CONTRACTS = {
    'stdnum.luhn:validate': 'Py.Contracts.luhn_validate_spec',
    'stdnum.luhn:checksum': 'Py.Contracts.luhn_checksum_spec',
    'stdnum.luhn:calc_check_digit': 'Py.Contracts.luhn_calc_check_digit_spec',
    'stdnum.verhoeff:validate': 'Py.Contracts.verhoeff_validate_spec',
    'stdnum.iso7064.mod_11_10:validate': 'Py.Contracts.mod_11_10_validate_spec',
    'stdnum.iso7064.mod_37_2:validate': 'Py.Contracts.mod_37_2_validate_spec',
    'stdnum.iso7064.mod_37_36:validate': 'Py.Contracts.mod_37_36_validate_spec',
    'stdnum.iso7064.mod_97_10:validate': 'Py.Contracts.mod_97_10_validate_spec',
    'stdnum.iso7064.mod_97_10:checksum': 'Py.Contracts.mod_97_10_checksum_spec',
    'stdnum.iso7064.mod_97_10:calc_check_digits': 'Py.Contracts.mod_97_10_calc_check_digits_spec',
    'stdnum.iso7064.mod_97_10:_to_base10': 'Py.Contracts.to_base10_spec',
}


def _is_candidate(F, mod):
    v = F.get(mod + ':validate')
    return bool(v and v['ok'] and v['rtype'] == 'str' and v['params'] and v['ptypes'][0] == 'str')


def contract_closure(F, key):
    """functions to unfold, hand-proved contracts to use, and `validate` functions of other modules whose own
    generated contract is used as a spec (so nothing is proved twice and proofs stay small)"""
    mod = key.split(':')[0]
    unfold, specs, callees = [], [], []
    seen, st = set(), [key]
    while st:
        k = st.pop()
        if k in seen or k not in F:
            continue
        seen.add(k)
        if k in CONTRACTS:
            specs.append(CONTRACTS[k])
            continue
        if k != key and k.endswith(':validate') and k.split(':')[0] != mod and _is_candidate(F, k.split(':')[0]):
            callees.append(k)
            continue
        unfold.append(k)
        for c in F[k].get('calls', []):
            if c.startswith('stdnum.util:'):
                continue
            st.append(c)
    return unfold, specs, callees


def _contract(man, fam, post, post_name):
    F = man['functions']
    out = []
    cand_ok = {}

    def full_ok(mod, depth=0):
        """every function that has to be unfolded (here or in a callee's own proof) is translated"""
        if mod not in cand_ok:
            cand_ok[mod] = False
            unfold, _, callees = contract_closure(F, mod + ':validate')
            cand_ok[mod] = all(F[c]['ok'] for c in unfold) and all(full_ok(c.split(':')[0]) for c in callees)
        return cand_ok[mod]

    for mod, m in sorted(man['modules'].items()):
        if not _is_candidate(F, mod) or not full_ok(mod):
            continue
        v = F[mod + ':validate']
        unfold, specs, callees = contract_closure(F, mod + ':validate')
        ns = m['ns']
        today = '(today__ : Date) ' if v['today'] else ''
        bs = ' '.join('(%s : %s)' % (mangle(p) + "'", lean_type(t)) for p, t in zip(v['params'], v['ptypes']))
        args = (' today__' if v['today'] else '') + ''.join(' ' + mangle(p) + "'" for p in v['params'])
        imports = {'Gen.' + man['modules'][c.split(':')[0]]['ns'] for c in unfold + callees} | {'Gen.' + ns, 'Lemmas.Contracts'}
        pre = ''
        for c in sorted(callees):
            cv = F[c]
            cns = man['modules'][c.split(':')[0]]['ns']
            imports.add('Props.Auto.%s_%s' % (fam, cns))
            cbs = ('(today__ : Date) ' if cv['today'] else '') + ' '.join(
                '(%s : %s)' % (mangle(p) + "'", lean_type(t)) for p, t in zip(cv['params'], cv['ptypes']))
            cargs = (' today__' if cv['today'] else '') + ''.join(' ' + mangle(p) + "'" for p in cv['params'])
            sname = 'Props.Auto.%s.%s.spec_%s_validate' % (fam, ns, cns)
            pre += ('theorem %s %s :\n    ⦃⌜True⌝⦄ %s%s ⦃post⟨fun v => ⌜%s⌝, fun e => ⌜e.isValidation = true⌝⟩⦄ :=\n'
                    '  Py.triple_of_holds _ _ _ (Props.Auto.%s.%s.%s%s)\n\n' % (
                        sname, cbs, cv['lean'], cargs, post, fam, cns, post_name, cargs))
            specs = specs + [sname]
        name = 'Props.Auto.%s.%s.%s' % (fam, ns, post_name)
        src = pre + ('theorem %s %s%s :\n    Py.Holds (%s%s) (fun v => %s) (fun e => e.isValidation = true) := by\n'
                     '  apply Py.holds_of_triple\n  mvcgen [%s]\n%s' % (
                         name, today, bs, v['lean'], args, post,
                         ', '.join([F[c]['lean'] for c in unfold] + sorted(set(specs)) + ['Py.stateT_pure_apply', 'Py.earlyReturn_eq']), VC_SCRIPT))
        out.append({'name': name, 'ns': ns, 'covers': mod, 'family': fam, 'src': src, 'imports': sorted(imports),
                    'prelude': 'open Py Std.Do\nset_option mvcgen.warning false\npy_setup\n'})
    return out


def fam_c01_contract(man):
    """validate(x, o) raises nothing but ValidationError subclasses (all strings, all options, all dates)"""
    return _contract(man, 'C01c', 'True', 'validate_contract')


def fam_c01_nonempty(man):
    """... and what it returns is a non-empty string (so bool(validate(x)) is True exactly when it returns)"""
    return _contract(man, 'C01n', 'v ≠ []', 'validate_nonempty')


FAMILIES = {'C03': fam_c03, 'C04': fam_c04_format, 'C01v': fam_c01_isvalid, 'C01c': fam_c01_contract, 'C01n': fam_c01_nonempty}
FAMILY_PROPERTY = {'C03': 'C03', 'C04': 'C04', 'C01v': 'C01', 'C01c': 'C01', 'C01n': 'C01'}


def emit(all_candidates=False, only_family=None):
    man = json.load(open(os.path.join(common.LEAN_DIR, 'Gen', 'manifest.json')))
    auto = os.path.join(common.LEAN_DIR, 'Props', 'Auto')
    os.makedirs(auto, exist_ok=True)
    keep = set()
    roots = []
    summary = {}
    for fam, fn in FAMILIES.items():
        if only_family and fam != only_family:
            continue
        cands = fn(man)
        wanted = None
        if not all_candidates:
            try:
                obl = json.load(open(os.path.join(common.VERIF, 'obligations', FAMILY_PROPERTY[fam] + '.json')))
                wanted = {t['name'] for t in obl.get('theorems', []) if t.get('generated') and t.get('family', fam) == fam}
            except (OSError, ValueError):
                wanted = set()
        by_file = {}
        for c in cands:
            if wanted is not None and c['name'] not in wanted:
                continue
            by_file.setdefault('%s_%s' % (fam, c['ns']), []).append(c)
        for fname, items in by_file.items():
            imports = sorted({i for c in items for i in c['imports']})
            text = ''.join('import %s\n' % i for i in imports) + items[0]['prelude'] + '\n' + '\n'.join(c['src'] for c in items)
            path = os.path.join(auto, fname + '.lean')
            keep.add(os.path.abspath(path))
            old = open(path).read() if os.path.exists(path) else None
            if old != text:
                with open(path, 'w') as f:
                    f.write(text)
            roots.append('Props.Auto.' + fname)
        summary[fam] = {'candidates': len(cands), 'emitted': sum(len(v) for v in by_file.values())}
        if all_candidates:
            json.dump([{k: v for k, v in c.items() if k != 'src'} | {'module': 'Props.Auto.%s_%s' % (fam, c['ns'])} for c in cands],
                      open(os.path.join(common.WORK, 'candidates-%s.json' % fam), 'w'), indent=0)
    if not only_family:
        for fn in os.listdir(auto):
            p = os.path.abspath(os.path.join(auto, fn))
            if fn.endswith('.lean') and p not in keep:
                os.remove(p)
    root = ''.join('import %s\n' % r for r in sorted(roots))
    rp = os.path.join(common.LEAN_DIR, 'Props', 'Auto.lean')
    if not os.path.exists(rp) or open(rp).read() != root:
        with open(rp, 'w') as f:
            f.write(root)
    return summary


if __name__ == '__main__':
    os.makedirs(common.WORK, exist_ok=True)
    print(json.dumps(emit(all_candidates='--all' in sys.argv)))
