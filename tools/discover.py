"""(Re)build the lists of generated obligations: emit every candidate theorem, build, and record the ones
that check on the current (clean) tree in /verif/obligations/<family>.json.

Run by the integrator on the unchanged tree only; checks never call this (they only re-check what is listed).
usage: discover.py C03 [C01 ...]
"""
import json
import os
import re
import subprocess
import sys

sys.path.insert(0, os.path.dirname(os.path.abspath(__file__)))
import common  # noqa: E402
import gen_props  # noqa: E402
import prepare  # noqa: E402


def main(fams):
    os.makedirs(common.WORK, exist_ok=True)
    subprocess.run(['/venv/bin/python', os.path.join(common.VERIF, 'tools', 'py2lean', 'py2lean.py'), '--quiet'], check=True)
    for fam in fams:
        gen_props.emit(all_candidates=True, only_family=fam)
        cands = json.load(open(os.path.join(common.WORK, 'candidates-%s.json' % fam)))
        mods = sorted({c['module'] for c in cands})
        rc, out, secs = prepare.run(['lake', 'build'] + mods, cwd=common.LEAN_DIR, timeout=7200)
        failed, errors = prepare.parse_lake(out)
        failed = set(failed)
        errs_by_mod = {}
        for e in errors:
            errs_by_mod.setdefault(prepare.module_of_file(e['file']), []).append(e['msg'][:160])
        def built(mod):
            return os.path.exists(os.path.join(common.LEAN_DIR, '.lake', 'build', 'lib', 'lean', mod.replace('.', '/') + '.olean'))
        ok = [c for c in cands if c['module'] not in failed and built(c['module'])]
        # a candidate that imports another candidate of this family (callee theorem used as a spec) is proved only
        # if that one is: lake does not rebuild it when the import failed, and an old object file may still be there
        while True:
            okmods = {c['module'] for c in ok}
            fam_mods = {c['module'] for c in cands}
            keep = [c for c in ok if all(i in okmods or i not in fam_mods for i in c['imports'])]
            if len(keep) == len(ok):
                break
            ok = keep
        bad = [c for c in cands if c not in ok]
        prop = gen_props.FAMILY_PROPERTY[fam]
        path = os.path.join(common.VERIF, 'obligations', prop + '.json')
        try:
            obl = json.load(open(path))
        except (OSError, ValueError):
            obl = {'property': prop, 'theorems': []}
        keepers = [t for t in obl.get('theorems', []) if not (t.get('generated') and t.get('family', fam) == fam)]
        obl['theorems'] = keepers + [{'name': c['name'], 'module': c['module'], 'covers': c['covers'], 'generated': True, 'family': fam} for c in ok]
        obl.setdefault('uncovered_generated', {})
        if not isinstance(obl['uncovered_generated'], dict):
            obl['uncovered_generated'] = {}
        obl['uncovered_generated'][fam] = sorted(c['covers'] for c in bad)
        common.write_json(path, obl)
        print('%s: %d candidates, %d proved, %d failed (%.0fs)' % (fam, len(cands), len(ok), len(bad), secs))
        reasons = {}
        for c in bad:
            for m in errs_by_mod.get(c['module'], ['?'])[:1]:
                reasons.setdefault(re.sub(r'\s+', ' ', m)[:110], []).append(c['covers'])
        for r, ms in sorted(reasons.items(), key=lambda kv: -len(kv[1]))[:25]:
            print('  %3d %s   e.g. %s' % (len(ms), r, ms[:3]))
    gen_props.emit(all_candidates=False)


if __name__ == '__main__':
    main(sys.argv[1:])
