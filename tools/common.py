"""Shared helpers for the harness, the search engines and bin/check.

Everything here runs against /repo's current working tree (imported in-process; /venv has stdnum
installed in editable mode, and REPO is put first on sys.path anyway).
"""
import contextlib
import datetime
import glob
import hashlib
import importlib
import inspect
import json
import os
import random
import re
import sys
import time
import warnings

VERIF = os.path.dirname(os.path.dirname(os.path.abspath(__file__)))
REPO = os.environ.get('VERIF_REPO', '/repo')
if REPO not in sys.path:
    sys.path.insert(0, REPO)
warnings.simplefilter('ignore')

LEAN_DIR = os.path.join(VERIF, 'lean')
WORK = os.path.join(VERIF, 'work')


def seed():
    try:
        return int(os.environ.get('VERIF_SEED', '1'))
    except ValueError:
        return 1


def tier():
    t = os.environ.get('VERIF_TIER', 'quick')
    return t if t in ('quick', 'thorough') else 'quick'


# ----------------------------------------------------------------------------- modules

_modules = None


def number_modules():
    """all discoverable number modules of the current tree, by name, sorted"""
    global _modules
    if _modules is None:
        _modules = discover_modules()
    return _modules


def discover_modules():
    """number modules found by walking the package ourselves (independent of util.get_number_modules, which
    is itself code under test)"""
    import pkgutil
    import stdnum
    out = []
    with warnings.catch_warnings():
        warnings.simplefilter('ignore')
        for _l, name, _p in pkgutil.walk_packages(stdnum.__path__, 'stdnum.'):
            try:
                mod = importlib.import_module(name)
            except Exception:
                continue
            if hasattr(mod, 'validate') and mod.__name__ == name:
                out.append(mod)
    return sorted(out, key=lambda m: m.__name__)


def module(name):
    return importlib.import_module(name)


GENERIC_MODULES = [
    'stdnum.luhn', 'stdnum.verhoeff', 'stdnum.damm', 'stdnum.iso7064.mod_11_2', 'stdnum.iso7064.mod_37_2',
    'stdnum.iso7064.mod_11_10', 'stdnum.iso7064.mod_37_36', 'stdnum.iso7064.mod_97_10']

CLOCK_MODULES = None


def tree_hash():
    h = hashlib.sha256()
    for path in sorted(glob.glob(os.path.join(REPO, 'stdnum', '**', '*'), recursive=True) +
                       glob.glob(os.path.join(REPO, 'tests', '*')) +
                       glob.glob(os.path.join(REPO, 'online_check', '*'))):
        if os.path.isfile(path) and not path.endswith('.pyc'):
            h.update(path.encode())
            with open(path, 'rb') as f:
                h.update(f.read())
    return h.hexdigest()


# ----------------------------------------------------------------------------- frozen clock

class _AnyDateMeta(type):
    """isinstance(x, frozen class) must accept the real datetime objects too (gs1_128 tests
    isinstance(value, datetime.date) on values made by strptime)"""
    def __instancecheck__(cls, inst):
        return isinstance(inst, cls.__mro__[1])


class _FrozenDate(datetime.date, metaclass=_AnyDateMeta):
    _today = datetime.date(2026, 9, 26)

    @classmethod
    def today(cls):
        return datetime.date(cls._today.year, cls._today.month, cls._today.day)


class _FrozenDateTime(datetime.datetime, metaclass=_AnyDateMeta):
    @classmethod
    def now(cls, tz=None):
        t = _FrozenDate._today
        return datetime.datetime(t.year, t.month, t.day, 12, 0, 0)

    @classmethod
    def today(cls):
        return cls.now()


class _FrozenModule:
    """stands in for the `datetime` module inside a stdnum module"""
    date = _FrozenDate
    timedelta = datetime.timedelta
    time = datetime.time
    MINYEAR = datetime.MINYEAR
    MAXYEAR = datetime.MAXYEAR


_FrozenModule.datetime = _FrozenDateTime


@contextlib.contextmanager
def frozen_today(today):
    """make every stdnum module that refers to `datetime` see `today` as the current date.
    No change to /repo: the name `datetime` is rebound in the already imported modules."""
    _FrozenDate._today = today
    patched = []
    for name, mod in list(sys.modules.items()):
        if name.startswith('stdnum') and mod is not None:
            d = getattr(mod, 'datetime', None)
            if d is datetime:
                mod.datetime = _FrozenModule
                patched.append((mod, 'datetime', datetime))
            elif d is datetime.datetime:
                mod.datetime = _FrozenDateTime
                patched.append((mod, 'datetime', datetime.datetime))
            d = getattr(mod, 'date', None)
            if d is datetime.date:
                mod.date = _FrozenDate
                patched.append((mod, 'date', datetime.date))
    try:
        yield
    finally:
        for mod, attr, orig in patched:
            setattr(mod, attr, orig)


# ----------------------------------------------------------------------------- corpus

_LIT = re.compile(r"'([^'\n\\]{1,80})'|\"([^\"\n\\]{1,80})\"")


def _candidates_for(mod, _nested=False):
    """string literals that may be numbers of this module: its own source and its test file"""
    out = []
    seen = set()
    paths = [mod.__file__]
    short = mod.__name__.replace('stdnum.', '', 1)
    tname = 'test_' + short.replace('.', '_').replace('in__', 'in_').replace('is__', 'is_') + '.doctest'
    tpath = os.path.join(REPO, 'tests', tname)
    if os.path.exists(tpath):
        paths.append(tpath)
    try:    # inputs exhibited by proofs and minimised past failures (committed; never written at run time)
        with open(os.path.join(VERIF, 'tools', 'search', 'proof_witnesses.json')) as f:
            for s in json.load(f).get(mod.__name__, []):
                if s not in seen:
                    seen.add(s)
                    out.append(s)
    except (OSError, ValueError):
        pass
    if hasattr(mod, '_get_cc_module') and not _nested:
        # a wrapper that dispatches on a country prefix: the samples of every constituent, with and without the
        # prefix (the wrapper's own documentation names only a few countries)
        for cc in sorted(os.listdir(os.path.join(REPO, 'stdnum'))):
            if not os.path.isfile(os.path.join(REPO, 'stdnum', cc, '__init__.py')):
                continue
            for kind in ('vat', 'iban'):
                try:
                    sub = getattr(importlib.import_module('stdnum.%s' % cc), kind, None)
                    if sub is None:
                        sub = importlib.import_module('stdnum.%s.%s' % (cc, kind))
                except Exception:   # noqa: B902
                    continue
                n = 0
                for x in _candidates_for(sub, _nested=True):
                    try:
                        ok = sub.is_valid(x) is True
                    except Exception:   # noqa: B902
                        ok = False
                    if not ok:
                        continue
                    n += 1
                    if n > 3:
                        break
                    for y in (x, cc.rstrip('_').upper() + x):
                        if y not in seen:
                            seen.add(y)
                            out.append(y)
    for path in paths:
        try:
            src = open(path, encoding='utf-8').read()
        except OSError:
            continue
        for m in _LIT.finditer(src):
            s = m.group(1) if m.group(1) is not None else m.group(2)
            if s not in seen:
                seen.add(s)
                out.append(s)
        for line in src.split('\n'):
            s = line.strip()
            if s.startswith('...'):
                s = s[3:].strip()
            if 2 <= len(s) <= 80 and not s.startswith(('>>>', '#', 'def ', 'import ', 'from ', 'return ', 'if ', 'raise ')):
                if s not in seen:
                    seen.add(s)
                    out.append(s)
    return out


def _boundary_valid(mod, valid, per_module=40):
    """synthesised valid numbers at the edges of the payload space: runs of 9s / 0s after a short prefix of a
    known valid number, repaired by searching the last one or two characters (digits and X) until the real
    is_valid() accepts.  They exercise range tables, century switches and padding that documentation samples miss."""
    out = []
    seen = set()
    comp = getattr(mod, 'compact', None)
    tails1 = list('0123456789X')
    for v in valid[:3]:
        try:
            c = comp(v) if comp else v
        except Exception:
            continue
        if not isinstance(c, str) or len(c) < 4 or len(c) > 40:
            continue
        for fill in '90':
            for k in (0, 1, 3, 4, 6):
                if k >= len(c) - 1:
                    continue
                body = c[:k] + ''.join(fill if ch.isdigit() else ch for ch in c[k:-1])
                cands = [body + t for t in tails1]
                if len(c) > 6:
                    cands += [body[:-1] + a + b for a in '0123456789' for b in '0123456789']
                for cand in cands:
                    if cand in seen:
                        continue
                    try:
                        ok = mod.is_valid(cand) is True
                    except Exception:
                        ok = False
                    if ok:
                        seen.add(cand)
                        out.append(cand)
                        break
                if len(out) >= per_module:
                    return out
    return out


class _Oracle:
    """is_valid() of one module with a cap on the number of calls (synthesis must stay cheap for every module)"""

    def __init__(self, mod, budget):
        self.mod, self.left = mod, budget

    def __call__(self, s):
        if self.left <= 0:
            return False
        self.left -= 1
        try:
            return self.mod.is_valid(s) is True
        except Exception:   # noqa: B902
            return False


_D10 = '0123456789'
_UP26 = 'ABCDEFGHIJKLMNOPQRSTUVWXYZ'
# where a format may keep its check character(s): nowhere / the last character / positions 2-3 after a two letter
# prefix (IBAN, ISO 11649, SEPA creditor id) / the last two digits
_REPAIR_SCHEMES = ('none', 'last1', 'pos23', 'last2')


def _repair_positions(scheme, s):
    n = len(s)
    if scheme == 'last1' and n >= 2:
        return (n - 1,)
    if scheme == 'pos23' and n >= 5 and s[:2].isalpha():
        return (2, 3)
    if scheme == 'last2' and n >= 3:
        return (n - 2, n - 1)
    return ()


def _repair(ok, s, scheme):
    """s, or s with the characters at the repair positions of `scheme` replaced, whichever is_valid() accepts first"""
    if ok(s):
        return s
    pos = _repair_positions(scheme, s)
    if not pos:
        return None
    if len(pos) == 1:
        i = pos[0]
        for ch in _D10 + 'X' + _UP26:
            t = s[:i] + ch + s[i + 1:]
            if t != s and ok(t):
                return t
        return None
    i, j = pos
    for a in _D10:
        for b in _D10:
            t = s[:i] + a + s[i + 1:j] + b + s[j + 1:]
            if t != s and ok(t):
                return t
    return None


def _learn_scheme(ok, c):
    """the repair scheme that makes single-digit changes of the valid number c valid again (None: none found)"""
    cand = [i for i in range(len(c)) if c[i] in _D10 and i not in (2, 3) and i < len(c) - 2] or \
        [i for i in range(len(c) - 1) if c[i] in _D10]
    if not cand:
        return None
    # six single-digit changes; a scheme is only adopted when it repairs every one of them (a wrong scheme repairs a
    # mod 97 number by luck in about one case out of three, so one trial is not enough)
    trials = []
    for k, i in enumerate([cand[len(cand) // 2], cand[0], cand[-1], cand[len(cand) // 3], cand[(2 * len(cand)) // 3],
                           cand[len(cand) // 2]]):
        d = '7391'[k % 4]
        t = c[:i] + (d if c[i] != d else '5') + c[i + 1:]
        if t not in trials:
            trials.append(t)
    broken = [t for t in trials if not ok(t)]
    if not broken:
        return 'none'
    fixes = [[scheme for scheme in _REPAIR_SCHEMES[1:] if _repair(ok, t, scheme)] for t in broken]
    fixes = [f for f in fixes if f]      # changes that no scheme repairs broke something else (a date, a range)
    if len(fixes) < 2:
        return None
    for scheme in _REPAIR_SCHEMES[1:]:
        if all(scheme in f for f in fixes):
            return scheme
    return None


def _saturate(ok, s, scheme):
    """greedily turn every digit of s into the letter Z where the format (probed through is_valid, check
    characters repaired) allows a letter: numbers whose letter-expanded form is as long as the format permits"""
    hits = 0
    for i in range(len(s)):
        if s[i] not in _D10 or i in _repair_positions(scheme, s):
            continue
        r = _repair(ok, s[:i] + 'Z' + s[i + 1:], scheme)
        if r is not None:
            s = r
            hits += 1
    return s, hits


def _extend(ok, s, scheme, fill, maxlen=128):
    """longest admissible number (<= maxlen) reached by inserting runs of `fill` into s; every length reached by
    the doubling steps is returned (they are all valid)"""
    out = []
    n = len(s)
    spots = [n // 2, n - 1, n - 2, 4, 1, n]
    for p in spots:
        if not 0 < p <= n:
            continue
        if scheme == 'pos23' and p < 4:
            continue            # never push prefix-anchored check digits away from their place
        r = _repair(ok, s[:p] + fill + s[p:], scheme)
        if r is None:
            continue
        back = len(s) - p       # keep inserting at the same distance from the end
        s = r
        out.append(s)
        m = len(s)
        while m >= 1 and len(s) < maxlen:
            m = min(m, maxlen - len(s))
            q = len(s) - back
            r = _repair(ok, s[:q] + fill * m + s[q:], scheme)
            if r is not None:
                s = r
                out.append(s)
                m = len(s)
            else:
                m //= 2
        break
    return out


def _extremal_valid(mod, valid, budget=250000, max_groups=120):
    """synthesised valid numbers at the edges of the *shape* space (complementing _boundary_valid, which works on
    the payload values): per leading country prefix / length group the number with a letter at every position where
    the format admits one, and for formats of variable length the longest admissible numbers (up to 128
    characters).  Everything is found by probing the real is_valid(); check characters are repaired by brute force."""
    ok = _Oracle(mod, budget)
    canon, seen = [], set()
    for v in valid:
        try:
            c = mod.validate(v)
        except Exception:   # noqa: B902
            continue
        if isinstance(c, str) and 3 <= len(c) <= 64 and c not in seen and c.isascii() and c.isalnum():
            seen.add(c)
            canon.append(c)
    if not canon:
        return []
    scheme = None
    for c in canon[:3]:
        scheme = _learn_scheme(ok, c)
        if scheme is not None:
            break
    if scheme is None:
        return []
    groups = {}
    for c in canon:
        pre = c[:2] if len(c) > 4 and c[:2].isalpha() and c[2:4].isdigit() else ''
        groups.setdefault((pre, len(c)), c)
    reps = list(groups.values())[:max_groups]
    out = []
    letters = any(ch in _UP26 for c in canon for ch in c[2:])
    best = None
    if letters:
        for c in reps:
            s, hits = _saturate(ok, c, scheme)
            if hits:
                out.append(s)
                if best is None or len(s) > len(best):
                    best = s
    longest = max(reps, key=len)
    ext = _extend(ok, longest, scheme, '9')
    out.extend(ext)
    if best is not None:
        out.extend(_extend(ok, best, scheme, 'Z')[-2:])
        if ext:
            s, hits = _saturate(ok, ext[-1], scheme)
            if hits:
                out.append(s)
    res, have = [], set(valid)
    for s in out:
        if s not in have:
            have.add(s)
            res.append(s)
    return res


_corpus = None
CORPUS_VERSION = 6      # bump when the content of the corpus changes (the cache is keyed by version and tree hash)
_KEEP_CACHES = 60


def corpus(max_per_module=400):
    """{module name: {'valid': [...], 'invalid': [...], 'extremal': [...]}}: 'valid'/'invalid' mined from docstrings
    and tests/*.doctest, classified by the real is_valid() of the current tree (plus synthesised boundary values);
    'extremal' = synthesised valid numbers of extreme shape (_extremal_valid).  Cached per tree hash under work/."""
    global _corpus
    if _corpus is not None:
        return _corpus
    os.makedirs(WORK, exist_ok=True)
    key = tree_hash()
    try:
        with open(os.path.join(VERIF, 'tools', 'search', 'proof_witnesses.json'), 'rb') as f:
            key = hashlib.sha256(key.encode() + f.read()).hexdigest()
    except OSError:
        pass
    cache = os.path.join(WORK, 'corpus-v%d-%s.json' % (CORPUS_VERSION, key[:16]))
    try:
        with open(cache) as f:
            _corpus = json.load(f)
        return _corpus
    except (OSError, ValueError):
        pass
    res = {}
    with frozen_today(datetime.date(2026, 9, 26)):
        for mod in number_modules():
            valid, invalid = [], []
            for s in _candidates_for(mod):
                try:
                    ok = mod.is_valid(s) is True
                except Exception:
                    ok = False
                (valid if ok else invalid).append(s)
            valid = valid[:max_per_module]
            boundary = [b for b in _boundary_valid(mod, valid) if b not in set(valid)]
            valid += boundary
            res[mod.__name__] = {'valid': valid, 'invalid': invalid[:max_per_module],
                                 'boundary': boundary, 'extremal': _extremal_valid(mod, valid)}
    # trees under test come and go (seeded changes run in scratch worktrees, possibly in parallel): keep the most
    # recent caches instead of deleting everybody else's
    old = sorted(glob.glob(os.path.join(WORK, 'corpus-*.json')), key=lambda p: (_mtime(p), p))
    for path in old[:max(0, len(old) - _KEEP_CACHES)]:
        try:
            os.remove(path)
        except OSError:
            pass
    tmp = cache + '.tmp%d' % os.getpid()
    with open(tmp, 'w') as f:
        json.dump(res, f)
    os.replace(tmp, cache)
    _corpus = res
    return res


def _mtime(path):
    try:
        return os.path.getmtime(path)
    except OSError:
        return 0


def valid_numbers(modname, limit=None):
    c = corpus().get(modname, {}).get('valid', [])
    return c[:limit] if limit else c


def extremal_numbers(modname):
    """synthesised valid numbers of extreme shape (letters wherever the format admits them, longest admissible
    lengths); see _extremal_valid"""
    return corpus().get(modname, {}).get('extremal', [])


# ----------------------------------------------------------------------------- hostile material

WHITESPACE = ['\n', '\r', '\t', '\x0b', '\x0c', '\x1c', '\x1d', '\x1e', '\x1f', ' ', '\x85', '\xa0', ' ', '　', ' ']
SEPARATORS = [' ', '-', '.', '/', ':', ',', '_', '+', '*', "'", '–', '−', '－', '·', '⁄']
NONASCII_DIGITS = ['٣', '३', '３', '\U0001d7d1', '²', '①', 'Ⅷ', '௩', '၉', '\U0001d7d8', '۳']
NONASCII_LETTERS = ['ß', 'ı', 'ŉ', 'İ', 'ſ', 'K', 'Ä', 'Ж', 'é', 'Α', 'А', 'Ａ', 'Ñ', 'ǅ', 'ﬁ']
OTHER = ['\x00', '\ud800', 'X', 'a', '0', 'A', '9', 'Z', 'z']
HOSTILE = WHITESPACE + SEPARATORS + NONASCII_DIGITS + NONASCII_LETTERS + OTHER


class Opaque:
    def __repr__(self):
        return '<opaque>'


def non_strings():
    return [None, 0, 1, 12345678901, -5, True, False, 1.5, float('nan'), b'123', b'', bytearray(b'12'),
            ['1', '2', '3'], [1, 2], [], ('1', '2', '3'), (), {'1': 2}, {}, {'1', '2'}, frozenset(),
            Opaque(), object, lambda: 0, iter('123'), (c for c in '123'), range(3), 10 ** 30]


def mutations(rng, v, n):
    """n random single-edit / decoration variants of string v"""
    out = []
    alpha = '0123456789ABCDEFGHIJKLMNOPQRSTUVWXYZ'
    for _ in range(n):
        k = rng.randrange(8)
        i = rng.randrange(len(v) + 1)
        j = rng.randrange(len(v)) if v else 0
        if k == 0:
            out.append(v[:i] + rng.choice(HOSTILE) + v[i:])
        elif k == 1 and v:
            out.append(v[:j] + rng.choice(HOSTILE) + v[j + 1:])
        elif k == 2 and v:
            out.append(v[:j] + rng.choice(alpha) + v[j + 1:])
        elif k == 3 and v:
            out.append(v[:j] + v[j + 1:])
        elif k == 4 and len(v) > 1:
            j = rng.randrange(len(v) - 1)
            out.append(v[:j] + v[j + 1] + v[j] + v[j + 2:])
        elif k == 5:
            out.append(v[:i] + rng.choice(SEPARATORS) + v[i:])
        elif k == 6:
            out.append(rng.choice([v.lower(), v.upper(), v.swapcase(), ' ' + v, v + ' ', v + '\n', '\t' + v]))
        else:
            out.append(v[:i] + rng.choice('0123456789') + v[i:])
    return out


# ----------------------------------------------------------------------------- outcomes

def validation_error_class():
    from stdnum.exceptions import ValidationError
    return ValidationError


def outcome(f, *a, **k):
    """('ok', value) | ('verr', class name) | ('exc', class name)"""
    VE = validation_error_class()
    try:
        return ('ok', f(*a, **k))
    except VE as e:
        return ('verr', type(e).__name__)
    except RecursionError:
        return ('exc', 'RecursionError')
    except Exception as e:   # noqa: B902
        return ('exc', type(e).__name__)
    except BaseException as e:   # noqa: B902  (SystemExit, KeyboardInterrupt, GeneratorExit raised by hostile objects)
        return ('exc', type(e).__name__)


def describe(x, limit=200):
    """JSON-able, replayable description of an argument value"""
    if isinstance(x, str):
        return {'kind': 'str', 'codepoints': [ord(c) for c in x[:limit * 50]]}
    if isinstance(x, bool) or x is None or isinstance(x, int):
        return {'kind': type(x).__name__, 'repr': repr(x)}
    if isinstance(x, (list, tuple)) and all(isinstance(i, str) for i in x):
        return {'kind': type(x).__name__, 'items': [[ord(c) for c in i] for i in x]}
    if isinstance(x, datetime.date):
        return {'kind': 'date', 'iso': x.isoformat()}
    return {'kind': type(x).__name__, 'repr': repr(x)[:limit]}


def rebuild(d):
    """inverse of describe for the kinds that can be rebuilt"""
    k = d.get('kind')
    if k == 'str':
        return ''.join(chr(c) for c in d['codepoints'])
    if k in ('list', 'tuple') and 'items' in d:
        xs = [''.join(chr(c) for c in i) for i in d['items']]
        return xs if k == 'list' else tuple(xs)
    if k == 'date':
        return datetime.date.fromisoformat(d['iso'])
    if k in ('int', 'bool', 'NoneType', 'float', 'bytes'):
        return eval(d['repr'], {'nan': float('nan'), 'inf': float('inf')})   # noqa: S307 (our own repr)
    raise ValueError('cannot rebuild %r' % (d,))


# ----------------------------------------------------------------------------- known findings

def load_findings():
    path = os.path.join(VERIF, 'known_findings.json')
    if not os.path.exists(path):
        return []
    with open(path) as f:
        return json.load(f).get('findings', [])


def finding_key(case):
    """identity of a failing case: (property, module, function, input)"""
    return json.dumps([case.get('property'), case.get('module'), case.get('function'), case.get('args')], sort_keys=True)


def site_key(case):
    return json.dumps([case.get('property'), case.get('module'), case.get('function'), case.get('site')], sort_keys=True)


def split_known(prop, failing):
    """partition failing cases into (known, new) using known_findings.json.
    A `known` entry matches on identical (property, module, function, args) or, for entries that carry a
    `site`, identical (property, module, function, site).  `fixed` entries suppress nothing."""
    known_inputs, known_sites = {}, {}
    for f in load_findings():
        if f.get('status') != 'known' or f.get('property') != prop:
            continue
        if 'site' in f:
            known_sites[site_key(f)] = f
        else:
            known_inputs[finding_key(f)] = f
    known, new = [], []
    for c in failing:
        c = dict(c, property=prop)
        if finding_key(c) in known_inputs:
            known.append((c, known_inputs[finding_key(c)]))
        elif c.get('site') is not None and site_key(c) in known_sites and not (
                known_sites[site_key(c)].get('max_site_count') is not None and
                c.get('site_count', 0) > known_sites[site_key(c)]['max_site_count']):
            # (an exhaustive engine reports how many entries fail at a site; more failures than listed = a new defect)
            known.append((c, known_sites[site_key(c)]))
        else:
            new.append(c)
    return known, new


# ----------------------------------------------------------------------------- evidence / replay

def write_json(path, obj):
    os.makedirs(os.path.dirname(path), exist_ok=True)
    tmp = path + '.tmp%d' % os.getpid()
    with open(tmp, 'w') as f:
        json.dump(obj, f, indent=1, sort_keys=True, default=str)
    os.replace(tmp, path)


def write_replay(prop, n, payload):
    path = os.path.join(VERIF, 'replays', '%s-%d-%d.json' % (prop, seed(), n))
    write_json(path, dict(payload, property=prop, seed=seed()))
    return path


class Timer:
    def __init__(self):
        self.t0 = time.time()

    def s(self):
        return round(time.time() - self.t0, 2)
