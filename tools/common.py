"""Shared helpers for the harness, the search engines and bin/check.

Everything here runs against /repo's current working tree (imported in-process; /venv has stdnum
installed in editable mode, and REPO is put first on sys.path anyway).
"""
import contextlib
import datetime
import glob
import hashlib
import importlib
import inspect
import json
import os
import random
import re
import sys
import time
import warnings

VERIF = os.path.dirname(os.path.dirname(os.path.abspath(__file__)))
REPO = os.environ.get('VERIF_REPO', '/repo')
if REPO not in sys.path:
    sys.path.insert(0, REPO)
warnings.simplefilter('ignore')

LEAN_DIR = os.path.join(VERIF, 'lean')
WORK = os.path.join(VERIF, 'work')


def seed():
    try:
        return int(os.environ.get('VERIF_SEED', '1'))
    except ValueError:
        return 1


def tier():
    t = os.environ.get('VERIF_TIER', 'quick')
    return t if t in ('quick', 'thorough') else 'quick'


# ----------------------------------------------------------------------------- modules

_modules = None


def number_modules():
    """all discoverable number modules of the current tree, by name, sorted"""
    global _modules
    if _modules is None:
        _modules = discover_modules()
    return _modules


def discover_modules():
    """number modules found by walking the package ourselves (independent of util.get_number_modules, which
    is itself code under test)"""
    import pkgutil
    import stdnum
    out = []
    with warnings.catch_warnings():
        warnings.simplefilter('ignore')
        for _l, name, _p in pkgutil.walk_packages(stdnum.__path__, 'stdnum.'):
            try:
                mod = importlib.import_module(name)
            except Exception:
                continue
            if hasattr(mod, 'validate') and mod.__name__ == name:
                out.append(mod)
    return sorted(out, key=lambda m: m.__name__)


def module(name):
    return importlib.import_module(name)


GENERIC_MODULES = [
    'stdnum.luhn', 'stdnum.verhoeff', 'stdnum.damm', 'stdnum.iso7064.mod_11_2', 'stdnum.iso7064.mod_37_2',
    'stdnum.iso7064.mod_11_10', 'stdnum.iso7064.mod_37_36', 'stdnum.iso7064.mod_97_10']

CLOCK_MODULES = None


def tree_hash():
    h = hashlib.sha256()
    for path in sorted(glob.glob(os.path.join(REPO, 'stdnum', '**', '*'), recursive=True) +
                       glob.glob(os.path.join(REPO, 'tests', '*')) +
                       glob.glob(os.path.join(REPO, 'online_check', '*'))):
        if os.path.isfile(path) and not path.endswith('.pyc'):
            h.update(path.encode())
            with open(path, 'rb') as f:
                h.update(f.read())
    return h.hexdigest()


# ----------------------------------------------------------------------------- frozen clock

class _AnyDateMeta(type):
    """isinstance(x, frozen class) must accept the real datetime objects too (gs1_128 tests
    isinstance(value, datetime.date) on values made by strptime)"""
    def __instancecheck__(cls, inst):
        return isinstance(inst, cls.__mro__[1])


class _FrozenDate(datetime.date, metaclass=_AnyDateMeta):
    _today = datetime.date(2026, 9, 26)

    @classmethod
    def today(cls):
        return datetime.date(cls._today.year, cls._today.month, cls._today.day)


class _FrozenDateTime(datetime.datetime, metaclass=_AnyDateMeta):
    @classmethod
    def now(cls, tz=None):
        t = _FrozenDate._today
        return datetime.datetime(t.year, t.month, t.day, 12, 0, 0)

    @classmethod
    def today(cls):
        return cls.now()


class _FrozenModule:
    """stands in for the `datetime` module inside a stdnum module"""
    date = _FrozenDate
    timedelta = datetime.timedelta
    time = datetime.time
    MINYEAR = datetime.MINYEAR
    MAXYEAR = datetime.MAXYEAR


_FrozenModule.datetime = _FrozenDateTime


@contextlib.contextmanager
def frozen_today(today):
    """make every stdnum module that refers to `datetime` see `today` as the current date.
    No change to /repo: the name `datetime` is rebound in the already imported modules."""
    _FrozenDate._today = today
    patched = []
    for name, mod in list(sys.modules.items()):
        if name.startswith('stdnum') and mod is not None:
            d = getattr(mod, 'datetime', None)
            if d is datetime:
                mod.datetime = _FrozenModule
                patched.append((mod, 'datetime', datetime))
            elif d is datetime.datetime:
                mod.datetime = _FrozenDateTime
                patched.append((mod, 'datetime', datetime.datetime))
            d = getattr(mod, 'date', None)
            if d is datetime.date:
                mod.date = _FrozenDate
                patched.append((mod, 'date', datetime.date))
    try:
        yield
    finally:
        for mod, attr, orig in patched:
            setattr(mod, attr, orig)


# ----------------------------------------------------------------------------- corpus

_LIT = re.compile(r"'([^'\n\\]{1,80})'|\"([^\"\n\\]{1,80})\"")


def _candidates_for(mod):
    """string literals that may be numbers of this module: its own source and its test file"""
    out = []
    seen = set()
    paths = [mod.__file__]
    short = mod.__name__.replace('stdnum.', '', 1)
    tname = 'test_' + short.replace('.', '_').replace('in__', 'in_').replace('is__', 'is_') + '.doctest'
    tpath = os.path.join(REPO, 'tests', tname)
    if os.path.exists(tpath):
        paths.append(tpath)
    for path in paths:
        try:
            src = open(path, encoding='utf-8').read()
        except OSError:
            continue
        for m in _LIT.finditer(src):
            s = m.group(1) if m.group(1) is not None else m.group(2)
            if s not in seen:
                seen.add(s)
                out.append(s)
        for line in src.split('\n'):
            s = line.strip()
            if s.startswith('...'):
                s = s[3:].strip()
            if 2 <= len(s) <= 80 and not s.startswith(('>>>', '#', 'def ', 'import ', 'from ', 'return ', 'if ', 'raise ')):
                if s not in seen:
                    seen.add(s)
                    out.append(s)
    return out


def _boundary_valid(mod, valid, per_module=40):
    """synthesised valid numbers at the edges of the payload space: runs of 9s / 0s after a short prefix of a
    known valid number, repaired by searching the last one or two characters (digits and X) until the real
    is_valid() accepts.  They exercise range tables, century switches and padding that documentation samples miss."""
    out = []
    seen = set()
    comp = getattr(mod, 'compact', None)
    tails1 = list('0123456789X')
    for v in valid[:3]:
        try:
            c = comp(v) if comp else v
        except Exception:
            continue
        if not isinstance(c, str) or len(c) < 4 or len(c) > 40:
            continue
        for fill in '90':
            for k in (0, 1, 3, 4, 6):
                if k >= len(c) - 1:
                    continue
                body = c[:k] + ''.join(fill if ch.isdigit() else ch for ch in c[k:-1])
                cands = [body + t for t in tails1]
                if len(c) > 6:
                    cands += [body[:-1] + a + b for a in '0123456789' for b in '0123456789']
                for cand in cands:
                    if cand in seen:
                        continue
                    try:
                        ok = mod.is_valid(cand) is True
                    except Exception:
                        ok = False
                    if ok:
                        seen.add(cand)
                        out.append(cand)
                        break
                if len(out) >= per_module:
                    return out
    return out


_corpus = None


def corpus(max_per_module=400):
    """{module name: {'valid': [...], 'invalid': [...]}} mined from docstrings and tests/*.doctest,
    classified by the real is_valid() of the current tree.  Cached per tree hash under work/."""
    global _corpus
    if _corpus is not None:
        return _corpus
    os.makedirs(WORK, exist_ok=True)
    key = tree_hash()
    cache = os.path.join(WORK, 'corpus-%s.json' % key[:16])
    if os.path.exists(cache):
        with open(cache) as f:
            _corpus = json.load(f)
        return _corpus
    res = {}
    with frozen_today(datetime.date(2026, 9, 26)):
        for mod in number_modules():
            valid, invalid = [], []
            for s in _candidates_for(mod):
                try:
                    ok = mod.is_valid(s) is True
                except Exception:
                    ok = False
                (valid if ok else invalid).append(s)
            valid = valid[:max_per_module]
            valid += [b for b in _boundary_valid(mod, valid) if b not in set(valid)]
            res[mod.__name__] = {'valid': valid, 'invalid': invalid[:max_per_module]}
    for old in glob.glob(os.path.join(WORK, 'corpus-*.json')):
        try:
            os.remove(old)
        except OSError:
            pass
    with open(cache, 'w') as f:
        json.dump(res, f)
    _corpus = res
    return res


def valid_numbers(modname, limit=None):
    c = corpus().get(modname, {}).get('valid', [])
    return c[:limit] if limit else c


# ----------------------------------------------------------------------------- hostile material

WHITESPACE = ['\n', '\r', '\t', '\x0b', '\x0c', '\x1c', '\x1d', '\x1e', '\x1f', ' ', '\x85', '\xa0', ' ', '　', ' ']
SEPARATORS = [' ', '-', '.', '/', ':', ',', '_', '+', '*', "'", '–', '−', '－', '·', '⁄']
NONASCII_DIGITS = ['٣', '३', '３', '\U0001d7d1', '²', '①', 'Ⅷ', '௩', '၉', '\U0001d7d8', '۳']
NONASCII_LETTERS = ['ß', 'ı', 'ŉ', 'İ', 'ſ', 'K', 'Ä', 'Ж', 'é', 'Α', 'А', 'Ａ', 'Ñ', 'ǅ', 'ﬁ']
OTHER = ['\x00', '\ud800', 'X', 'a', '0', 'A', '9', 'Z', 'z']
HOSTILE = WHITESPACE + SEPARATORS + NONASCII_DIGITS + NONASCII_LETTERS + OTHER


class Opaque:
    def __repr__(self):
        return '<opaque>'


def non_strings():
    return [None, 0, 1, 12345678901, -5, True, False, 1.5, float('nan'), b'123', b'', bytearray(b'12'),
            ['1', '2', '3'], [1, 2], [], ('1', '2', '3'), (), {'1': 2}, {}, {'1', '2'}, frozenset(),
            Opaque(), object, lambda: 0, iter('123'), (c for c in '123'), range(3), 10 ** 30]


def mutations(rng, v, n):
    """n random single-edit / decoration variants of string v"""
    out = []
    alpha = '0123456789ABCDEFGHIJKLMNOPQRSTUVWXYZ'
    for _ in range(n):
        k = rng.randrange(8)
        i = rng.randrange(len(v) + 1)
        j = rng.randrange(len(v)) if v else 0
        if k == 0:
            out.append(v[:i] + rng.choice(HOSTILE) + v[i:])
        elif k == 1 and v:
            out.append(v[:j] + rng.choice(HOSTILE) + v[j + 1:])
        elif k == 2 and v:
            out.append(v[:j] + rng.choice(alpha) + v[j + 1:])
        elif k == 3 and v:
            out.append(v[:j] + v[j + 1:])
        elif k == 4 and len(v) > 1:
            j = rng.randrange(len(v) - 1)
            out.append(v[:j] + v[j + 1] + v[j] + v[j + 2:])
        elif k == 5:
            out.append(v[:i] + rng.choice(SEPARATORS) + v[i:])
        elif k == 6:
            out.append(rng.choice([v.lower(), v.upper(), v.swapcase(), ' ' + v, v + ' ', v + '\n', '\t' + v]))
        else:
            out.append(v[:i] + rng.choice('0123456789') + v[i:])
    return out


# ----------------------------------------------------------------------------- outcomes

def validation_error_class():
    from stdnum.exceptions import ValidationError
    return ValidationError


def outcome(f, *a, **k):
    """('ok', value) | ('verr', class name) | ('exc', class name)"""
    VE = validation_error_class()
    try:
        return ('ok', f(*a, **k))
    except VE as e:
        return ('verr', type(e).__name__)
    except RecursionError:
        return ('exc', 'RecursionError')
    except Exception as e:   # noqa: B902
        return ('exc', type(e).__name__)
    except BaseException as e:   # noqa: B902  (SystemExit, KeyboardInterrupt, GeneratorExit raised by hostile objects)
        return ('exc', type(e).__name__)


def describe(x, limit=200):
    """JSON-able, replayable description of an argument value"""
    if isinstance(x, str):
        return {'kind': 'str', 'codepoints': [ord(c) for c in x[:limit * 50]]}
    if isinstance(x, bool) or x is None or isinstance(x, int):
        return {'kind': type(x).__name__, 'repr': repr(x)}
    if isinstance(x, (list, tuple)) and all(isinstance(i, str) for i in x):
        return {'kind': type(x).__name__, 'items': [[ord(c) for c in i] for i in x]}
    if isinstance(x, datetime.date):
        return {'kind': 'date', 'iso': x.isoformat()}
    return {'kind': type(x).__name__, 'repr': repr(x)[:limit]}


def rebuild(d):
    """inverse of describe for the kinds that can be rebuilt"""
    k = d.get('kind')
    if k == 'str':
        return ''.join(chr(c) for c in d['codepoints'])
    if k in ('list', 'tuple') and 'items' in d:
        xs = [''.join(chr(c) for c in i) for i in d['items']]
        return xs if k == 'list' else tuple(xs)
    if k == 'date':
        return datetime.date.fromisoformat(d['iso'])
    if k in ('int', 'bool', 'NoneType', 'float', 'bytes'):
        return eval(d['repr'], {'nan': float('nan'), 'inf': float('inf')})   # noqa: S307 (our own repr)
    raise ValueError('cannot rebuild %r' % (d,))


# ----------------------------------------------------------------------------- known findings

def load_findings():
    path = os.path.join(VERIF, 'known_findings.json')
    if not os.path.exists(path):
        return []
    with open(path) as f:
        return json.load(f).get('findings', [])


def finding_key(case):
    """identity of a failing case: (property, module, function, input)"""
    return json.dumps([case.get('property'), case.get('module'), case.get('function'), case.get('args')], sort_keys=True)


def site_key(case):
    return json.dumps([case.get('property'), case.get('module'), case.get('function'), case.get('site')], sort_keys=True)


def split_known(prop, failing):
    """partition failing cases into (known, new) using known_findings.json.
    A `known` entry matches on identical (property, module, function, args) or, for entries that carry a
    `site`, identical (property, module, function, site).  `fixed` entries suppress nothing."""
    known_inputs, known_sites = {}, {}
    for f in load_findings():
        if f.get('status') != 'known' or f.get('property') != prop:
            continue
        if 'site' in f:
            known_sites[site_key(f)] = f
        else:
            known_inputs[finding_key(f)] = f
    known, new = [], []
    for c in failing:
        c = dict(c, property=prop)
        if finding_key(c) in known_inputs:
            known.append((c, known_inputs[finding_key(c)]))
        elif c.get('site') is not None and site_key(c) in known_sites:
            known.append((c, known_sites[site_key(c)]))
        else:
            new.append(c)
    return known, new


# ----------------------------------------------------------------------------- evidence / replay

def write_json(path, obj):
    os.makedirs(os.path.dirname(path), exist_ok=True)
    tmp = path + '.tmp%d' % os.getpid()
    with open(tmp, 'w') as f:
        json.dump(obj, f, indent=1, sort_keys=True, default=str)
    os.replace(tmp, path)


def write_replay(prop, n, payload):
    path = os.path.join(VERIF, 'replays', '%s-%d-%d.json' % (prop, seed(), n))
    write_json(path, dict(payload, property=prop, seed=seed()))
    return path


class Timer:
    def __init__(self):
        self.t0 = time.time()

    def s(self):
        return round(time.time() - self.t0, 2)
