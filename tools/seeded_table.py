"""Print the markdown table of DESIGN.md §8.7 from seeded/*/meta.json (field `runs`, written by seeded.py run)."""
import glob
import json
import os
import re

VERIF = os.path.dirname(os.path.dirname(os.path.abspath(__file__)))


def main():
    rows = []
    for f in sorted(glob.glob(os.path.join(VERIF, 'seeded', '*', 'meta.json')),
                    key=lambda p: [int(x) if x.isdigit() else x for x in re.split(r'(\d+)', os.path.basename(os.path.dirname(p)))]):
        m = json.load(open(f))
        summ = re.sub(r'\s+', ' ', m.get('summary', '')).strip()
        summ = summ.split('. ')[0][:170]
        outs = []
        for k, r in sorted(m.get('runs', {}).items()):
            prop, tier = k.split('/')
            if r.get('detected'):
                s = (r.get('summary') or [''])[0]
                mo = re.search(r'obligations (\d+)/(\d+)', s)
                broken = ''
                if mo and mo.group(1) != mo.group(2):
                    broken = ', %d of %s obligations no longer check' % (int(mo.group(2)) - int(mo.group(1)), mo.group(2))
                mc = re.search(r'correspondence (\d+)/(\d+)', s)
                if mc and mc.group(1) != mc.group(2):
                    broken += ', correspondence %s/%s' % (mc.group(1), mc.group(2))
                kind = 'failing input' if 'failing-input' in r.get('kinds', []) else 'no-failing-input-found'
                outs.append('**%s** (%s%s)' % (prop, kind, broken))
            else:
                outs.append('%s: not detected' % prop)
        rows.append('| %s | %s | %s |' % (m['id'], summ.replace('|', '/'), '; '.join(outs) or 'not run'))
    print('| id | change (first sentence of the author\'s summary) | result of `bin/check` (quick tier, seed 1) |')
    print('|---|---|---|')
    print('\n'.join(rows))


if __name__ == '__main__':
    main()
