"""bin/check <property> [--tier quick|thorough]  — decide one property on /repo's current working tree.

Pipeline (DESIGN.md §2.5):
  1-2  regenerate the Lean model, build, audit            (tools/prepare.py, shared by all checks)
  3    correspondence: generated model vs CPython (native driver), hand-written spec models vs CPython
  4    failing-input search on the real code              (tools/search/cNN.py; support, never proof)
  5    known findings (known_findings.json): re-run, print KNOWN-FINDING, exclude exactly those
  6    decide: failing input not listed -> VIOLATION with replay;
               broken obligation / correspondence without a failing input -> VIOLATION ... no-failing-input-found
  7    evidence/<id>.json (always)
Exit codes: 0 held, 1 violation, 2 infrastructure failure / timeout.
"""
import argparse
import importlib
import json
import os
import subprocess
import sys
import traceback

sys.path.insert(0, os.path.dirname(os.path.abspath(__file__)))
import common  # noqa: E402
import prepare as prep_mod  # noqa: E402
import props as props_mod  # noqa: E402

TRUSTED_BASE = [
    'Lean 4.33 kernel; axioms allowed: propext, Classical.choice, Quot.sound (audited per theorem by #print axioms); no sorry/native_decide/own axioms (grep on every run)',
    'py2lean translator and PyRt runtime (hand-written Python semantics in Lean): validated by the differential run against CPython on every check, not verified',
    'oracles from the running interpreter: unicodedata tables (Unicode 15.0), CPython re parser, str.upper/lower tables',
    'modelled input universe: str arguments (non-string arguments are covered by the search on the real code only)',
]



def uncovered_scope(prep, scope_keys, thms):
    """functions in the scope of the property whose module no listed theorem is about: 'module:function' keys.
    A theorem is about a module when its `covers` field names it or its name / Lean module contains the module's
    generated namespace (Gen.<ns>) as a whole word."""
    import re
    try:
        with open(os.path.join(common.LEAN_DIR, 'Gen', 'manifest.json')) as f:
            man = json.load(f)
    except (OSError, ValueError):
        return []
    text = ' '.join('%s %s %s' % (t['name'], t.get('module', ''), t.get('covers') or '') for t in thms)
    out = []
    seen_mod = {}
    for key in scope_keys:
        mod = key.split(':')[0]
        if mod not in seen_mod:
            ns = man['modules'].get(mod, {}).get('ns', mod.replace('stdnum.', '').replace('.', '_'))
            short = ns.split('__')[-1] if ns.startswith(('in__', 'is__')) else ns
            pat = r'(?<![A-Za-z0-9])(%s|%s)(?![a-z])' % (re.escape(ns), re.escape(short))
            seen_mod[mod] = bool(re.search(pat, text)) or (mod in text)
        if not seen_mod[mod]:
            out.append(key)
    return sorted(out)


def run_corr(script, tier, seed):
    """run a hand-written-model correspondence script; returns its JSON summary"""
    path = os.path.join(common.VERIF, 'tools', 'corr', script)
    driver = os.path.join(common.LEAN_DIR, '.lake', 'build', 'bin', 'driver')
    n = props_mod.CORR_N.get(script, {}).get(tier, 3000)
    env = dict(os.environ, VERIF_SEED=str(seed), VERIF_REPO=common.REPO, PYTHONPATH=common.REPO)
    try:
        p = subprocess.run(['/venv/bin/python', path, '--lean-dir', common.LEAN_DIR, '--driver', driver, '--n', str(n)],
                           capture_output=True, text=True, env=env, timeout=1800)
    except subprocess.TimeoutExpired:
        return {'script': script, 'evaluations': 0, 'agree': 0, 'disagreements': [{'error': 'timeout'}], 'rc': 2}
    out = p.stdout.strip()
    try:
        start = out.index('{')
        d = json.loads(out[start:])
    except ValueError:
        d = {'evaluations': 0, 'agree': 0, 'disagreements': [{'error': 'unparseable output', 'tail': (p.stdout + p.stderr)[-500:]}]}
    d['script'] = script
    d['rc'] = p.returncode
    return d


def main():
    ap = argparse.ArgumentParser()
    ap.add_argument('prop')
    ap.add_argument('--tier', default=None)
    ap.add_argument('--replay', default=None)
    args = ap.parse_args()
    prop = args.prop
    tier = args.tier or common.tier()
    seed = common.seed()
    timer = common.Timer()
    cfg = props_mod.PROPS[prop]
    if args.replay:
        return replay(prop, cfg, args.replay)
    evidence = {'property_id': prop, 'tier': tier, 'seed': seed, 'level': 'proof', 'coverage': {}, 'wall_s': 0.0,
                'violations': 0, 'assumptions': TRUSTED_BASE + cfg.get('assumptions', [])}
    violations = []     # (kind, payload)
    import glob
    for old in glob.glob(os.path.join(common.VERIF, 'replays', '%s-%d-*.json' % (prop, seed))):
        try:
            os.remove(old)
        except OSError:
            pass
    try:
        # ---- 1-2 model + proofs
        prep = prep_mod.prepare()
        obl = prep_mod.all_obligations().get(prop, {'theorems': []})
        thms = obl.get('theorems', [])
        status = {}
        if not prep.get('cached'):
            pass
        audit = prep.get('audit', {})
        for t in thms:
            status[t['name']] = audit.get(t['name'], {'status': 'missing', 'why': 'not audited'})
        broken = [t for t in thms if status[t['name']]['status'] != 'ok']
        hygiene = [h for h in prep.get('hygiene', [])]
        # model coverage: functions in scope that became unmodelled
        scope_keys = cfg['scope'](prep) if 'scope' in cfg else []
        expected_unmodelled = set(obl.get('unmodelled_functions', []))
        newly_unmodelled = [k for k in prep.get('unmodelled', []) if k in set(obl.get('modelled_functions', [])) and k not in expected_unmodelled]
        # ---- 3 correspondence
        corr = {'evaluations': 0, 'agree': 0, 'disagreements': [], 'parts': []}
        if prep.get('driver_ok'):
            if scope_keys:
                sys.path.insert(0, os.path.join(common.VERIF, 'tools', 'harness'))
                import diffrun
                n = cfg.get('diff_n', {}).get(tier, 40 if tier == 'quick' else 400)
                r = diffrun.run(scope_keys, n_per_func=n, seed=seed)
                corr['evaluations'] += r['evaluations']
                corr['agree'] += r['agree']
                corr['disagreements'] += [dict(d, part='generated-model') for d in r['disagreements']]
                corr['parts'].append({'part': 'generated model vs CPython', 'evaluations': r['evaluations'], 'agree': r['agree'],
                                      'functions': r['functions'], 'accepted_by_python': r['accepted_by_python'], 'samples': r['samples']})
            for script in cfg.get('corr', []):
                r = run_corr(script, tier, seed)
                corr['evaluations'] += r.get('evaluations', 0)
                corr['agree'] += r.get('agree', 0)
                corr['disagreements'] += [dict(d, part=script) if isinstance(d, dict) else {'part': script, 'detail': d} for d in r.get('disagreements', [])]
                corr['parts'].append({'part': script, 'evaluations': r.get('evaluations', 0), 'agree': r.get('agree', 0),
                                      'distribution': r.get('distribution')})
        else:
            corr['disagreements'].append({'part': 'driver', 'detail': 'model driver did not build', 'errors': prep.get('errors', [])[:5]})
        known_corr = set(json.dumps(x, sort_keys=True) for x in cfg.get('known_disagreements', []))
        # ---- 4 search on the real code
        search = {'cases': 0, 'distinct_nontrivial': 0, 'failing': [], 'samples': [], 'rule': '', 'distribution': {}}
        eng = None
        if cfg.get('search'):
            eng = importlib.import_module('search.' + cfg['search'])
            search = eng.search(seed, tier)
        # ---- 5 known findings
        known, new = common.split_known(prop, search.get('failing', []))
        listed = [f for f in common.load_findings() if f.get('property') == prop and f.get('status') == 'known']
        printed = set()
        for f in listed:
            still = None
            if eng is not None and hasattr(eng, 'replay'):
                try:
                    still = eng.replay(f)
                except Exception:
                    still = f
            if still is not None:
                key = common.site_key(f) if 'site' in f else common.finding_key(f)
                if key not in printed:
                    printed.add(key)
                    print('KNOWN-FINDING: property=%s %s.%s %s' % (prop, f.get('module'), f.get('function'), f.get('what', f.get('observed', ''))))
        # ---- 6 decide
        n = 0
        for c in new[:20]:
            n += 1
            path = common.write_replay(prop, n, dict(c, kind='failing-input'))
            violations.append(('failing-input', path))
        if not new:
            reasons = []
            if broken:
                reasons.append({'broken_theorems': [{'name': t['name'], 'covers': t.get('covers'), 'status': status[t['name']]} for t in broken][:50]})
            if corr['disagreements']:
                reasons.append({'broken_correspondence': corr['disagreements'][:20]})
            if newly_unmodelled:
                reasons.append({'unmodelled_functions': newly_unmodelled})
            if hygiene:
                reasons.append({'hygiene': hygiene[:20]})
            if reasons:
                # a disagreement is a candidate witness: test the property on it first
                wit = []
                if eng is not None and hasattr(eng, 'probe'):
                    for d in corr['disagreements'][:50]:
                        try:
                            w = eng.probe(d)
                        except Exception:
                            w = None
                        if w:
                            wit.append(w)
                k2, new2 = common.split_known(prop, wit)
                if new2:
                    for c in new2[:10]:
                        n += 1
                        path = common.write_replay(prop, n, dict(c, kind='failing-input'))
                        violations.append(('failing-input', path))
                else:
                    n += 1
                    errs = [e for e in prep.get('errors', [])][:30]
                    path = common.write_replay(prop, n, {'kind': 'no-failing-input-found', 'broken': reasons, 'build_errors': errs})
                    violations.append(('no-failing-input-found', path))
        # ---- thorough: independent re-check of the compiled proof modules by leanchecker
        leancheck = None
        if tier == 'thorough' and thms:
            mods = sorted({t['module'] for t in thms})
            hand = [m for m in mods if not m.startswith('Props.Auto.')]
            auto = [m for m in mods if m.startswith('Props.Auto.')]
            sel = hand + auto[:25]
            try:
                p = subprocess.run(['lake', 'env', 'leanchecker'] + sel, cwd=common.LEAN_DIR, capture_output=True, text=True, timeout=3000)
                leancheck = {'modules': len(sel), 'of': len(mods), 'rc': p.returncode, 'tail': (p.stdout + p.stderr)[-300:]}
                if p.returncode != 0:
                    n += 1
                    path = common.write_replay(prop, n, {'kind': 'no-failing-input-found', 'broken': [{'leanchecker': leancheck}]})
                    violations.append(('no-failing-input-found', path))
            except subprocess.TimeoutExpired:
                leancheck = {'modules': len(sel), 'rc': 'timeout'}
        # ---- 7 evidence
        discharged = sum(1 for t in thms if status[t['name']]['status'] == 'ok')
        axioms_seen = sorted({a for t in thms for a in status[t['name']].get('axioms', [])})
        cov = {
            'obligations': len(thms), 'discharged': discharged,
            'checker_cmd': 'cd lean && lake build ' + ' '.join(prep_mod.LAKE_TARGETS) + ' && lake env lean work/Audit.lean  (#print axioms per theorem)',
            'trusted_base': TRUSTED_BASE + cfg.get('assumptions', []),
            'axioms_seen': axioms_seen,
            'theorems': [{'name': t['name'], 'covers': t.get('covers'), 'status': status[t['name']]['status']} for t in thms][:400],
            'uncovered': uncovered_scope(prep, scope_keys, thms) + obl.get('uncovered', []),
            'model': {'translated_functions': prep.get('translated'), 'unmodelled_functions': len(prep.get('unmodelled', [])),
                      'failed_lean_modules': prep.get('failed_modules', [])[:30]},
            'evaluations': corr['evaluations'] + search.get('cases', 0),
            'distinct_nontrivial': search.get('distinct_nontrivial', 0),
            'rule': 'theorems: see names; correspondence: %s; search: %s' % (cfg.get('corr_rule', 'generated inputs per function (corpus, mutations, hostile characters)'), search.get('rule', '')),
            'samples': (corr['parts'][0].get('samples', [])[:2] if corr['parts'] else []) + search.get('samples', [])[:5] + [t['name'] for t in thms[:3]],
            'traces_validated_against_impl': corr['agree'],
            'correspondence': {'evaluations': corr['evaluations'], 'agree': corr['agree'], 'disagreements': corr['disagreements'][:20], 'parts': corr['parts']},
            'search': {'cases': search.get('cases', 0), 'failing_new': len(new), 'failing_known': len(known),
                       'distribution': search.get('distribution', {}), 'exhaustive': search.get('exhaustive', False)},
            'explanation': cfg.get('explanation', '') or (
                'obligations = theorems listed in obligations/%s.json, re-checked by the Lean kernel on definitions regenerated from the '
                'current source (or on the hand-written model named in MANIFEST.json); `uncovered` = functions in the scope of the property '
                'that no listed theorem is about (covered by the correspondence run and the failing-input search only); evaluations = '
                'model-vs-code comparisons + search cases (support, not proof).' % prop),
            'leanchecker': leancheck,
        }
        evidence['coverage'] = cov
        evidence['violations'] = len(violations)
    except Exception:
        traceback.print_exc()
        evidence['coverage'] = {'explanation': 'infrastructure failure: ' + traceback.format_exc()[-800:], 'evaluations': 0, 'distinct_nontrivial': 0}
        evidence['wall_s'] = timer.s()
        common.write_json(os.path.join(os.environ.get('VERIF_EVIDENCE_DIR') or os.path.join(common.VERIF, 'evidence'), prop + '.json'), evidence)
        return 2
    evidence['wall_s'] = timer.s()
    common.write_json(os.path.join(os.environ.get('VERIF_EVIDENCE_DIR') or os.path.join(common.VERIF, 'evidence'), prop + '.json'), evidence)
    for kind, path in violations:
        rel = os.path.relpath(path, common.VERIF)
        if kind == 'failing-input':
            print('VIOLATION property=%s replay=%s' % (prop, rel))
        else:
            print('VIOLATION property=%s replay=%s no-failing-input-found' % (prop, rel))
    print('%s: obligations %d/%d, correspondence %d/%d, search cases %d (new failing %d, known %d), %.1fs' % (
        prop, evidence['coverage']['discharged'], evidence['coverage']['obligations'], corr['agree'], corr['evaluations'],
        search.get('cases', 0), len(new), len(known), evidence['wall_s']))
    return 1 if violations else 0


def replay(prop, cfg, path):
    with open(path) as f:
        case = json.load(f)
    if case.get('kind') == 'no-failing-input-found':
        print('replay: proof/correspondence break, no input to replay:', json.dumps(case.get('broken'))[:2000])
        return 1
    eng = importlib.import_module('search.' + cfg['search'])
    r = eng.replay(case)
    if r is None:
        print('replay: case passes on the current tree')
        return 0
    print('replay: STILL FAILS:', json.dumps(r, default=str)[:2000])
    return 1


if __name__ == '__main__':
    sys.exit(main())
