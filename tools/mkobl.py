"""Record the hand-written theorems of a Props file as obligations: every `#print axioms` line in the file.
usage: mkobl.py C06 Props.C06 [covers-text]"""
import json
import os
import re
import subprocess
import sys

sys.path.insert(0, os.path.dirname(os.path.abspath(__file__)))
import common  # noqa: E402

prop, module = sys.argv[1], sys.argv[2]
path = os.path.join(common.LEAN_DIR, module.replace('.', '/') + '.lean')
p = subprocess.run(['lake', 'env', 'lean', path], cwd=common.LEAN_DIR, capture_output=True, text=True)
out = (p.stdout + p.stderr).replace('\n ', ' ')
names = re.findall(r"'([^']+)' (?:depends on axioms|does not depend on any axioms)", out)
opath = os.path.join(common.VERIF, 'obligations', prop + '.json')
try:
    obl = json.load(open(opath))
except (OSError, ValueError):
    obl = {'property': prop, 'theorems': []}
others = [t for t in obl['theorems'] if t.get('module') != module]
obl['theorems'] = others + [{'name': n, 'module': module, 'covers': sys.argv[3] if len(sys.argv) > 3 else 'spec-level model'} for n in dict.fromkeys(names)]
common.write_json(opath, obl)
print(prop, module, len(names), 'theorems;', 'errors' if 'error' in out else 'no errors')
