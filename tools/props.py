"""Per-property configuration of bin/check."""
import json
import os

import common


def _driven(prep):
    try:
        with open(os.path.join(common.LEAN_DIR, 'Gen', 'driven.json')) as f:
            return [k for k, v in json.load(f).items() if v == 'driven']
    except (OSError, ValueError):
        return []


def scope_funcs(names=None, modules=None, prefixes=None):
    """scope = driven generated functions selected by function name / module / name prefix"""
    def f(prep):
        out = []
        for k in _driven(prep):
            mod, fn = k.split(':')
            if modules is not None and mod not in modules:
                continue
            if names is not None and fn in names:
                out.append(k)
            elif prefixes is not None and fn.startswith(tuple(prefixes)):
                out.append(k)
            elif names is None and prefixes is None:
                out.append(k)
        return out
    return f


CORR_N = {
    'checksum.py': {'quick': 4000, 'thorough': 40000},
    'numdb.py': {'quick': 3000, 'thorough': 30000},
    'wsgi.py': {'quick': 3000, 'thorough': 30000},
    'regex.py': {'quick': 4000, 'thorough': 50000},
    'unicode.py': {'quick': 4000, 'thorough': 30000},
    'standards.py': {'quick': 6000, 'thorough': 40000},
    'gs1.py': {'quick': 400, 'thorough': 3000},
    'warm.py': {'quick': 3000, 'thorough': 30000},
}

PROPS = {
    'C01': {'search': 'c01', 'scope': scope_funcs(names={'validate', 'is_valid', 'compact'})},
    'C02': {'search': 'c02', 'scope': scope_funcs(names={'validate', 'compact'})},
    'C03': {'search': 'c03', 'scope': scope_funcs(names={'validate', 'compact'})},
    'C04': {'search': 'c04', 'scope': scope_funcs(names={'validate', 'compact', 'format'})},
    'C05': {'search': 'c05', 'scope': scope_funcs(names={'validate'}, prefixes=['calc_', 'checksum', '_calc'])},
    'C06': {'search': 'c06', 'corr': ['checksum.py'],
            'scope': scope_funcs(modules=set(common.GENERIC_MODULES))},
    'C07': {'search': 'c07', 'corr': ['standards.py'], 'scope': scope_funcs(names={'validate'}, modules={
        'stdnum.isbn', 'stdnum.ean', 'stdnum.issn', 'stdnum.ismn', 'stdnum.isin', 'stdnum.iban', 'stdnum.imei',
        'stdnum.iso11649', 'stdnum.isni', 'stdnum.lei', 'stdnum.grid', 'stdnum.cusip', 'stdnum.gb.sedol', 'stdnum.figi',
        'stdnum.imo', 'stdnum.casrn', 'stdnum.bic', 'stdnum.isrc', 'stdnum.bitcoin'})},
    'C08': {'search': 'c08', 'scope': scope_funcs(prefixes=['to_', 'from_', 'convert'])},
    'C09': {'search': 'c09', 'corr': ['warm.py'], 'scope': scope_funcs(names={'validate', 'guess_type', 'guess_country'}, modules={
        'stdnum.eu.vat', 'stdnum.vatin', 'stdnum.us.tin', 'stdnum.be.ssn', 'stdnum.th.tin', 'stdnum.es.nif', 'stdnum.iban'})},
    'C10': {'search': 'c10', 'corr': ['numdb.py']},
    'C11': {'search': 'c11', 'corr': ['numdb.py'], 'scope': scope_funcs(modules={
        'stdnum.at.postleitzahl', 'stdnum.at.businessid', 'stdnum.be.iban', 'stdnum.cz.bankaccount', 'stdnum.my.nric', 'stdnum.us.ein',
        'stdnum.isil', 'stdnum.isbn', 'stdnum.iban', 'stdnum.cfi', 'stdnum.cn.ric', 'stdnum.imsi', 'stdnum.eu.nace', 'stdnum.id.npwp',
        'stdnum.nz.bankaccount'})},
    'C12': {'search': 'c12', 'scope': scope_funcs(names={'info', 'split'}, prefixes=['get_'])},
    'C13': {'search': 'c13', 'corr': ['warm.py']},
    'C14': {'search': 'c14', 'scope': scope_funcs(modules={'stdnum.util'})},
    'C15': {'search': 'c15', 'scope': scope_funcs(names={'validate'})},
    'C16': {'search': 'c16', 'corr': ['gs1.py'], 'scope': scope_funcs(modules={'stdnum.gs1_128'})},
    'C17': {'search': 'c17', 'scope': scope_funcs(names={'validate'}, modules={
        'stdnum.isbn', 'stdnum.ean', 'stdnum.issn', 'stdnum.ismn', 'stdnum.imei', 'stdnum.isni', 'stdnum.iban', 'stdnum.lei',
        'stdnum.iso11649', 'stdnum.grid', 'stdnum.isan', 'stdnum.meid', 'stdnum.at.uid', 'stdnum.ca.bn', 'stdnum.ca.sin', 'stdnum.de.idnr',
        'stdnum.de.vat', 'stdnum.do.cedula', 'stdnum.es.cif', 'stdnum.eu.at_02', 'stdnum.fr.siren', 'stdnum.fr.siret', 'stdnum.gn.nifp',
        'stdnum.gr.amka', 'stdnum.hr.oib', 'stdnum.id.npwp', 'stdnum.il.hp', 'stdnum.il.idnr', 'stdnum.in_.aadhaar', 'stdnum.in_.epic',
        'stdnum.in_.gstin', 'stdnum.in_.vid', 'stdnum.it.iva', 'stdnum.ma.ice', 'stdnum.nl.btw', 'stdnum.no.kontonr', 'stdnum.rs.pib',
        'stdnum.se.orgnr', 'stdnum.se.personnummer', 'stdnum.za.idnr', 'stdnum.za.tin'})},
    'C18': {'search': 'c18', 'corr': ['wsgi.py']},
}
