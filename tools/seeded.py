"""Manage the seeded changes in /verif/seeded/<id>/ (patch.diff, demo.py, meta.json).

  seeded.py ingest <src dir> <id>     validate a sub-agent's deliverable in a scratch worktree and copy it
  seeded.py run <id>|all [--props C01,C02] [--tier quick]
                                      apply the patch to /repo, run the checks, restore /repo, record results

Validation (ingest): patch applies to clean HEAD; the repository's test suite passes with it; the demo exits
non-zero with the patch and zero without.  /repo itself is never left modified.
"""
import json
import os
import shutil
import subprocess
import sys
import time

VERIF = os.path.dirname(os.path.dirname(os.path.abspath(__file__)))
SEEDED = os.path.join(VERIF, 'seeded')
PY = '/venv/bin/python'


def sh(cmd, cwd=None, env=None, timeout=3600):
    p = subprocess.run(cmd, cwd=cwd, env=env, capture_output=True, text=True, timeout=timeout, shell=isinstance(cmd, str))
    return p.returncode, p.stdout + p.stderr


def ingest(src, sid):
    wt = '/tmp/seedchk_%s' % sid
    sh(['git', '-C', '/repo', 'worktree', 'remove', '--force', wt])
    rc, out = sh(['git', '-C', '/repo', 'worktree', 'add', '--detach', wt, 'HEAD'])
    assert rc == 0, out
    res = {'id': sid}
    try:
        env = dict(os.environ, PYTHONPATH=wt)
        rc, out = sh([PY, os.path.join(src, 'demo.py')], cwd='/tmp', env=env)
        res['demo_clean_rc'] = rc
        rc, out = sh(['git', 'apply', os.path.join(src, 'patch.diff')], cwd=wt)
        res['apply_rc'] = rc
        if rc != 0:
            res['apply_out'] = out[-500:]
        rc, out = sh([PY, os.path.join(src, 'demo.py')], cwd='/tmp', env=env)
        res['demo_patched_rc'] = rc
        res['demo_patched_out'] = out[-600:]
        rc, out = sh([PY, '-m', 'pytest', '-q', '-p', 'no:cacheprovider', '--timeout=900', '-x'], cwd=wt, env=env)
        res['tests_rc'] = rc
        res['tests_tail'] = out.strip().split('\n')[-1][-200:]
    finally:
        sh(['git', '-C', '/repo', 'worktree', 'remove', '--force', wt])
    ok = res.get('demo_clean_rc') == 0 and res.get('apply_rc') == 0 and res.get('demo_patched_rc', 0) != 0 and res.get('tests_rc') == 0
    res['confirmed'] = ok
    if ok:
        dst = os.path.join(SEEDED, sid)
        os.makedirs(dst, exist_ok=True)
        for f in ('patch.diff', 'demo.py'):
            shutil.copy(os.path.join(src, f), os.path.join(dst, f))
        try:
            meta = json.load(open(os.path.join(src, 'meta.json')))
        except (OSError, ValueError):
            meta = {}
        meta['id'] = sid
        meta['confirmed_by'] = ('scratch worktree of /repo HEAD: demo rc=0 clean, rc=%d patched; pytest (385 tests) rc=0 with patch: %s'
                                % (res['demo_patched_rc'], res['tests_tail']))
        json.dump(meta, open(os.path.join(dst, 'meta.json'), 'w'), indent=1)
    print(json.dumps(res, indent=1))
    return ok


def repo_clean():
    rc, out = sh(['git', '-C', '/repo', 'status', '--porcelain'])
    return out.strip() == ''


def run(sid, props, tier, in_place=False):
    """run checks against the seeded change.  Default: in a scratch worktree of /repo HEAD (VERIF_REPO points
    the whole machinery at it), so that /repo itself stays untouched while other work reads it; `--in-place`
    applies the patch to /repo and restores it afterwards (the procedure of the brief)."""
    d = os.path.join(SEEDED, sid)
    meta = json.load(open(os.path.join(d, 'meta.json')))
    props = props or [meta.get('property')]
    env = dict(os.environ, VERIF_SEED=os.environ.get('VERIF_SEED', '1'),
               VERIF_EVIDENCE_DIR=os.path.join(VERIF, 'work', 'evidence_seeded'))   # never overwrite the clean-tree evidence
    if in_place:
        assert repo_clean(), '/repo has uncommitted changes'
        target = '/repo'
    else:
        target = '/tmp/seedrun_%s' % sid
        sh(['git', '-C', '/repo', 'worktree', 'remove', '--force', target])
        rc, out = sh(['git', '-C', '/repo', 'worktree', 'add', '--detach', target, 'HEAD'])
        assert rc == 0, out
        env['VERIF_REPO'] = target
        env['PYTHONPATH'] = target
    rc, out = sh(['git', '-C', target, 'apply', os.path.join(d, 'patch.diff')])
    results = {}
    try:
        assert rc == 0, 'patch does not apply: ' + out
        for p in props:
            t0 = time.time()
            rc, out = sh([os.path.join(VERIF, 'bin', 'check'), p, '--tier', tier], cwd=VERIF, env=env, timeout=7200)
            lines = [l for l in out.split('\n') if l.startswith(('VIOLATION', 'KNOWN-FINDING')) or l.startswith(p + ':')]
            kinds = sorted({('no-failing-input-found' if l.endswith('no-failing-input-found') else 'failing-input') for l in lines if l.startswith('VIOLATION')})
            results[p] = {'rc': rc, 'detected': rc == 1, 'kinds': kinds, 'violations': sum(1 for l in lines if l.startswith('VIOLATION')),
                          'summary': [l for l in lines if l.startswith(p + ':')][-1:], 'wall_s': round(time.time() - t0, 1)}
            if rc not in (0, 1):
                results[p]['tail'] = out[-600:]
    finally:
        if in_place:
            sh(['git', '-C', '/repo', 'checkout', '--', '.'])
            sh(['git', '-C', '/repo', 'clean', '-fdq', '--', 'stdnum', 'online_check', 'tests'])
            assert repo_clean()
        else:
            sh(['git', '-C', '/repo', 'worktree', 'remove', '--force', target])
    meta.setdefault('runs', {})
    for p, r in results.items():
        meta['runs']['%s/%s' % (p, tier)] = r
    json.dump(meta, open(os.path.join(d, 'meta.json'), 'w'), indent=1)
    print(sid, json.dumps(results))
    return results


if __name__ == '__main__':
    cmd = sys.argv[1]
    if cmd == 'ingest':
        sys.exit(0 if ingest(sys.argv[2], sys.argv[3]) else 1)
    if cmd == 'run':
        ids = sorted(os.listdir(SEEDED)) if sys.argv[2] == 'all' else [sys.argv[2]]
        props = None
        tier = 'quick'
        for a in sys.argv[3:]:
            if a.startswith('--props'):
                props = a.split('=', 1)[1].split(',')
            if a.startswith('--tier'):
                tier = a.split('=', 1)[1]
        for sid in ids:
            if os.path.isdir(os.path.join(SEEDED, sid)):
                try:
                    run(sid, props, tier, in_place='--in-place' in sys.argv)
                except Exception as ex:   # one stale patch must not stop the batch
                    print(sid, 'ERROR', repr(ex)[:300])
