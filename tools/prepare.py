"""Regenerate the Lean model from /repo's working tree and (re)build everything; report per-module status.

Steps (DESIGN.md §2.5, 1–3), under an exclusive lock so that checks started in parallel share one build:
  1. py2lean        -> lean/Gen/*.lean, Gen/manifest.json      (files rewritten only when changed)
  2. gen_driver     -> lean/Driver/D_*.lean, Dispatch.lean
  3. gen_props      -> lean/Props/Auto/*.lean                  (generated per-module theorems)
  4. lake build     -> which modules failed, with error lines
  5. axiom audit    -> `#print axioms` of every obligation theorem
The result is cached in work/prepare.json keyed by the hash of every input file.
"""
import fcntl
import glob
import hashlib
import json
import os
import re
import subprocess
import sys
import time

sys.path.insert(0, os.path.dirname(os.path.abspath(__file__)))
import common  # noqa: E402

LEAN = common.LEAN_DIR
# generator subprocesses must import the tree under test (VERIF_REPO), not the installed copy
os.environ['PYTHONPATH'] = common.REPO
os.environ['VERIF_REPO'] = common.REPO
PY = '/venv/bin/python'
ALLOWED_AXIOMS = {'propext', 'Classical.choice', 'Quot.sound'}
LAKE_TARGETS = ['PyRt', 'Gen', 'Spec', 'Lemmas', 'Props', 'driver']


def inputs_hash():
    h = hashlib.sha256()
    h.update(common.tree_hash().encode())
    pats = ['tools/py2lean/*.py', 'tools/gen_props.py', 'tools/gen_gs1.py', 'tools/gen_c11.py', 'lean/Props/C11data/[A-Z]*.lean', 'lean/Props/C16/*.lean', 'tools/prepare.py', 'lean/lakefile.toml',
            'lean/PyRt/*.lean', 'lean/Spec/*.lean', 'lean/Lemmas/*.lean', 'lean/Props/*.lean',
            'lean/Driver/Main.lean', 'lean/Driver/[A-CE-Z]*.lean', 'lean/*.lean', 'obligations/*.json']
    for pat in pats:
        for path in sorted(glob.glob(os.path.join(common.VERIF, pat))):
            h.update(path.encode())
            with open(path, 'rb') as f:
                h.update(f.read())
    return h.hexdigest()


def run(cmd, cwd=None, timeout=3600):
    t0 = time.time()
    p = subprocess.run(cmd, cwd=cwd, capture_output=True, text=True, timeout=timeout)
    return p.returncode, p.stdout + p.stderr, round(time.time() - t0, 1)


def parse_lake(out):
    failed, errors = [], []
    for line in out.split('\n'):
        m = re.match(r'^✖ \[\d+/\d+\] (?:Building|Running) (\S+)', line)
        if m:
            failed.append(m.group(1))
        m = re.match(r'^error: (\S+?\.lean):(\d+):(\d+): (.*)', line)
        if m:
            errors.append({'file': m.group(1), 'line': int(m.group(2)), 'msg': m.group(4)[:300]})
    return failed, errors


def module_of_file(path):
    return path[:-5].replace('/', '.') if path.endswith('.lean') else path


def all_obligations():
    """{property: [ {name, file(module), covers, ...} ]}"""
    res = {}
    for path in sorted(glob.glob(os.path.join(common.VERIF, 'obligations', 'C*.json'))):
        with open(path) as f:
            d = json.load(f)
        res[d['property']] = d
    return res


def audit(obls, failed_modules):
    """#print axioms for every obligation whose module built"""
    by_mod = {}
    for prop, d in obls.items():
        for t in d.get('theorems', []):
            by_mod.setdefault(t['module'], []).append(t['name'])
    failed = set(failed_modules)
    status = {}
    lines = []
    mods = []
    # a module that (transitively) imports a module that failed was not rebuilt: its old object file must not be
    # loaded (it talks about definitions that no longer exist in that form)
    imports_of = {}

    def imports(mod):
        if mod not in imports_of:
            path = os.path.join(LEAN, mod.replace('.', '/') + '.lean')
            res = []
            try:
                for line in open(path, encoding='utf-8'):
                    m = re.match(r'^import\s+(\S+)', line)
                    if m:
                        res.append(m.group(1))
                    elif line.strip() and not line.startswith(('import', '--', '/-')) and res:
                        break
            except OSError:
                pass
            imports_of[mod] = res
        return imports_of[mod]
    blocked = {}

    def blocker(mod, depth=0):
        if mod in blocked:
            return blocked[mod]
        blocked[mod] = None
        if mod in failed:
            blocked[mod] = mod
            return mod
        if mod.split('.')[0] in ('Gen', 'PyRt', 'Lemmas', 'Spec', 'Props', 'Driver') or mod in ('PyRt', 'Gen', 'Props', 'Lemmas', 'Spec'):
            for i in imports(mod):
                b = blocker(i, depth + 1)
                if b:
                    blocked[mod] = b
                    return b
        return None
    sys.setrecursionlimit(10000)
    for mod, names in sorted(by_mod.items()):
        olean = os.path.join(LEAN, '.lake', 'build', 'lib', 'lean', mod.replace('.', '/') + '.olean')
        b = blocker(mod)
        if b or not os.path.exists(olean):
            for n in names:
                status[n] = {'status': 'failed', 'why': ('module %s did not build' % mod) if b in (mod, None) else
                             'module %s was not rebuilt: it imports %s, which did not build' % (mod, b)}
            continue
        mods.append(mod)
        for n in sorted(set(names)):
            lines.append('#print axioms %s' % n)
    if not lines:
        return status
    os.makedirs(common.WORK, exist_ok=True)
    # one audit file per module group keeps a missing theorem from hiding the others
    src = ''.join('import %s\n' % m for m in mods) + '\n'.join(lines) + '\n'
    path = os.path.join(common.WORK, 'Audit.lean')
    with open(path, 'w') as f:
        f.write(src)
    rc, out, secs = run(['lake', 'env', 'lean', path], cwd=LEAN)
    cur = None
    found = {}
    # output: "'name' depends on axioms: [a, b]" / "'name' does not depend on any axioms" / errors with line numbers
    for m in re.finditer(r"'([^']+)' depends on axioms: \[([^\]]*)\]|'([^']+)' does not depend on any axioms", out.replace('\n ', ' ')):
        if m.group(1):
            found[m.group(1)] = [a.strip() for a in m.group(2).replace('\n', ' ').split(',') if a.strip()]
        else:
            found[m.group(3)] = []
    for mod, names in by_mod.items():
        for n in names:
            if n in status:
                continue
            if n in found:
                bad = [a for a in found[n] if a not in ALLOWED_AXIOMS]
                status[n] = {'status': 'ok' if not bad else 'bad-axioms', 'axioms': found[n]}
            else:
                status[n] = {'status': 'missing', 'why': 'theorem not found in built module'}
    return status


HYGIENE_RE = re.compile(r'\b(sorry|admit|native_decide|bv_decide|implemented_by)\b|^\s*axiom\s|\bunsafe\s|maxHeartbeats\s+0')


def hygiene():
    """grep proof and model sources for forbidden constructs (outside comments)"""
    hits = []
    for pat in ['PyRt/*.lean', 'Spec/*.lean', 'Lemmas/*.lean', 'Props/*.lean', 'Props/*/*.lean', 'Gen/*.lean']:
        for path in sorted(glob.glob(os.path.join(LEAN, pat))):
            in_block = 0
            for i, line in enumerate(open(path, encoding='utf-8'), 1):
                s = line
                # strip block comments (coarse) and line comments
                if in_block:
                    if '-/' in s:
                        in_block = 0
                        s = s.split('-/', 1)[1]
                    else:
                        continue
                if '/-' in s:
                    head, rest = s.split('/-', 1)
                    if '-/' in rest:
                        s = head + rest.split('-/', 1)[1]
                    else:
                        in_block = 1
                        s = head
                s = s.split('--', 1)[0]
                if HYGIENE_RE.search(s):
                    hits.append('%s:%d: %s' % (os.path.relpath(path, LEAN), i, line.strip()[:120]))
    return hits


def prepare(verbose=False):
    os.makedirs(common.WORK, exist_ok=True)
    lock_path = os.path.join(common.WORK, 'check.lock')
    with open(lock_path, 'w') as lock:
        fcntl.flock(lock, fcntl.LOCK_EX)
        key = inputs_hash()
        cache = os.path.join(common.WORK, 'prepare.json')
        if os.path.exists(cache):
            try:
                with open(cache) as f:
                    res = json.load(f)
                if res.get('key') == key and os.path.exists(os.path.join(LEAN, '.lake', 'build', 'bin', 'driver')):
                    res['cached'] = True
                    return res
            except ValueError:
                pass
        t0 = time.time()
        res = {'key': key, 'cached': False, 'steps': {}}
        rc, out, secs = run([PY, os.path.join(common.VERIF, 'tools', 'py2lean', 'py2lean.py'), '--repo', common.REPO, '--out', LEAN])
        res['steps']['py2lean'] = {'rc': rc, 's': secs, 'out': out[-3000:]}
        rc2, out2, secs2 = run([PY, os.path.join(common.VERIF, 'tools', 'py2lean', 'gen_driver.py'), LEAN])
        res['steps']['gen_driver'] = {'rc': rc2, 's': secs2, 'out': out2[-1000:]}
        gg = os.path.join(common.VERIF, 'tools', 'gen_gs1.py')
        if os.path.exists(gg):
            rcg, outg, secsg = run([PY, gg], cwd=common.VERIF)
            res['steps']['gen_gs1'] = {'rc': rcg, 's': secsg, 'out': outg[-500:]}
        gc = os.path.join(common.VERIF, 'tools', 'gen_c11.py')
        if os.path.exists(gc):
            rcc, outc, secsc = run([PY, gc], cwd=common.VERIF)
            res['steps']['gen_c11'] = {'rc': rcc, 's': secsc, 'out': outc[-500:]}
        gp = os.path.join(common.VERIF, 'tools', 'gen_props.py')
        if os.path.exists(gp):
            rc3, out3, secs3 = run([PY, gp])
            res['steps']['gen_props'] = {'rc': rc3, 's': secs3, 'out': out3[-2000:]}
        rc4, out4, secs4 = run(['lake', 'build'] + LAKE_TARGETS, cwd=LEAN, timeout=7200)
        failed, errors = parse_lake(out4)
        res['steps']['lake'] = {'rc': rc4, 's': secs4, 'tail': out4[-1500:] if rc4 else ''}
        res['failed_modules'] = failed
        res['errors'] = errors[:400]
        res['driver_ok'] = os.path.exists(os.path.join(LEAN, '.lake', 'build', 'bin', 'driver')) and 'driver' not in ' '.join(failed) and not any(f.startswith('Driver') for f in failed)
        try:
            with open(os.path.join(LEAN, 'Gen', 'manifest.json')) as f:
                man = json.load(f)
            res['unmodelled'] = sorted(k for k, v in man['functions'].items() if not v['ok'])
            res['translated'] = sum(1 for v in man['functions'].values() if v['ok'])
        except (OSError, ValueError):
            res['unmodelled'] = []
            res['translated'] = 0
        if rc4 != 0 and not failed:
            # the build failed but no failing module could be identified: trust nothing that was built before
            res['audit'] = {t['name']: {'status': 'failed', 'why': 'lake build failed without naming a module: ' + out4[-300:]}
                            for d in all_obligations().values() for t in d.get('theorems', [])}
        else:
            res['audit'] = audit(all_obligations(), failed)
        res['hygiene'] = hygiene()
        res['wall_s'] = round(time.time() - t0, 1)
        common.write_json(cache, res)
        return res


if __name__ == '__main__':
    r = prepare(verbose=True)
    print(json.dumps({k: v for k, v in r.items() if k not in ('audit', 'errors', 'unmodelled', 'steps')}, indent=1))
    print('steps:', {k: (v['rc'], v['s']) for k, v in r['steps'].items()})
    print('errors:', len(r['errors']), r['errors'][:5])
    st = {}
    for n, s in r['audit'].items():
        st[s['status']] = st.get(s['status'], 0) + 1
    print('audit:', st)
    print('hygiene hits:', r['hygiene'][:10])
