"""Write /verif/MANIFEST.json from the table below (single source of truth for what is claimed)."""
import json
import os

VERIF = os.path.dirname(os.path.dirname(os.path.abspath(__file__)))
props = [json.loads(l) for l in open(os.path.join(VERIF, 'properties.jsonl'))]

COMMON_NOTE = ('Trusted: Lean 4.33 kernel with axioms propext/Classical.choice/Quot.sound only (audited per theorem on every run, no sorry/'
               'native_decide); the py2lean translator and the PyRt runtime (hand-written Lean semantics of the Python built-ins), which are '
               'validated on every run by a differential run of the natively compiled model against CPython; Unicode/regex-parser oracles taken '
               'from the running interpreter. Non-string arguments and anything the evidence lists under `uncovered` are covered by the '
               'failing-input search on the real code only (support, not proof).')

# property -> (claimed?, technique, level text, design ref, extra note)
CLAIMS = {
    'C01': ('Lean 4 theorems on the regenerated model: per module `is_valid = (validate returned a non-empty value)` (case analysis), `validate` raises only ValidationError subclasses and returns a non-empty string (Std.Do mvcgen verification conditions + lemma library); differential run; failing-input search incl. non-strings',
            'Proof per module listed in obligations/C01.json, over all strings, all option values and all dates, on definitions regenerated from the current '
            'source: family C01v (is_valid/validate agreement), C01c (no foreign exception) and C01n (non-empty result) for the modules whose '
            'verification conditions the tactic closes (listed; the others are covered by the search only). Non-string arguments are outside the model '
            '(search only).', '§4 C01, §8', ''),
    'C04': ('Lean 4 theorems on the regenerated model, per module: compact x = compact y -> format x = format y (family C04), and validate x = ok v -> format v succeeds and validate (format v) = ok v (family C04v: the formatted number is accepted with the same identity; via compact (format v) = v, the C03 and the C02 theorem); differential run; failing-input search',
            'Proof for the modules listed in obligations/C04.json (all strings, default format options) on definitions regenerated from the current source; for the other modules, and for non-default format options, '
            'the second half (format(x) is accepted with the same identity) is covered by the search only (listed as uncovered). 15 call sites where the statement is false of the code are known findings.', '§4 C04, §8', ''),
    'C13': ('Lean 4 theorems on a hand-written state-machine model (sequential histories, arbitrary thread interleavings, heap non-interference of _find) and on the generated state-passing twins of the three memoising lookups (warm = cold for every cache content satisfying the invariant, hence for every history; Props/C13w), runtime exploration of the real library (histories, container mutation, 2-16 threads, fresh-process references)',
            'Proof for the model Spec.State (every finite history, every schedule and thread count) and for the regenerated `_get_cc_module__warm` functions (tie: tools/corr/warm.py with arbitrary cache contents); the tie of Spec.State to the implementation is the runtime exploration '
            'tools/search/c13.py, which compares every call with a fresh process. CPython import-lock behaviour during concurrent first imports cannot be '
            'exhibited by the model (named partial; one such defect is a known finding).', '§4 C13, §8', ''),
    'C03': ('Lean 4 theorems on the regenerated model (one per module: compact x = compact y -> validate x = validate y), differential model/CPython run, failing-input search',
            'Proof for every module whose theorem is listed in obligations/C03.json (statement over all pairs of strings and all option values, on the '
            'definition regenerated from the current source); the wrappers whose validate() cleans differently from compact() are covered by '
            'the search only and listed as uncovered in the evidence.', '§4 C03', ''),
    'C05': ('Lean 4 theorems on the regenerated model (generator = check character of every accepted number; uniqueness; completion of a payload validates) for ean, issn, isbn-10, imei, aadhaar, grid, isni, iban (hand proofs) and, as generated family C05g, `validate x = ok v -> generator(payload v) = check part of v` for every module whose validate compares a generated check character; differential run; failing-input search over ~100 generator modules',
            'Proof for the formats listed in obligations/C05.json (all accepted numbers / all well-formed payloads, unbounded where the format is); the other generator modules are '
            'covered by the search only (listed as uncovered).', '§4 C05, §8', ''),
    'C07': ('Lean 4 theorems on the regenerated model: validate = declarative predicate written from the published rule (Spec.Standards) for every string, for the formats proved so far; the Lean predicates are cross-checked against an independent Python transcription; failing-input search incl. exhaustive small spaces',
            'Proof of exact agreement (all strings) for the formats listed in obligations/C07.json; the remaining formats of the property are covered by the search against the independent '
            'Python reference only (listed as uncovered). Spec.Standards itself is tied to that reference by tools/corr/standards.py.', '§4 C07, §8', ''),
    'C16': ('Lean 4 theorems on a hand-written model of gs1_128.py (info∘encode and validate fixed-point for every registry/validator environment and mappings of any size, under explicit well-formedness and six defect-excluding hypotheses; kernel-evaluated facts about the regenerated identifier table; negations of the full statements by kernel-evaluated witnesses), differential run, failing-input search',
            'Proof on the hand-written model Spec.GS1 (tie = tools/corr/gs1.py on every check, all 213 identifiers). The full statements are false of the code as it is (seven known defects, each with a '
            'proved witness and listed as a known finding); the proved theorems are the _partial versions whose hypotheses exclude exactly those cases.', '§4 C16, §8', ''),
    'C17': ('Lean 4 theorems on the regenerated model (single substitution / adjacent transposition of an accepted number is rejected) for the formats listed in obligations/C17.json (ISBN/EAN/ISSN/ISMN/IMEI/ISNI/IBAN/LEI/ISO 11649/GRid and 32 national numbers) via refinement to the generic algorithms and the abstract fold-detection theorem; full statements that are false of the code have a kernel-checked negation and a _partial theorem; differential run; exhaustive neighbourhood search',
            'Proof for the formats listed in obligations/C17.json (every accepted number, every position, every same-class replacement); three ISBN-13/ISMN statements carry an extra ASCII-digit '
            'hypothesis (named _partial). Other listed formats: search only.', '§4 C17, §8', ''),
    'C06': ('Lean 4 theorems (abstract fold detection theorem + instances, unbounded length, all even Luhn bases) on a hand-written model tied to the code by a differential run; failing-input search',
            'Proof on the spec-level model Spec.Checksum of the eight algorithm modules for every word length and every alphabet of the stated '
            'shape; the model is hand-written and its tie to stdnum is the differential run tools/corr/checksum.py (every check) plus the '
            'differential run of the regenerated functions.', '§4 C06', ''),
    'C08': ('Lean 4 theorems on the regenerated conversion functions (target-valid, identity embedded, paired conversions inverse; for every valid source number given in any accepted presentation), negations of over-strong statements by kernel-evaluated witnesses; differential run; failing-input search over 41 conversion functions',
            'Proof for the relations listed in obligations/C08.json on definitions regenerated from the current source; relations whose functions the translator does not model '
            '(fr.siret, de.stnr, isan, it.aic base 32, meid) are covered by the search only. Several full statements are false of the code as it is (separator-carrying inputs '
            'spliced by position; CUSIP special characters): proved negations + _partial theorems, listed as findings.', '§4 C08, §8', ''),
    'C10': ('Lean 4 theorems (lossless concatenation, loop = declarative shortest-prefix rule, unfolding, unmatched tail, reader invariants; all trees, all numbers) on a hand-written model of numdb tied by a differential run on all shipped registries and generated files; failing-input search against an independent transcription of the rule',
            'Proof on the hand-written model Spec.NumDB of NumDB._find/info/split and of the reader; tie = tools/corr/numdb.py (all 17 shipped files + '
            'generated well-formed and ill-formed files, every check). Equality of the Lean reader and the Python reader is tested, not proved.', '§4 C10', ''),
    'C14': ('Lean 4 theorems on the regenerated clean()/_char_map (kernel evaluation over the whole table + list lemmas for all strings), differential run, exhaustive search over all code points',
            'Proof on the regenerated definitions: `Gen.util.clean s d = ok (cleanP s d)` for every string and delete set, table facts by kernel '
            'evaluation against the Unicode oracle tables, order/count/idempotence for all strings.', '§4 C14', ''),
    'C18': ('Lean 4 theorems on a hand-written model of the WSGI script (escape safety/injectivity, page structure, status 200 under stated assumptions), differential run, in-process search on the real application',
            'Proof on the hand-written model Spec.Wsgi; tie = tools/corr/wsgi.py (escape, template formatting, format(), application end-to-end with '
            'synthetic module tables). parse_qs and the WSGI server are outside the model (named partial).', '§4 C18', ''),
    'C02': ('Lean 4 theorems on the regenerated model (per module, partial-correctness Hoare triple closed by the VC tactic: validate x = ok v -> validate v = ok v, and v has no outer whitespace), differential run, failing-input search re-feeding every accepted output under every option',
            'Proof for the modules listed in obligations/C02.json (families C02f and C02i; all strings, all option values, all dates) on definitions regenerated from the current source; '
            'the remaining modules (listed as uncovered in the evidence) are covered by the search only; twelve call sites where the statement is false of the code are known findings.', '§4 C02, §8', ''),
    'C09': ('Lean 4 theorems on the regenerated wrappers (eu.vat = member validator through the tabulated dispatch for all 31 prefixes and every string, guess_country/guess_type = filter of the table, us.tin/th.tin/be.ssn = first-match union, es.nif superset, iban = generic rules and national module) with kernel-evaluated dispatch tables; differential run; failing-input search per (wrapper, constituent) relation',
            'Proof for the relations listed in obligations/C09.json, all strings, on definitions regenerated from the current source (get_cc_module is tabulated from the running interpreter on every run). '
            'vatin.validate is not translated: vatin >= eu.vat is proved at the dispatch-table level and otherwise covered by the search only. Prefix re-attachment for a national number that itself starts '
            'with the country code is false of the code (proved witness; known finding).', '§4 C09, §8', ''),
    'C11': ('Lean 4 kernel evaluation over trees regenerated from the shipped registry files on every run (structure, line round-trip, well-formedness or the exact list of defects, reachability of every entry) lifted by general theorems proved for all trees (reachable_of_WF, reachable_except); consumer theorems on the regenerated code (IBAN structure table and witnesses, ISBN five-part split for every range, info() getters); differential run of the Lean reader against numdb.read; failing-input search over all 17 files',
            'Proof for 15 of the 17 registries (all but oui.dat and gs1_ai.dat, whose size or consumer is outside the kernel-evaluated model; search and the C16 table facts cover those): every line, exhaustive. '
            'For seven large registries the tree is tied to the Lean reader by the native differential run only (no kernel-proved link, hence no consumer theorem). Known data defects are pinned as exact lists, so a new one breaks a proof.', '§4 C11, §8', ''),
    'C15': ('Lean 4 theorems on the regenerated model (per module, partial-correctness Hoare triple closed by the VC tactic: validate x = ok v -> every character of v is ASCII), differential run, failing-input search substituting every foreign digit/letter class at every position',
            'Proof for the modules listed in obligations/C15.json (family C15a; all strings, all option values, all dates) on definitions regenerated from the current source; '
            'the other identifier modules are covered by the search only (listed as uncovered); three call sites are known findings.', '§4 C15, §8', ''),
    'C12': ('Lean 4 theorems on the regenerated model: generated family C12g (one per (module, getter): validate v = ok v -> the getter returns a value or raises a ValidationError; Hoare triple closed by the VC tactic) and hand-written value-consistency theorems (split() parts concatenate to the canonical number for imei/imsi/isbn/ismn/isan; get_gender in {M,F} for 13 modules; get_birth_date is a valid calendar date whose day/month/year agree with the digits under the module\'s century rule for 20 modules; be.nn/be.bis year and month agree with the date), negation witness for it.codicefiscale.get_gender; differential run of every getter; failing-input search on valid numbers incl. synthesised edge dates and unknown registry prefixes',
            'Proof for the (module, getter) pairs and statements listed in obligations/C12.json, for every accepted number in any presentation, all option values and all dates, on definitions regenerated from the current source; '
            'the remaining getters (se.personnummer / it.codicefiscale dates, cfi, mac, us.ein, registry-backed info()) are covered by the search only (listed as uncovered). Four call sites where the statement is false of the code are known findings.', '§4 C12, §8', ''),
}

REASON_PENDING = 'check not yet registered (build in progress: machinery exists under tools/ but is not yet free of open triage on the unchanged tree)'


def main():
    checks, na = [], []
    for p in props:
        pid = p['id']
        if pid in CLAIMS:
            tech, text, ref, extra = CLAIMS[pid]
            checks.append({
                'property_id': pid,
                'quick_cmd': 'bin/check %s --tier quick' % pid,
                'thorough_cmd': 'bin/check %s --tier thorough' % pid,
                'evidence_file': 'evidence/%s.json' % pid,
                'replay_cmd_template': 'bin/check %s --replay {path}' % pid,
                'engine': 'lean4-proof',
                'level_claimed': {'category': 'proof', 'text': text, 'design_ref': 'DESIGN.md ' + ref},
                'level_note': COMMON_NOTE + (' ' + extra if extra else ''),
                'technique': tech,
            })
        else:
            na.append({'property_id': pid, 'reason': REASON_PENDING})
    m = {
        'version': 1,
        'setup_cmd': 'bin/setup',
        'hooks': {'guard': 'PYTHON_STDNUM_VERIF', 'enable': 'no hooks: checks import /repo\'s working tree in-process and regenerate the Lean model from it',
                  'baseline_off_cmd': 'cd /repo && /venv/bin/python -m pytest -ra -q -p no:cacheprovider --timeout=900 --continue-on-collection-errors',
                  'source_commits': [], 'add_only': True},
        'engines': [{'name': 'lean4-proof', 'path': 'tools/check.py', 'serves_properties': sorted(CLAIMS),
                     'kind_free_text': 'Lean 4 theorems about a model regenerated from the source (py2lean) or hand-written spec models; differential correspondence; failing-input search'}],
        'checks': checks,
        'notes': 'See DESIGN.md. bin/check <id> runs: regenerate model, lake build + axiom audit, correspondence, search, known findings, decision.',
        'not_applicable': na,
    }
    with open(os.path.join(VERIF, 'MANIFEST.json'), 'w') as f:
        json.dump(m, f, indent=1)
    print(len(checks), 'checks claimed;', len(na), 'pending')


if __name__ == '__main__':
    main()
