"""Integrator's helper: run a search engine over several seeds on the UNCHANGED tree and list the distinct
failing sites (candidates for known_findings.json after triage).  Never used by checks.
usage: census.py C01 [seeds=1,2,3] [tier=quick]"""
import importlib
import json
import os
import sys

sys.path.insert(0, os.path.dirname(os.path.abspath(__file__)))
import common  # noqa: E402


def main():
    prop = sys.argv[1]
    seeds = [1, 2, 3]
    tier = 'quick'
    for a in sys.argv[2:]:
        if a.startswith('seeds='):
            seeds = [int(x) for x in a[6:].split(',')]
        if a.startswith('tier='):
            tier = a[5:]
    eng = importlib.import_module('search.' + prop.lower())
    sites = {}
    for s in seeds:
        r = eng.search(s, tier)
        for c in r['failing']:
            k = (c.get('module'), c.get('function'), c.get('site'))
            sites.setdefault(k, {'seeds': [], 'case': c})
            if s not in sites[k]['seeds']:
                sites[k]['seeds'].append(s)
    known, new = common.split_known(prop, [dict(v['case']) for v in sites.values()])
    out = []
    for (m, f, site), v in sorted(sites.items(), key=lambda kv: [str(x) for x in kv[0]]):
        c = v['case']
        out.append({'status': 'known', 'property': prop, 'module': m, 'function': f, 'site': site,
                    'args': c.get('args'), 'kwargs': c.get('kwargs'), 'today': c.get('today'),
                    'observed': str(c.get('observed'))[:200], 'seeds_seen': v['seeds']})
    print(json.dumps(out, indent=1))
    print('# %d distinct sites over seeds %s (%s); already listed: %d, new: %d' % (len(out), seeds, tier, len(known), len(new)), file=sys.stderr)


if __name__ == '__main__':
    main()
