"""C09 - aggregate validators accept exactly what their constituent formats accept.

Relations (ground-truth tables are written down here, independently of the wrappers' own tables):
  eu.vat      eu.vat.validate(CC + y) accepted  <=>  the member state's VAT validator accepts y, and the result
              is CC + member.validate(y)   (27 member states, EL and GR for Greece, XI -> gb.vat, EU/IM -> eu.oss)
  guess       eu.vat.guess_country(y) == the member states whose validator accepts y
  vatin>=eu   eu.vat accepts s  =>  vatin.validate(s) == eu.vat.validate(s)
  vatin       for every country package with a `vat` alias: alias accepts y => vatin accepts CC + y with result CC + alias result;
              vatin accepts CC + y => alias accepts y or (documented fallback) alias accepts the whole string CC + y
  us.tin      accepted <=> one of ssn/itin/ein/ptin/atin accepts; result is a constituent's; guess_type lists exactly them
  be.ssn      accepted <=> nn or bis accepts; guess_type names an accepting one (None iff none)
  th.tin      accepted <=> pin or moa accepts; tin_type likewise
  es.nif      every valid DNI / NIE / CIF is accepted (superset only)
  iban        iban.validate(s) accepted <=> iban.validate(s, check_country=False) accepted and, where
              stdnum/<cc>/iban.py exists, that national validator accepts s
Acceptance means "validate() returns"; a wrapper that raises a non-ValidationError where the constituents give a
clean verdict disagrees with them.  Inputs for which a constituent itself raises a non-ValidationError are
skipped (that is C01's business) and counted.
"""
import datetime
import glob
import importlib
import json
import os
import random
import re
import subprocess
import sys

sys.path.insert(0, os.path.dirname(os.path.abspath(__file__)))
sys.path.insert(0, os.path.dirname(os.path.dirname(os.path.abspath(__file__))))   # tools/
import common  # noqa: E402
import _engine as E  # noqa: E402

PROPERTY = 'C09'
TODAY = datetime.date(2026, 9, 26)

RULE = ('inputs per relation: valid constituent numbers (corpus of the constituent, of the wrapper and of eu.vat/vatin, '
        'classified by the constituent, plus resampled valid numbers: one digit changed and another position repaired '
        'by search), their single-edit neighbours (common.mutations incl. hostile characters), separator / case / '
        'padding variants, each with every spelling of the country prefix (upper, lower, mixed, with space) and, for '
        'the cross-country sample, with foreign prefixes. Inputs that themselves start with the country prefix are '
        'not prefixed again. Non-trivial = distinct (relation, input) pairs where at least one side accepts; every '
        'comparison counts as a case. Histories: every ordered pair of calls of a country family (wrapper calls with '
        'the member, alias and lower-case prefixes, IBANs that the national validator rejects) in a fresh interpreter, '
        'each outcome compared with the same call alone in a fresh interpreter.')

# ground truth: member state code used as VAT prefix -> module that validates its VAT numbers
EU_MEMBERS = {
    'AT': 'at.uid', 'BE': 'be.vat', 'BG': 'bg.vat', 'CY': 'cy.vat', 'CZ': 'cz.dic', 'DE': 'de.vat', 'DK': 'dk.cvr',
    'EE': 'ee.kmkr', 'ES': 'es.nif', 'FI': 'fi.alv', 'FR': 'fr.tva', 'EL': 'gr.vat', 'HR': 'hr.oib', 'HU': 'hu.anum',
    'IE': 'ie.vat', 'IT': 'it.iva', 'LT': 'lt.pvm', 'LU': 'lu.tva', 'LV': 'lv.pvn', 'MT': 'mt.vat', 'NL': 'nl.btw',
    'PL': 'pl.nip', 'PT': 'pt.nif', 'RO': 'ro.cf', 'SE': 'se.vat', 'SI': 'si.ddv', 'SK': 'sk.dph',
    'XI': 'gb.vat',
}
EU_ALIASES = {'GR': 'gr.vat'}          # accepted spelling besides EL
OSS_PREFIXES = {'EU': 'eu.oss', 'IM': 'eu.oss'}
# what guess_country() calls the states
GUESS_NAME = dict((cc, cc.lower()) for cc in EU_MEMBERS)
GUESS_NAME['EL'] = 'gr'
OWN_PREFIXES = {'EL': ('EL', 'GR'), 'GR': ('EL', 'GR'), 'XI': ('XI', 'GB')}


def M(name):
    return common.module('stdnum.' + name)


def acc(out):
    return out.kind == 'ok'


class Ctx:
    def __init__(self, col):
        self.col = col
        self.found = []

    def fail(self, module, function, args, observed, expected, site, relation, **extra):
        case = E.mkcase(module, function, args, observed, expected, site, relation, today=TODAY, **extra)
        self.found.append(case)
        if self.col is not None:
            self.col.fail(case)

    def tick(self, *labels):
        if self.col is not None:
            self.col.tick(*labels)

    def count(self, label):
        if self.col is not None:
            self.col.count(label)

    def nontriv(self, key):
        if self.col is not None:
            self.col.nontriv(key)


def disagree_site(modname, function, relation, wrapper_out):
    if wrapper_out is not None and wrapper_out.kind == 'exc':
        return wrapper_out.site
    return E.value_site(modname, function, relation)


# ----------------------------------------------------------------------------- relation checks
# every check takes plain strings so that replay() can call it again

def check_eu(ctx, cc, p, y):
    """eu.vat on p+y (p a spelling of the prefix cc) against the member validator on y"""
    vat = M('eu.vat')
    member = M(EU_MEMBERS.get(cc) or EU_ALIASES.get(cc))
    s = p + y
    mo = E.call(member.validate, y)
    if mo.kind == 'exc':
        ctx.count('skipped:constituent-raises')
        return
    wo = E.call(vat.validate, s)
    ctx.tick('relation:eu.vat<=>member', 'cc:' + cc, 'outcome:%s/%s' % (wo.kind, mo.kind))
    if acc(wo) or acc(mo):
        ctx.nontriv('eu|' + s)
    if acc(wo) != acc(mo) or wo.kind == 'exc':
        rel = 'accepts-iff-member-accepts' if wo.kind != 'exc' else 'wrapper-raises'
        ctx.fail('stdnum.eu.vat', 'validate', [s],
                 'eu.vat.validate %s; %s.validate(%r) %s' % (wo.show(), member.__name__, y, mo.show()),
                 'same verdict', disagree_site('stdnum.eu.vat', 'validate', rel + ':' + cc, wo), rel,
                 cc=cc, prefix=p, body=common.describe(y), check='eu')
        return
    if acc(wo):
        ctx.tick('relation:eu.vat-result')
        pre = s.strip()[:2].upper()
        r = mo.value
        want = (r, pre + r) if r[:2] == pre else (pre + r,)
        if wo.value not in want:
            ctx.fail('stdnum.eu.vat', 'validate', [s], 'returns %r, member returns %r' % (wo.value, r),
                     'prefix + member result (%r)' % (want[-1],),
                     E.value_site('stdnum.eu.vat', 'validate', 'result-carries-prefix:' + cc),
                     'result-carries-prefix', cc=cc, prefix=p, body=common.describe(y), check='eu')
        # vatin must give the same
        vo = E.call(M('vatin').validate, s)
        ctx.tick('relation:vatin>=eu.vat')
        if not acc(vo) or vo.value != wo.value:
            ctx.fail('stdnum.vatin', 'validate', [s], 'vatin.validate %s; eu.vat.validate %s' % (vo.show(), wo.show()),
                     'vatin accepts with the same result',
                     disagree_site('stdnum.vatin', 'validate', 'superset-of-eu.vat:' + pre, vo), 'vatin-superset-of-eu.vat',
                     check='vatin_eu')


def check_vatin_eu(ctx, s):
    vo, wo = E.call(M('vatin').validate, s), E.call(M('eu.vat').validate, s)
    ctx.tick('relation:vatin>=eu.vat')
    if acc(wo):
        ctx.nontriv('vatin-eu|' + s)
        if not acc(vo) or vo.value != wo.value:
            ctx.fail('stdnum.vatin', 'validate', [s], 'vatin.validate %s; eu.vat.validate %s' % (vo.show(), wo.show()),
                     'vatin accepts with the same result',
                     disagree_site('stdnum.vatin', 'validate', 'superset-of-eu.vat:' + wo.value[:2], vo),
                     'vatin-superset-of-eu.vat', check='vatin_eu')


def check_guess(ctx, y):
    vat = M('eu.vat')
    want = []
    for cc, name in sorted(EU_MEMBERS.items()):
        o = E.call(M(name).is_valid, y)
        if o.kind != 'ok':
            ctx.count('skipped:constituent-raises')
            return
        if o.value:
            want.append(GUESS_NAME[cc])
    go = E.call(vat.guess_country, y)
    ctx.tick('relation:guess_country')
    if want:
        ctx.nontriv('guess|' + y)
    if go.kind != 'ok' or sorted(go.value) != sorted(want) or len(go.value) != len(set(go.value)):
        ctx.fail('stdnum.eu.vat', 'guess_country', [y], go.show(), 'exactly %r' % (sorted(want),),
                 disagree_site('stdnum.eu.vat', 'guess_country', 'lists-exactly-accepting-states', go),
                 'guess_country-lists-exactly-accepting-states', check='guess')


def check_vatin_alias(ctx, cc, p, y):
    """vatin on p+y against stdnum.<cc>.vat on y (all packages with a vat alias)"""
    member = vat_aliases()[cc]
    s = p + y
    mo = E.call(member.validate, y)
    if mo.kind == 'exc':
        ctx.count('skipped:constituent-raises')
        return
    vo = E.call(M('vatin').validate, s)
    ctx.tick('relation:vatin<=>alias', 'outcome:%s/%s' % (vo.kind, mo.kind))
    if acc(vo) or acc(mo):
        ctx.nontriv('vatin|' + s)
    if acc(vo) and not acc(mo):
        # documented fallback of vatin: the whole string (prefix included) may itself be a national number
        fo = E.call(member.validate, s)
        if acc(fo) and fo.value == vo.value:
            ctx.count('vatin-fallback-whole-string')
            return
    if acc(vo) != acc(mo) or vo.kind == 'exc':
        rel = 'accepts-iff-alias-accepts' if vo.kind != 'exc' else 'wrapper-raises'
        ctx.fail('stdnum.vatin', 'validate', [s],
                 'vatin.validate %s; %s.validate(%r) %s' % (vo.show(), member.__name__, y, mo.show()), 'same verdict',
                 disagree_site('stdnum.vatin', 'validate', rel + ':' + cc, vo), rel,
                 cc=cc, prefix=p, body=common.describe(y), check='vatin_alias')
    elif acc(vo):
        pre = s.strip()[:2].upper()
        r = mo.value
        want = (r, pre + r) if r[:2] == pre else (pre + r,)
        ctx.tick('relation:vatin-result')
        if vo.value not in want:
            ctx.fail('stdnum.vatin', 'validate', [s], 'returns %r, alias returns %r' % (vo.value, r),
                     'prefix + alias result (%r)' % (want[-1],),
                     E.value_site('stdnum.vatin', 'validate', 'result-carries-prefix:' + pre), 'result-carries-prefix',
                     cc=cc, prefix=p, body=common.describe(y), check='vatin_alias')


UNIONS = {
    'stdnum.us.tin': (['us.ssn', 'us.itin', 'us.ein', 'us.ptin', 'us.atin'], 'guess_type', 'list'),
    'stdnum.be.ssn': (['be.nn', 'be.bis'], 'guess_type', 'one'),
    'stdnum.th.tin': (['th.pin', 'th.moa'], 'tin_type', 'one'),
}


def check_union(ctx, wrapper, y):
    names, guess, kind = UNIONS[wrapper]
    w = common.module(wrapper)
    with common.frozen_today(TODAY):
        outs = [(n, E.call(M(n).validate, y)) for n in names]
        if any(o.kind == 'exc' for n, o in outs):
            ctx.count('skipped:constituent-raises')
            return
        accepting = [n.split('.')[-1] for n, o in outs if acc(o)]
        results = [o.value for n, o in outs if acc(o)]
        wo = E.call(w.validate, y)
        go = E.call(getattr(w, guess), y)
    ctx.tick('relation:%s=union' % wrapper.replace('stdnum.', ''), 'outcome:%s/%s' % (wo.kind, 'ok' if accepting else 'verr'))
    if accepting or acc(wo):
        ctx.nontriv('%s|%s' % (wrapper, y))
    if acc(wo) != bool(accepting) or wo.kind == 'exc':
        rel = 'accepts-iff-a-constituent-accepts' if wo.kind != 'exc' else 'wrapper-raises'
        ctx.fail(wrapper, 'validate', [y], '%s; accepting constituents %r' % (wo.show(), accepting), 'same verdict',
                 disagree_site(wrapper, 'validate', rel, wo), rel, check='union')
    elif acc(wo) and wo.value not in results:
        ctx.fail(wrapper, 'validate', [y], 'returns %r; constituents return %r' % (wo.value, results),
                 'the result of an accepting constituent', E.value_site(wrapper, 'validate', 'result-of-constituent'),
                 'result-of-constituent', check='union')
    ctx.tick('relation:%s.%s' % (wrapper.replace('stdnum.', ''), guess))
    if kind == 'list':
        ok = go.kind == 'ok' and go.value == accepting
        want = repr(accepting)
    else:
        ok = go.kind == 'ok' and ((go.value is None and not accepting) or (go.value in accepting))
        want = 'one of %r' % (accepting,) if accepting else 'None'
    if not ok:
        ctx.fail(wrapper, guess, [y], go.show(), want, disagree_site(wrapper, guess, 'names-exactly-accepting', go),
                 guess + '-names-exactly-accepting', check='union')


def check_nif(ctx, sub, y):
    nif, m = M('es.nif'), M(sub)
    mo = E.call(m.validate, y)
    if not acc(mo):
        return
    no = E.call(nif.validate, y)
    ctx.tick('relation:es.nif>=' + sub)
    ctx.nontriv('nif|%s|%s' % (sub, y))
    if not acc(no):
        ctx.fail('stdnum.es.nif', 'validate', [y], 'nif.validate %s; %s.validate returns %r' % (no.show(), sub, mo.value),
                 'accepted', disagree_site('stdnum.es.nif', 'validate', 'accepts-valid-' + sub.split('.')[-1], no),
                 'superset-of-' + sub.split('.')[-1], sub=sub, check='nif')


def national_iban_modules():
    res = {}
    for path in sorted(glob.glob(os.path.join(common.REPO, 'stdnum', '*', 'iban.py'))):
        cc = os.path.basename(os.path.dirname(path))
        res[cc.rstrip('_').upper()] = importlib.import_module('stdnum.%s.iban' % cc)
    return res


def check_iban(ctx, s):
    iban = M('iban')
    go = E.call(iban.validate, s, check_country=False)
    if go.kind == 'exc':
        ctx.count('skipped:constituent-raises')
        return
    want, nat_out, nat = acc(go), None, None
    if want:
        nat = national_iban_modules().get(go.value[:2])
        if nat is not None:
            nat_out = E.call(nat.validate, s)
            if nat_out.kind == 'exc':
                ctx.count('skipped:constituent-raises')
                return
            want = acc(nat_out)
    wo = E.call(iban.validate, s)
    ctx.tick('relation:iban<=>generic+national', 'outcome:%s/%s/%s' % (wo.kind, go.kind, nat_out.kind if nat_out else '-'))
    if acc(go):
        ctx.nontriv('iban|' + s)
    if acc(wo) != want or wo.kind == 'exc':
        rel = 'accepts-iff-generic-and-national-accept' if wo.kind != 'exc' else 'wrapper-raises'
        ctx.fail('stdnum.iban', 'validate', [s], 'iban.validate %s; generic %s; national (%s) %s' % (
            wo.show(), go.show(), nat.__name__ if nat else 'none', nat_out.show() if nat_out else '-'), 'same verdict',
            disagree_site('stdnum.iban', 'validate', rel, wo), rel, check='iban')
    elif acc(wo) and wo.value != go.value:
        ctx.fail('stdnum.iban', 'validate', [s], 'returns %r; generic returns %r' % (wo.value, go.value), 'same result',
                 E.value_site('stdnum.iban', 'validate', 'result'), 'same-result', check='iban')


# ----------------------------------------------------------------------------- inputs

_aliases = None


def vat_aliases():
    """{'AD': module, ...} for every country package exposing `vat`"""
    global _aliases
    if _aliases is None:
        res = {}
        for path in sorted(glob.glob(os.path.join(common.REPO, 'stdnum', '*', '__init__.py'))):
            cc = os.path.basename(os.path.dirname(path))
            # (fromlist makes Python import a real submodule vat.py too, independent of what was imported before)
            pkg = __import__('stdnum.' + cc, globals(), locals(), ['vat'])
            mod = getattr(pkg, 'vat', None)
            if mod is not None and len(cc.rstrip('_')) == 2:
                res[cc.rstrip('_').upper()] = mod
        _aliases = res
    return _aliases


def resample(rng, mod, v, tries=4):
    """new valid numbers near v: change one character, repair by searching another position"""
    out = []
    c = E.call(mod.validate, v)
    if c.kind != 'ok' or not isinstance(c.value, str) or len(c.value) < 3:
        return out
    c = c.value
    for _ in range(tries):
        i = rng.randrange(len(c))
        if not c[i].isdigit():
            continue
        d = c[:i] + rng.choice('0123456789') + c[i + 1:]
        if d != c and E.call(mod.validate, d).kind == 'ok':
            out.append(d)
            continue
        done = False
        for j in sorted(range(len(c)), key=lambda j: (abs(len(c) - 1 - j))):
            if j == i:
                continue
            alpha = '0123456789' if c[j].isdigit() else 'ABCDEFGHIJKLMNOPQRSTUVWXYZ'
            for ch in alpha:
                e = d[:j] + ch + d[j + 1:]
                if E.call(mod.validate, e).kind == 'ok':
                    out.append(e)
                    done = True
                    break
            if done:
                break
    return out


def own_prefix_numbers(cc, mod, pool, budget=12000):
    """national numbers (canonical, as the member validator returns them) that themselves begin with the letters of
    the country code: built from valid numbers by overwriting the first two characters and repairing up to two
    other positions by search.  The wrapper decides by text (`startswith(cc)`) whether a prefix is present."""
    out, spent = [], 0
    for v in pool[:4]:
        c = E.call(mod.validate, v)
        if c.kind != 'ok' or not isinstance(c.value, str) or len(c.value) < 5:
            continue
        z = cc + c.value[2:]
        ok = lambda t: E.call(mod.validate, cc + t).kind == 'ok' and E.call(mod.validate, cc + t).value == t   # noqa: E731
        if ok(z):
            out.append(z)
            continue
        alpha = lambda ch: '0123456789' if ch.isdigit() else 'ABCDEFGHIJKLMNOPQRSTUVWXYZ'   # noqa: E731
        pos = list(range(2, len(z)))
        found = None
        for i in pos:
            for a in alpha(z[i]):
                spent += 1
                t = z[:i] + a + z[i + 1:]
                if ok(t):
                    found = t
                    break
            if found:
                break
        if not found:
            for i in pos:
                for j in pos:
                    if j <= i or found or spent > budget:
                        continue
                    for a in alpha(z[i]):
                        for b in alpha(z[j]):
                            spent += 1
                            t = z[:i] + a + z[i + 1:j] + b + z[j + 1:]
                            if ok(t):
                                found = t
                                break
                        if found:
                            break
        if found:
            out.append(found)
        if spent > budget:
            break
    return out


def check_own_prefix(ctx, cc, n):
    """n is a national number starting with the letters cc; cc + n is its prefixed spelling"""
    vat = M('eu.vat')
    s = cc + n
    wo = E.call(vat.validate, s)
    ctx.tick('relation:eu.vat-own-prefix-number', 'cc:' + cc)
    ctx.nontriv('own|' + s)
    if wo.kind != 'ok' or wo.value != s:
        ctx.fail('stdnum.eu.vat', 'validate', [s],
                 'eu.vat.validate %s for the national number %r (accepted by the member validator) written with its prefix' % (wo.show(), n),
                 'prefix + national number (%r)' % s,
                 E.value_site('stdnum.eu.vat', 'validate', 'result-carries-prefix[national number starts with the country code]'),
                 'result-carries-prefix', cc=cc, body=common.describe(n), check='own')


def variants(rng, v, nmut):
    """the number itself, decorations and single-edit neighbours"""
    out = [v, v.lower(), v.upper(), ' ' + v + ' ', v + '\n', ' '.join(v), '-'.join(v[i:i + 3] for i in range(0, len(v), 3)),
           '.'.join(v[i:i + 4] for i in range(0, len(v), 4)), v[:-1], v + '0', '0' + v, v[1:], v[::-1], v.replace('0', 'O'), '']
    out.extend(common.mutations(rng, v, nmut))
    seen, res = set(), []
    for x in out:
        if x not in seen:
            seen.add(x)
            res.append(x)
    return res


def trimmed(y):
    """inputs with leading/trailing whitespace are only meaningful unprefixed (strip() is positional)"""
    return y != '' and y[0].isalnum() and y[-1].isalnum()


def starts_with_own_prefix(cc, y):
    z = ''.join(ch for ch in y.upper() if ch.isalnum())
    return z.startswith(OWN_PREFIXES.get(cc, (cc,)))


def prefix_spellings(rng, cc):
    return [cc, cc.lower(), cc[0] + cc[1].lower(), cc + ' ', ' ' + cc]


def pool_for(modname, extra=()):
    """valid numbers for a constituent from its own corpus and from prefixed wrapper corpora"""
    mod = common.module(modname)
    res = list(common.valid_numbers(modname))
    for x in extra:
        if E.call(mod.validate, x).kind == 'ok' and x not in res:
            res.append(x)
    return res


def wrapper_bodies(cc):
    res = []
    for w in ('stdnum.eu.vat', 'stdnum.vatin'):
        c = common.corpus().get(w, {})
        for x in c.get('valid', []) + c.get('invalid', []):
            z = x.strip()
            if z[:2].upper() == cc and len(z) > 4:
                res.append(z[2:])
    return res


def union_synth(rng, wrapper, n):
    """format-aware random members of the sub-types (any verdict)"""
    D = '0123456789'

    def rd(k):
        return ''.join(rng.choice(D) for _ in range(k))
    out = []
    for _ in range(n):
        if wrapper == 'stdnum.us.tin':
            k = rng.randrange(6)
            if k == 0:
                out.append('%s-%s-%s' % (rd(3), rd(2), rd(4)))
            elif k == 1:
                out.append('9%s-%s%s-%s' % (rd(2), rng.choice('5678970'), rd(1), rd(4)))
            elif k == 2:
                out.append('%s-%s' % (rd(2), rd(7)))
            elif k == 3:
                out.append('P' + rng.choice(['', '-']) + rd(8))
            elif k == 4:
                out.append('9%s-93-%s' % (rd(2), rd(4)))
            else:
                out.append(rd(9))
        elif wrapper == 'stdnum.be.ssn':
            yy, dd, ser = rd(2), '%02d' % rng.choice([0, 1, 15, 28, 29, 30, 31, 32]), rd(3)
            mm = '%02d' % rng.choice([0, 1, 2, 12, 13, 19, 20, 21, 32, 33, 39, 40, 41, 52, 53, 60, 99])
            if rng.random() < 0.1:
                yy, mm, dd = rng.choice([('00', '00', '01'), ('00', '20', '01'), ('00', '40', '01')])
            body = yy + mm + dd + ser
            base = rng.choice([body, '2' + body])
            chk = '%02d' % (97 - int(base) % 97)
            if rng.random() < 0.1:
                chk = rd(2)
            v = body + chk
            out.append(rng.choice([v, '%s.%s.%s-%s.%s' % (v[:2], v[2:4], v[4:6], v[6:9], v[9:]), ' '.join([v[:6], v[6:]])]))
        else:
            body = rng.choice('0123456789') + rd(11)
            cands = [body + d for d in D]
            ok = [c for c in cands if M('th.pin').is_valid(c) or M('th.moa').is_valid(c)]
            v = rng.choice(ok or cands)
            out.append(rng.choice([v, '-'.join([v[0], v[1:5], v[5:10], v[10:12], v[12]]), ' '.join([v[:1], v[1:3], v[3:4], v[4:7], v[7:12], v[12:]])]))
    return out


def _worker(task):
    kind, seed, tier, key, idx = task
    rng = random.Random('%s/%s/%s/%s' % (seed, kind, key, idx))
    col = E.Collector()
    ctx = Ctx(col)
    quick = tier == 'quick'
    nmut = 8 if quick else 30
    nres = 2 if quick else 4
    nvalid = 15 if quick else 40
    with common.frozen_today(TODAY):
        if kind == 'eu':
            cc = key
            modname = 'stdnum.' + (EU_MEMBERS.get(cc) or EU_ALIASES.get(cc) or OSS_PREFIXES.get(cc))
            own = 'EL' if cc == 'GR' else cc
            valid = pool_for(modname, wrapper_bodies(own) + wrapper_bodies(cc))[:nvalid]
            mod = common.module(modname)
            for v in list(valid):
                valid.extend(resample(rng, mod, v, nres))
            if cc in OSS_PREFIXES:
                for v in valid:
                    for y in variants(rng, v, nmut):
                        check_vatin_eu(ctx, y)
                return col.dump()
            if idx == 0 and cc in EU_MEMBERS:
                for n in own_prefix_numbers(cc, mod, valid):
                    check_own_prefix(ctx, cc, n)
            foreign = []
            for other in sorted(EU_MEMBERS):
                if other != cc:
                    foreign.extend(common.valid_numbers('stdnum.' + EU_MEMBERS[other])[:1 if quick else 3])
            for v in valid + foreign:
                is_foreign = v in foreign
                for n, y in enumerate([v, v.lower()] if is_foreign else variants(rng, v, nmut)):
                    if not trimmed(y):
                        continue
                    if starts_with_own_prefix(cc, y):
                        # already carries the prefix: a prefixed EU number; compare wrapper with itself via vatin
                        check_vatin_eu(ctx, y)
                        continue
                    for p in prefix_spellings(rng, cc)[:2 if is_foreign else 5]:
                        check_eu(ctx, cc, p, y)
                    if not is_foreign and idx == 0 and (n < 4 or (not quick and n % 4 == 0)):
                        check_guess(ctx, y)
                        check_guess(ctx, cc + y)
            if len(col.samples) < 1 and valid:
                col.sample({'relation': 'eu.vat<=>member', 'cc': cc, 'input': cc + valid[0],
                            'eu.vat': E.call(M('eu.vat').validate, cc + valid[0]).show()})
        elif kind == 'vatin':
            cc = key
            member = vat_aliases()[cc]
            valid = pool_for(member.__name__, wrapper_bodies(cc))[:nvalid]
            for v in list(valid):
                valid.extend(resample(rng, member, v, nres))
            for v in valid:
                for y in variants(rng, v, nmut):
                    if starts_with_own_prefix(cc, y) or not trimmed(y):
                        continue
                    for p in (cc, cc.lower(), cc + ' '):
                        check_vatin_alias(ctx, cc, p, y)
        elif kind == 'union':
            wrapper = key
            names = UNIONS[wrapper][0]
            valid = list(common.valid_numbers(wrapper))
            for n in names:
                valid.extend(x for x in common.valid_numbers('stdnum.' + n) if x not in valid)
            base = list(valid)
            for n in names:
                for v in base[:nvalid]:
                    valid.extend(resample(rng, M(n), v, nres))
            for y in union_synth(rng, wrapper, 150 if quick else 800):
                check_union(ctx, wrapper, y)
            for v in valid:
                for y in variants(rng, v, nmut * 2):
                    check_union(ctx, wrapper, y)
            if valid:
                col.sample({'relation': wrapper + '=union', 'input': valid[0],
                            'wrapper': E.call(common.module(wrapper).validate, valid[0]).show()})
        elif kind == 'nif':
            for sub in ('es.dni', 'es.nie', 'es.cif'):
                valid = pool_for('stdnum.' + sub, common.valid_numbers('stdnum.es.nif') + wrapper_bodies('ES'))
                for v in list(valid):
                    valid.extend(resample(rng, M(sub), v, nres * 5))
                for v in valid:
                    for y in variants(rng, v, nmut * 2) + ['ES' + v, 'es ' + v]:
                        check_nif(ctx, sub, y)
        elif kind == 'iban':
            for s in iban_inputs(rng, key, quick):
                for y in variants(rng, s, nmut // 2) if len(s) > 5 else [s]:
                    check_iban(ctx, y)
    return col.dump()


def _mod97_check(cc, bban):
    n = ''.join(str(int(ch, 36)) for ch in bban + cc + '00')
    return '%02d' % (98 - int(n) % 97)


def iban_inputs(rng, cc, quick):
    """IBANs of country cc: corpus, random BBANs with correct generic check digits, and nationally valid ones"""
    iban = M('iban')
    res = [x for x in common.valid_numbers('stdnum.iban') if x.strip().upper().startswith(cc)][:6]
    nat = national_iban_modules().get(cc)
    if nat is not None:
        res.extend(common.valid_numbers(nat.__name__))
    info = iban._ibandb.info(cc + '00')[0][1]
    struct = info.get('bban', '')
    n = (6 if quick else 30) * (8 if nat is not None else 1)
    for _ in range(n):
        bban = ''
        for cnt, typ in re.findall(r'(\d+)!([nac])', struct):
            alpha = {'n': '0123456789', 'a': 'ABCDEFGHIJKLMNOPQRSTUVWXYZ', 'c': '0123456789ABCDEFGHIJKLMNOPQRSTUVWXYZ'}[typ]
            bban += ''.join(rng.choice(alpha) for _ in range(int(cnt)))
        if cc == 'BE' and rng.random() < 0.7:
            bban = bban[:10] + '%02d' % ((int(bban[:10]) % 97) or 97)
        if cc == 'ES' and rng.random() < 0.7:
            bban = bban[:8] + M('es.ccc').calc_check_digits(bban) + bban[10:]
        if cc == 'NO' and rng.random() < 0.7:
            for d in '0123456789':
                if E.call(M('no.kontonr').validate, bban[:10] + d).kind == 'ok':
                    bban = bban[:10] + d
                    break
        if cc == 'ME' and rng.random() < 0.7:
            for d in range(100):
                if int(bban[:-2] + '%02d' % d) % 97 == 1:
                    bban = bban[:-2] + '%02d' % d
                    break
        res.append(cc + _mod97_check(cc, bban) + bban)
    return res


def iban_countries():
    iban = M('iban')
    return sorted(set(p[1] for p in iban._ibandb.prefixes if len(p[1]) == 2))



# ----------------------------------------------------------------------------- histories (fresh interpreters)
# The wrappers memoise what they resolve per country code (eu.vat._country_modules, vatin._country_modules,
# iban._country_modules) and util.get_cc_module() imports on demand.  The relations of C09 are stated for every
# input, so they must not depend on which numbers were handled before: a verdict that changes with the history
# disagrees with the constituent in one of the two runs.  Every ordered pair of calls of a country family is run
# in a fresh interpreter that imports nothing but what the calls import themselves, and each outcome is compared
# with the outcome of the same call alone in a fresh interpreter.

CHILD = r"""
import sys, json, importlib
steps = json.loads(sys.stdin.read())
out = []
for mod, fn, args in steps:
    try:
        r = getattr(importlib.import_module(mod), fn)(*args)
        out.append(['ok', sorted(r) if isinstance(r, list) else r if isinstance(r, (str, bool, type(None))) else repr(r)])
    except Exception as e:
        from stdnum.exceptions import ValidationError
        out.append(['verr' if isinstance(e, ValidationError) else 'exc', type(e).__name__])
sys.stdout.write(json.dumps(out))
"""


def run_child(steps):
    env = dict(os.environ, PYTHONPATH=common.REPO)
    env.pop('PYTHONSTARTUP', None)
    try:
        p = subprocess.run([sys.executable, '-c', CHILD], input=json.dumps(steps),
                           capture_output=True, text=True, timeout=120, env=env, cwd='/')
        return json.loads(p.stdout)
    except (subprocess.TimeoutExpired, ValueError):
        return None


def _child_task(steps):
    return run_child(steps)


ALIAS_PAIRS = {'XI': 'GB', 'GB': 'XI', 'EL': 'GR', 'GR': 'EL'}


def history_families(rng, tier):
    """{family name: [call, ...]}, call = [module, function, [args]]"""
    fams = {}
    nat_iban = national_iban_modules()
    ibans = {}
    for x in common.valid_numbers('stdnum.iban'):
        ibans.setdefault(x.strip().upper()[:2], []).append(x)
    for cc in sorted(set(EU_MEMBERS) | set(EU_ALIASES)):
        member = EU_MEMBERS.get(cc) or EU_ALIASES.get(cc)
        pool = [y for y in pool_for('stdnum.' + member, wrapper_bodies(cc)) if trimmed(y)]
        if not pool:
            continue
        y = pool[0]
        body = y if not starts_with_own_prefix(cc, y) else ''.join(ch for ch in y if ch.isalnum())[2:]
        calls = [['stdnum.eu.vat', 'validate', [cc + body]], ['stdnum.vatin', 'validate', [cc + body]],
                 ['stdnum.eu.vat', 'guess_country', [body]], ['stdnum.eu.vat', 'compact', [cc + body]]]
        other = ALIAS_PAIRS.get(cc)
        if other:
            calls += [['stdnum.eu.vat', 'validate', [other + body]], ['stdnum.vatin', 'validate', [other + body]]]
        # the country code without a member state spelling (national code used as a prefix, lower case)
        calls.append(['stdnum.eu.vat', 'validate', [cc.lower() + body]])
        key = 'GR' if cc == 'EL' else ('GB' if cc == 'XI' else cc)
        for x in ibans.get(key, [])[:1]:
            calls.append(['stdnum.iban', 'validate', [x]])
        if key in nat_iban:
            bad = [x for x in iban_inputs(rng, key, True) if E.call(M('iban').validate, x, check_country=False).kind == 'ok' and
                   E.call(nat_iban[key].validate, x).kind == 'verr']
            for x in bad[:2]:
                calls.append(['stdnum.iban', 'validate', [x]])
        fams[cc] = calls
    for cc in sorted(set(nat_iban) - set(EU_MEMBERS)):
        calls = []
        for w in ('stdnum.vatin',):
            for x in common.valid_numbers('stdnum.vatin'):
                if x.strip().upper().startswith(cc):
                    calls.append([w, 'validate', [x]])
                    break
        good = [x for x in iban_inputs(rng, cc, True) if E.call(M('iban').validate, x).kind == 'ok'][:1]
        bad = [x for x in iban_inputs(rng, cc, True) if E.call(M('iban').validate, x, check_country=False).kind == 'ok' and
               E.call(nat_iban[cc].validate, x).kind == 'verr'][:2]
        for x in good + bad:
            calls.append(['stdnum.iban', 'validate', [x]])
        if len(calls) >= 2:
            fams[cc + '*'] = calls
    return fams


def history_stage(seed, tier):
    rng = random.Random(seed * 7919 + 13)
    col = E.Collector()
    fams = history_families(rng, tier)
    singles, seqs = {}, []
    for name, calls in sorted(fams.items()):
        for c in calls:
            singles[json.dumps(c)] = c
        pairs = [(a, b) for a in calls for b in calls if a is not b]
        if tier == 'quick' and len(pairs) > 40:
            rng.shuffle(pairs)
            keep = [pr for pr in pairs if pr[0][0] != pr[1][0] or pr[0][2][0][:2].upper() != pr[1][2][0][:2].upper()]
            pairs = (keep + [pr for pr in pairs if pr not in keep])[:40]
        for a, b in pairs:
            seqs.append((name, [a, b]))
        if tier != 'quick':
            for _ in range(12):
                k = rng.randrange(3, min(6, len(calls)) + 1) if len(calls) >= 3 else len(calls)
                seqs.append((name, rng.sample(calls, k)))
    keys = sorted(singles)
    ref = dict(zip(keys, E.pmap(_child_task, [[singles[k]] for k in keys])))
    outs = E.pmap(_child_task, [sq for _, sq in seqs])
    for (name, sq), out in zip(seqs, outs):
        if out is None:
            col.count('history:child-failed')
            continue
        for i, (c, o) in enumerate(zip(sq, out)):
            r = ref.get(json.dumps(c))
            col.tick('relation:history-independent', 'family:' + name)
            if r is None or not r:
                continue
            if o[0] == 'ok' or r[0][0] == 'ok':
                col.nontriv('hist|%s|%s' % (json.dumps(sq[:i]), json.dumps(c)))
            if o != r[0] and i > 0:
                first = sq[0]
                col.fail(E.mkcase(c[0], c[1], c[2], '%s alone in a fresh interpreter gives %s; after %s it gives %s' % (
                    '%s.%s(%r)' % (c[0], c[1], c[2][0]), r[0], ', '.join('%s.%s(%r)' % (x[0], x[1], x[2][0]) for x in sq[:i]), o),
                    'the same outcome whatever was validated before (the constituents do not change)',
                    E.value_site(c[0], c[1], 'verdict-depends-on-earlier-call[%s.%s]' % (first[0].replace('stdnum.', ''), first[1])),
                    'history-independent', today=TODAY, check='history', history=sq[:i + 1]))
                break
    col.sample({'relation': 'history-independent', 'families': len(fams), 'sequences': len(seqs), 'example': seqs[0][1] if seqs else None})
    return col.dump()


def search(seed, tier):
    tasks = []
    for cc in sorted(EU_MEMBERS) + sorted(EU_ALIASES) + sorted(OSS_PREFIXES):
        for idx in range(1 if tier == 'quick' else 2):
            tasks.append(('eu', seed, tier, cc, idx))
    for cc in sorted(vat_aliases()):
        tasks.append(('vatin', seed, tier, cc, 0))
    for w in sorted(UNIONS):
        for idx in range(1 if tier == 'quick' else 4):
            tasks.append(('union', seed, tier, w, idx))
    tasks.append(('nif', seed, tier, 'es', 0))
    for cc in iban_countries():
        tasks.append(('iban', seed, tier, cc, 0))
    col = E.Collector()
    for d in E.pmap(_worker, tasks):
        col.merge(d)
    with common.frozen_today(TODAY):
        col.merge(history_stage(seed, tier))
    return col.result(RULE)


def replay(case):
    ctx = Ctx(None)
    args = [common.rebuild(a) for a in case['args']]
    chk = case.get('check')
    if chk == 'history':
        sq = case['history']
        out, ref = run_child(sq), run_child([sq[-1]])
        if out is None or ref is None or out[-1] == ref[0]:
            return None
        return dict(case, observed='alone: %s; after the recorded history: %s' % (ref[0], out[-1]))
    with common.frozen_today(TODAY):
        if chk == 'eu':
            check_eu(ctx, case['cc'], case['prefix'], common.rebuild(case['body']))
        elif chk == 'own':
            check_own_prefix(ctx, case['cc'], common.rebuild(case['body']))
        elif chk == 'vatin_eu':
            check_vatin_eu(ctx, args[0])
        elif chk == 'guess':
            check_guess(ctx, args[0])
        elif chk == 'vatin_alias':
            check_vatin_alias(ctx, case['cc'], case['prefix'], common.rebuild(case['body']))
        elif chk == 'union':
            check_union(ctx, case['module'], args[0])
        elif chk == 'nif':
            check_nif(ctx, case['sub'], args[0])
        elif chk == 'iban':
            check_iban(ctx, args[0])
    same = [c for c in ctx.found if c['module'] == case['module'] and c['function'] == case['function'] and
            c['relation'] == case.get('relation')]
    found = same or ctx.found
    return found[0] if found else None


if __name__ == '__main__':
    E.main(sys.modules[__name__])
