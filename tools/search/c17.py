"""C17 - single typing errors in check-digit protected identifiers are rejected.

Exhaustive neighbourhood of every valid number (corpus + synthesised): every position x every other
character of the same class (digit -> other digit, upper case letter -> other upper case letter, lower ->
lower) must be rejected; for the formats for which the property promises it (ISBN-10, ISSN, ISNI, IBAN, LEI,
ISO 11649, Verhoeff / Damm protected numbers) every swap of two adjacent different digits as well.

Failing pairs are classified by `relation` (and site), so that the three very different root causes are not
mixed up:
  single-substitution-accepted / adjacent-transposition-accepted
        both numbers pass the format's generic check algorithm: the detection promise itself is broken
  ...-accepted-via-alternative-scheme
        the number with the typo is accepted by a *different* rule of the same module (white list, second
        algorithm: do.cedula, fr.siret La Poste, nl.btw BSN-or-mod97, id.npwp NIK, ...)
  ...-accepted-outside-check-coverage
        the changed position is not an input of the check computation at all (ca.bn program account,
        es.cif type letter, in_.epic prefix letters, se.personnummer century digits, eu.at_02 business code)
Options: the promise is about the format, not about one way of calling validate(): every boolean keyword option
of validate() (found by inspect.signature: isbn convert, iban check_country, meid strip_check_digit, isan
strip/add_check_digits) is swept both ways; a number that validate() accepts under an option value must have its
whole neighbourhood rejected under the same option value (site suffix [option=value] for non-default values).
Seeds: besides the corpus the length-/letter-extremal valid numbers of common.extremal_numbers() (IBANs with a
letter wherever the country structure admits one, 128 character numbers of the generic algorithms): substitutions at
the most significant positions of the longest admissible numbers are where table / zip truncation shows.
The neighbourhood relation is symmetric, therefore a pair (v, v') of valid numbers found from an
unprotected seed v (e.g. a white listed number) is reported from the side of the protected number v'.
"""
import inspect
import itertools
import os
import random
import sys

sys.path.insert(0, os.path.dirname(os.path.dirname(os.path.abspath(__file__))))   # tools/
sys.path.insert(0, os.path.dirname(os.path.abspath(__file__)))
import common  # noqa: E402
import _chk  # noqa: E402
from _chk import DIGITS, UPPER  # noqa: E402

PROPERTY = 'C17'
ALNUM = DIGITS + UPPER


def _luhn(n):
    from stdnum import luhn
    return luhn.is_valid(n)


def _all(n):
    return set(range(len(n)))


def _npwp_generic(n):
    if len(n) == 15:
        return _luhn(n[:9])
    return len(n) == 16 and n[0] == '0' and _luhn(n[:10])


def _btw_generic(n):
    from stdnum.iso7064 import mod_97_10
    return mod_97_10.is_valid('NL' + n)


def _pnr_cover(n):
    return set([i for i, c in enumerate(n) if c in DIGITS][-10:])


def E(label, module, T=False, kwargs=None, seed=None, generic=None, covered=None, repair=((-1,), DIGITS), via='', alt=None):
    # alt: when given, the documented alternative scheme explains an accepted neighbour only if alt(neighbour) holds;
    # any other accepted neighbour that fails the generic check is a plain violation, not the known alternative
    return {'label': label, 'module': module, 'T': T, 'kwargs': kwargs or {}, 'seed': seed,
            'generic': generic, 'covered': covered, 'repair': repair, 'via': via, 'alt': alt}


# T = the property also promises detection of adjacent transpositions
ENTRIES = [
    # --- named in the property
    E('isbn10', 'stdnum.isbn', T=True, seed=lambda n: len(n) == 10, repair=((-1,), DIGITS + 'X'), via='mod 11 weighted'),
    E('isbn13', 'stdnum.isbn', seed=lambda n: len(n) == 13, via='ean'),
    E('ean', 'stdnum.ean', via='mod 10 weights 3/1'),
    E('issn', 'stdnum.issn', T=True, repair=((-1,), DIGITS + 'X'), via='mod 11 weighted'),
    E('ismn', 'stdnum.ismn', via='ean'),
    E('imei15', 'stdnum.imei', seed=lambda n: len(n) == 15, via='luhn'),
    E('isni', 'stdnum.isni', T=True, repair=((-1,), DIGITS + 'X'), via='iso7064 mod 11-2'),
    E('iban', 'stdnum.iban', T=True, repair=((2, 3), DIGITS), via='iso7064 mod 97-10'),
    E('iban(check_country=False)', 'stdnum.iban', T=True, kwargs={'check_country': False}, repair=((2, 3), DIGITS),
      via='iso7064 mod 97-10'),
    E('lei', 'stdnum.lei', T=True, repair=((-2, -1), DIGITS), via='iso7064 mod 97-10'),
    E('iso11649', 'stdnum.iso11649', T=True, repair=((2, 3), DIGITS), via='iso7064 mod 97-10'),
    E('grid', 'stdnum.grid', repair=((-1,), ALNUM), via='iso7064 mod 37-36'),
    # --- the generic algorithms themselves
    E('luhn', 'stdnum.luhn', via='luhn'),
    E('verhoeff', 'stdnum.verhoeff', T=True, via='verhoeff'),
    E('damm', 'stdnum.damm', T=True, via='damm'),
    E('mod_11_2', 'stdnum.iso7064.mod_11_2', repair=((-1,), DIGITS + 'X'), via='iso7064 mod 11-2'),
    E('mod_11_10', 'stdnum.iso7064.mod_11_10', via='iso7064 mod 11,10'),
    E('mod_37_2', 'stdnum.iso7064.mod_37_2', repair=((-1,), ALNUM + '*'), via='iso7064 mod 37-2'),
    E('mod_37_36', 'stdnum.iso7064.mod_37_36', repair=((-1,), ALNUM), via='iso7064 mod 37,36'),
    E('mod_97_10', 'stdnum.iso7064.mod_97_10', repair=((-2, -1), DIGITS), via='iso7064 mod 97-10'),
    # --- Verhoeff protected national numbers
    E('in.aadhaar', 'stdnum.in_.aadhaar', T=True, via='verhoeff'),
    E('in.vid', 'stdnum.in_.vid', T=True, via='verhoeff'),
    # --- Luhn protected national numbers (found by grepping the imports of stdnum.luhn)
    E('at.uid', 'stdnum.at.uid', via='luhn variant'),
    E('ca.bn', 'stdnum.ca.bn', covered=lambda n: set(range(9)), repair=((8,), DIGITS), via='luhn on [:9]'),
    E('ca.sin', 'stdnum.ca.sin', via='luhn'),
    E('do.cedula', 'stdnum.do.cedula', generic=_luhn, via='luhn, white list'),
    E('es.cif', 'stdnum.es.cif', covered=lambda n: set(range(1, len(n))), repair=((-1,), ALNUM), via='luhn on [1:]'),
    E('fr.siren', 'stdnum.fr.siren', via='luhn'),
    E('fr.siret', 'stdnum.fr.siret', generic=_luhn, via='luhn, La Poste rule'),
    E('gn.nifp', 'stdnum.gn.nifp', via='luhn'),
    E('gr.amka', 'stdnum.gr.amka', via='luhn'),
    E('id.npwp', 'stdnum.id.npwp', generic=_npwp_generic,
      covered=lambda n: set(range(9 if len(n) == 15 else 10)), repair=((8, 9), DIGITS), via='luhn on [:9] / [:10]',
      alt=lambda n: len(n) == 16 and n[0] != '0'),     # the NIK reading
    E('il.hp', 'stdnum.il.hp', via='luhn'),
    E('il.idnr', 'stdnum.il.idnr', via='luhn'),
    E('in.epic', 'stdnum.in_.epic', covered=lambda n: set(range(3, len(n))), via='luhn on [3:]'),
    E('in.gstin', 'stdnum.in_.gstin', repair=((-1,), ALNUM), via='luhn mod 36'),
    E('it.iva', 'stdnum.it.iva', via='luhn'),
    E('meid15', 'stdnum.meid', kwargs={'strip_check_digit': False}, seed=lambda n: len(n) == 15,
      repair=((-1,), '0123456789ABCDEF'), via='luhn hex / imei'),
    E('no.kontonr7', 'stdnum.no.kontonr', seed=lambda n: len(n) == 7, via='luhn (7 digit accounts)'),
    E('se.orgnr', 'stdnum.se.orgnr', via='luhn'),
    E('se.personnummer', 'stdnum.se.personnummer', covered=_pnr_cover, via='luhn on last 10 digits'),
    E('za.idnr', 'stdnum.za.idnr', via='luhn'),
    E('za.tin', 'stdnum.za.tin', via='luhn'),
    # --- ISO 7064 protected national numbers (found by grepping the imports of stdnum.iso7064)
    E('de.idnr', 'stdnum.de.idnr', via='iso7064 mod 11,10'),
    E('de.vat', 'stdnum.de.vat', via='iso7064 mod 11,10'),
    E('hr.oib', 'stdnum.hr.oib', via='iso7064 mod 11,10'),
    E('rs.pib', 'stdnum.rs.pib', via='iso7064 mod 11,10'),
    E('eu.at_02', 'stdnum.eu.at_02', covered=lambda n: _all(n) - {4, 5, 6}, repair=((2, 3), DIGITS), via='iso7064 mod 97-10'),
    E('ma.ice', 'stdnum.ma.ice', repair=((-2, -1), DIGITS), via='mod 97 checksum'),
    E('nl.btw', 'stdnum.nl.btw', generic=_btw_generic, repair=((-2, -1), DIGITS), via='BSN 11-test or iso7064 mod 97-10'),
    E('isan', 'stdnum.isan', seed=lambda n: len(n) in (17, 26), repair=((16, -1), ALNUM), via='iso7064 mod 37,36'),
]
BY_LABEL = {e['label']: e for e in ENTRIES}


def _val(e):
    mod = common.module(e['module'])
    kw = e['kwargs']
    return lambda s: _chk.call(mod.validate, s, **kw)


def bool_options(modname):
    """names and defaults of the boolean keyword options of validate()"""
    try:
        ps = list(inspect.signature(common.module(modname).validate).parameters.values())[1:]
    except (TypeError, ValueError):
        return []
    return [(p.name, p.default) for p in ps if isinstance(p.default, bool)]


def option_sets(e):
    """the entry's own keyword arguments first, then every boolean option of validate() flipped (one at a time)"""
    base = dict(e['kwargs'])
    out = [base]
    defaults = dict(bool_options(e['module']))
    full = lambda kw: dict(defaults, **kw)     # noqa: E731
    elsewhere = [full(x['kwargs']) for x in ENTRIES if x['module'] == e['module'] and x is not e]
    for name, default in bool_options(e['module']):
        kw = dict(base)
        kw[name] = not base.get(name, default)
        if kw not in out and full(kw) not in elsewhere:     # (another entry of the module sweeps that value)
            out.append(kw)
    return out


def opt_label(modname, kw):
    """'' for the defaults, else 'name=value,...' of the options that differ from validate()'s defaults"""
    defaults = dict(bool_options(modname))
    return ','.join('%s=%r' % (k, kw[k]) for k in sorted(kw) if not (k in defaults and defaults[k] is kw[k]))


def neighbours(n, transpositions):
    """yield (kind, position, variant)"""
    for i, ch in enumerate(n):
        cls = _chk.char_class(ch)
        if not cls:
            continue
        for c in cls:
            if c != ch:
                yield ('substitution', i, n[:i] + c + n[i + 1:])
    if transpositions:
        for i in range(len(n) - 1):
            a, b = n[i], n[i + 1]
            if a != b and a in DIGITS and b in DIGITS:
                yield ('transposition', i, n[:i] + b + a + n[i + 2:])


def synthesise(rng, e, val, pool, seeds, count):
    """class-preserving mutation of 1..k positions of a valid number + brute force of the repair positions"""
    have = set(pool)
    pos, alpha = e['repair']
    calls = 0
    for _ in range(count):
        n0 = rng.choice(pool if rng.random() < 0.6 else seeds)
        L = len(n0)
        rp = sorted(set(p % L for p in pos))
        free = [i for i in range(L) if i not in rp and _chk.char_class(n0[i])]
        if not free:
            continue
        r = rng.random()
        k = 1 if r < 0.4 else 2 if r < 0.65 else 3 if r < 0.8 else rng.randrange(1, len(free) + 1)
        s = list(n0)
        for i in rng.sample(free, min(k, len(free))):
            s[i] = rng.choice(_chk.char_class(n0[i]))
        for combo in itertools.product(alpha, repeat=len(rp)):
            for p, c in zip(rp, combo):
                s[p] = c
            v = ''.join(s)
            calls += 1
            if v in have:
                continue
            o = val(v)
            if o[0] == 'ok' and o[1] == v and (e['seed'] is None or e['seed'](v)):
                have.add(v)
                pool.append(v)
                break
    return calls


def entry_job(arg):
    label, seed, tier = arg
    e = BY_LABEL[label]
    modname = e['module']
    rng = random.Random('C17:%d:%s' % (seed, label))
    val = _val(e)
    col = _chk.Collector()
    dist = {'numbers': 0, 'corpus_numbers': 0, 'synthesised_numbers': 0, 'substitutions': 0, 'transpositions': 0,
            'rejected': 0, 'rejected_by_non_validation_exception': 0, 'accepted': 0,
            'accepted_pairs_both_unprotected_skipped': 0, 'unprotected_seed_numbers': 0}
    def canonical(vs):
        out = []
        for v in vs:
            o = val(v)
            if o[0] == 'ok' and isinstance(o[1], str) and o[1] not in out and val(o[1])[:2] == ('ok', o[1]):
                if e['seed'] is None or e['seed'](o[1]):
                    out.append(o[1])
        return out
    seeds = canonical(common.valid_numbers(modname))
    if not seeds:
        return {'label': label, 'dist': dist, 'cases': 0, 'nontrivial': 0, 'sites': [], 'samples': []}
    seeds = _chk.diverse(seeds)
    if tier == 'quick':
        seeds = seeds[:100]
        nsynth, cap = 600, 600
    else:
        nsynth, cap = 6000, 6000
    # length-/letter-extremal valid numbers go first (they are never cut by the caps).  Their own neighbourhood is
    # explored exhaustively; they are not used as seeds of the random synthesis (a 128 character number has 1000-3000
    # neighbours: a pool full of their offspring would eat the whole budget)
    extremal = [x for x in canonical(common.extremal_numbers(modname)) if x not in seeds]
    dist['extremal_numbers'] = len(extremal)
    pool = list(seeds)
    cases = synthesise(rng, e, val, pool, seeds, nsynth)
    synthesised = pool[len(seeds):][:max(0, cap - len(seeds) - len(extremal))]
    seeds = extremal + seeds
    numbers = seeds + synthesised
    dist['corpus_numbers'] = len(seeds) - len(extremal)
    dist['synthesised_numbers'] = len(numbers) - len(seeds)
    generic = e['generic'] or (lambda n: True)
    covered = e['covered'] or _all
    nontrivial = 0
    samples = []
    mod = common.module(modname)
    optsets = option_sets(e)
    dist['option_sets'] = len(optsets)
    site_hits = {}
    for oi, kw in enumerate(optsets):
        lab = opt_label(modname, kw)
        sfx = '[%s]' % lab if lab else ''

        def valk(s, kw=kw):
            return _chk.call(mod.validate, s, **kw)
        # the non-base option values are swept over the corpus, the extremal numbers and the first synthesised ones
        nums = numbers if oi == 0 else numbers[:len(seeds) + (150 if tier == 'quick' else 1500)]
        for n in nums:
            if oi:
                if valk(n)[0] != 'ok':      # not a valid number under this option value
                    dist['not_valid_under_option'] = dist.get('not_valid_under_option', 0) + 1
                    continue
                dist['numbers_under_other_option_values'] = dist.get('numbers_under_other_option_values', 0) + 1
            else:
                dist['numbers'] += 1
            gn = generic(n)
            if not gn and not oi:
                dist['unprotected_seed_numbers'] += 1
            for kind, i, v in neighbours(n, e['T']):
                cases += 1
                nontrivial += 1
                dist[kind + 's'] += 1
                o = valk(v)
                if kind == 'substitution':
                    k = 'letter_substitutions' if n[i] not in DIGITS else 'digit_substitutions'
                    dist[k] = dist.get(k, 0) + 1
                if o[0] != 'ok':
                    dist['rejected'] += 1
                    dist['rejected_with:' + o[1]] = dist.get('rejected_with:' + o[1], 0) + 1
                    if o[0] == 'exc':
                        dist['rejected_by_non_validation_exception'] += 1
                    continue
                dist['accepted'] += 1
                gv = generic(v)
                # orient the pair: report from the side of the number that is protected by the generic check
                src, dst = n, v
                if not gn:
                    if not gv:
                        dist['accepted_pairs_both_unprotected_skipped'] += 1
                        continue
                    src, dst = v, n
                both = generic(src) and generic(dst)
                positions = {i, i + 1} if kind == 'transposition' else {i}
                if not both and (e['alt'] is None or e['alt'](dst) or e['alt'](src)):
                    suffix = '-via-alternative-scheme'
                elif not both:
                    suffix = ''
                elif not (positions & covered(src)):
                    suffix = '-outside-check-coverage'
                else:
                    suffix = ''
                rel = ('single-substitution-accepted' if kind == 'substitution' else 'adjacent-transposition-accepted') + suffix
                # a regression can make a whole neighbourhood valid: every violation is counted, but only the first
                # ones per site are turned into (replayable) cases
                skey = (modname, 'validate', _chk.value_site(modname, 'validate', rel + sfx))
                site_hits[skey] = site_hits.get(skey, 0) + 1
                if site_hits[skey] > 40:
                    col.sites[skey]['count'] += 1
                    continue
                col.add(_chk.make_case(
                    modname, 'validate', [dst], _chk.fmt_outcome(valk(dst)),
                    'ValidationError: %s at position %d of the valid number %r (%s)' % (kind, i, src, e['via']),
                    _chk.value_site(modname, 'validate', rel + sfx), rel, kwargs=kw, number=src, label=label))
            if len(samples) < 2 and not oi:
                samples.append({'label': label, 'module': modname, 'number': n, 'origin': 'extremal' if n in extremal else 'corpus' if n in seeds else 'synthesised',
                                'neighbours': sum(1 for _ in neighbours(n, e['T'])), 'transpositions_claimed': e['T']})
    if len(numbers) > len(seeds):
        n = numbers[-1]
        samples.append({'label': label, 'module': modname, 'number': n, 'origin': 'synthesised',
                        'neighbours': sum(1 for _ in neighbours(n, e['T'])), 'transpositions_claimed': e['T']})
    return {'label': label, 'dist': dist, 'cases': cases, 'nontrivial': nontrivial, 'sites': col.export(), 'samples': samples}


def search(seed, tier):
    common.corpus()
    results = _chk.pmap(entry_job, [(e['label'], seed, tier) for e in ENTRIES])
    col = _chk.Collector()
    dist = {'per_format': {}, 'totals': {}}
    cases = nontrivial = 0
    samples = []
    for r in results:
        col.merge(r['sites'])
        cases += r['cases']
        nontrivial += r['nontrivial']
        _chk.add_counts(dist['totals'], r['dist'])
        dist['per_format'][r['label']] = {k: v for k, v in r['dist'].items() if v}
        if r['samples'] and len(samples) < 10 and r['label'] in ('isbn10', 'iban', 'lei', 'in.aadhaar', 'fr.siren', 'de.idnr',
                                                                 'nl.btw', 'grid', 'ean', 'damm'):
            samples.append(r['samples'][-1])
    dist['formats'] = len(ENTRIES)
    dist['formats_without_valid_seed'] = [r['label'] for r in results if not r['dist']['numbers']]
    dist['failing_per_site'] = col.per_site()
    return {
        'cases': cases,
        'distinct_nontrivial': nontrivial,
        'rule': ('for each of the %d formats: every canonical valid corpus number + the length-/letter-extremal valid '
                 'numbers of common.extremal_numbers() + synthesised valid numbers (class '
                 'preserving mutation of 1..k positions, check position(s) repaired by brute force against validate); '
                 'under the options of the entry and with every boolean option of validate() flipped (numbers that '
                 'are valid under that option value); '
                 'exhaustive neighbourhood: position x other character of the same class (digit/upper/lower), and '
                 'adjacent swaps of different digits where the property promises them.  Every neighbour of a valid '
                 'number is a non-trivial case (cases additionally counts the validate calls of the synthesiser).'
                 % len(ENTRIES)),
        'failing': col.failing(),
        'samples': samples,
        'distribution': dist,
    }


def _differs_by_one_edit(a, b):
    if len(a) != len(b) or a == b:
        return False
    d = [i for i in range(len(a)) if a[i] != b[i]]
    if len(d) == 1:
        return _chk.char_class(a[d[0]]) is not None and _chk.char_class(a[d[0]]) == _chk.char_class(b[d[0]])
    return len(d) == 2 and d[1] == d[0] + 1 and a[d[0]] == b[d[1]] and a[d[1]] == b[d[0]] and \
        a[d[0]] in DIGITS and a[d[1]] in DIGITS


def replay(case):
    with common.frozen_today(_chk.case_today(case)):
        mod = common.module(case['module'])
        args, kwargs = _chk.case_args(case)
        e = BY_LABEL.get(case.get('label'))
        dst = args[0]
        src = case.get('number')
        if src is None:
            # entries written in the census shape carry only the accepted number: the relation is symmetric, so any
            # valid neighbour of it (preferably one protected by the generic check) reproduces the pair
            cands = [v for _k, _i, v in neighbours(dst, True) if _chk.call(mod.validate, v, **kwargs)[0] == 'ok']
            es = [x for x in ENTRIES if x['module'] == case['module'] and x['generic']]
            prot = [v for v in cands if all(x['generic'](v) for x in es)]
            if not cands:
                return None
            src = (prot or cands)[0]
            case = dict(case, number=src)
        if not _differs_by_one_edit(src, dst):
            return None
        o1 = _chk.call(mod.validate, src, **kwargs)
        o2 = _chk.call(mod.validate, dst, **kwargs)
        if o1[0] != 'ok' or o2[0] != 'ok':
            return None
        if e and e['generic'] and not e['generic'](src):
            return None
        return dict(case, observed=_chk.fmt_outcome(o2))


if __name__ == '__main__':
    _chk.cli(globals())
