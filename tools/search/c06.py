#!/venv/bin/python
"""Failing-input search for property C06 on the REAL python-stdnum code (no Lean involved).

For luhn (decimal, hex, base 36, random even-sized alphabets), verhoeff, damm and the five iso7064
modules it enumerates every payload up to a small length (and random longer ones), and checks

* append-valid:   validate(p + calc_check_digit(p)) succeeds;
* uniqueness:     no other character of the check alphabet is accepted (mod_97_10: a digit pair is
                  accepted iff it is congruent mod 97 to the generated pair);
* substitutions:  every single-character substitution (same alphabet; mod_97_10: same kind, other value)
                  of the valid word is rejected;
* transpositions: every adjacent swap of two different characters is rejected, except
                  - luhn: accepted iff the two characters are the first and last alphabet symbol,
                  - mod_11_10 / mod_37_36 (hybrid systems): accepted iff the running checksums after the
                    first of the two characters are M/2 and M/2+1 (Props/C06.lean, *_swap_undetected_iff),
                  - mod_97_10: only swaps of two digits or two letters (different values) are claimed.
Tiers: 'quick' = payloads up to length 3 (decimal) / 2 (base 36/37) with complete neighbourhoods;
'thorough' = payloads up to length 5 (decimal; 4 for 0-9X and mod_97_10) / 3 (base 16/36/37), complete
neighbourhoods below the top length and for a 25 % sample at the top length; both plus random longer words.
* length:         the same at large lengths, including payloads near CPython's 4300-digit int() limit.

`search(seed, tier)` returns {"cases", "distinct_nontrivial", "failing", "samples"}; `python c06.py`
runs the quick tier and prints the dict as JSON.
"""
import importlib
import itertools
import json
import os
import random
import sys
import time
import traceback

sys.path.insert(0, os.path.dirname(os.path.dirname(os.path.abspath(__file__))))   # tools/
import common  # noqa: E402

from stdnum import damm, luhn, verhoeff  # noqa: E402
from stdnum.iso7064 import mod_11_2, mod_11_10, mod_37_2, mod_37_36, mod_97_10  # noqa: E402

PROPERTY = 'C06'

RULE = (
    'Per scheme (algorithm + alphabet): every payload up to a small length (quick: 3 decimal / 2 base 36; '
    'thorough: 5 decimal / 3 base 36, full neighbourhood for a 25 % sample at the top length) plus random '
    'payloads of length 4-300 and one of length 5000; for each payload: append-valid, uniqueness of the check '
    'character over the whole check alphabet, every single substitution and every adjacent swap of the valid '
    'word (a sample of 12 positions beyond length 40). Expected outcomes: Luhn misses exactly the swap of first/'
    'last alphabet symbol; mod_11_10/mod_37_36 miss a swap iff the running checksums after the first of the two '
    'characters are M/2 and M/2+1; mod_97_10: digit pair accepted iff congruent mod 97 to the generated pair, '
    'substitutions/swaps only between characters of the same kind (digit/letter) with different values. '
    'Non-trivial = distinct valid words of length >= 2 whose neighbourhood was explored.')

_STDNUM_DIR = os.path.join(common.REPO, 'stdnum') + os.sep


def exc_site(exc):
    """innermost frame inside /repo/stdnum: '<relative file>:<function>:<stripped source line>'"""
    for fr in reversed(traceback.extract_tb(exc.__traceback__)):
        if fr.filename.startswith(_STDNUM_DIR):
            return '%s:%s:%s' % (os.path.relpath(fr.filename, common.REPO), fr.name, (fr.line or '').strip())
    return 'outside-stdnum:%s' % type(exc).__name__


def rel_file(module):
    return module.__name__.replace('.', '/') + '.py'

DIGITS = '0123456789'
HEX = '0123456789abcdef'
D_X = '0123456789X'
B36 = '0123456789ABCDEFGHIJKLMNOPQRSTUVWXYZ'
B37 = B36 + '*'


class Scheme:
    """one algorithm + alphabet configuration"""

    def __init__(self, name, module, payload_alpha, check_alpha, extra=(), swap_rule='all',
                 subst_alpha=None, max_exh=None):
        self.name = name
        self.module = module
        self.payload_alpha = payload_alpha
        self.check_alpha = check_alpha        # alphabet of the check character
        self.extra = tuple(extra)
        self.swap_rule = swap_rule            # 'all' | 'luhn' | 'hybrid' | 'kind'
        self.subst_alpha = subst_alpha or payload_alpha
        self.two = module is mod_97_10
        self.calc = module.calc_check_digits if self.two else module.calc_check_digit
        self.is_valid = module.is_valid
        self.checksum = module.checksum
        self.max_exh = max_exh                # (quick, thorough) exhaustive payload length

    def valid(self, w):
        return self.is_valid(w, *self.extra)


def kind(c):
    return 'd' if c in DIGITS else 'l'


def b36(c):
    return int(c, 36)


class Search:
    def __init__(self, seed):
        self.rnd = random.Random(seed)
        self.cases = 0
        self.failing = []
        self.n_failing = 0
        self.samples = []
        self.nontrivial = set()
        self.distribution = {}

    def count(self, s, what, n=1):
        d = self.distribution.setdefault(s.name, {})
        d[what] = d.get(what, 0) + n

    def fail(self, s, function, args, observed, expected, relation, exc=None, expected_value=None):
        """record a violation; `args` are the positional arguments of `function` (strings)"""
        self.n_failing += 1
        self.count(s, 'FAILING ' + relation)
        site = exc_site(exc) if exc is not None else '%s:%s:%s' % (rel_file(s.module), function, relation)
        # keep at most 3 examples per (function, site), the shortest first seen
        same = [c for c in self.failing if c['site'] == site and c['function'] == function]
        if len(same) >= 3 or len(self.failing) >= 200:
            return
        self.failing.append({
            'property': PROPERTY, 'module': s.module.__name__, 'function': function,
            'args': [common.describe(a) for a in args],
            'observed': observed, 'expected': expected, 'expected_value': expected_value,
            'site': site, 'relation': relation, 'scheme': s.name,
            'shown': [a if len(a) <= 60 else '%s… (%d chars)' % (a[:40], len(a)) for a in args]})

    def sample(self, s, what, w, result):
        if len(self.samples) < 40 and self.rnd.random() < 0.0005:
            self.samples.append({'scheme': s.name, 'check': what, 'word': w, 'result': result})

    # --- the checks for one payload ---------------------------------------------------------
    def check_payload(self, s, p, all_neighbours=True):
        ex = s.extra
        try:
            c = s.calc(p, *ex)
        except Exception as e:  # noqa: B902
            self.cases += 1
            self.fail(s, s.calc.__name__, (p,) + ex, 'raises ' + type(e).__name__,
                      'check character(s) that make the number valid', 'append-valid', exc=e)
            return
        w = p + c
        self.cases += 1
        self.count(s, 'payloads')
        if not s.valid(w):
            self.fail(s, 'is_valid', (w,) + ex, 'returns False', 'True (payload + generated check)',
                      'append-valid', expected_value=True)
            return
        if len(w) >= 2:
            self.nontrivial.add((s.name, w))
        self.sample(s, 'append-valid', w, True)
        # uniqueness
        if s.two:
            target = int(c) % 97
            for cc in range(100):
                cand = '%02d' % cc
                self.cases += 1
                got = s.valid(p + cand)
                if got != (cc % 97 == target):
                    self.fail(s, 'is_valid', (p + cand,), 'returns %r' % got, repr(cc % 97 == target),
                              'check-digits', expected_value=(cc % 97 == target))
            self.count(s, 'uniqueness checks', 100)
        else:
            for cand in s.check_alpha:
                self.cases += 1
                got = s.valid(p + cand)
                if got != (cand == c):
                    self.fail(s, 'is_valid', (p + cand,) + ex, 'returns %r' % got, repr(cand == c), 'uniqueness',
                              expected_value=(cand == c))
            self.count(s, 'uniqueness checks', len(s.check_alpha))
        if not all_neighbours:
            return
        # single substitutions (every position; a sample of positions for long words)
        positions = range(len(w)) if len(w) <= 40 else sorted(self.rnd.sample(range(len(w)), 12))
        for i in positions:
            head, old, tail = w[:i], w[i], w[i + 1:]
            for x in s.subst_alpha:
                if x == old:
                    continue
                if s.swap_rule == 'kind' and (kind(x) != kind(old) or b36(x) == b36(old)):
                    continue
                self.cases += 1
                self.count(s, 'substitutions')
                if s.valid(head + x + tail):
                    self.fail(s, 'is_valid', (head + x + tail,) + ex, 'returns True',
                              'False (single substitution in a valid number)', 'substitution',
                              expected_value=False)
        # adjacent transpositions
        positions = range(len(w) - 1) if len(w) <= 40 else sorted(self.rnd.sample(range(len(w) - 1), 12))
        for i in positions:
            a, b = w[i], w[i + 1]
            if a == b:
                continue
            sw = w[:i] + b + a + w[i + 2:]
            if s.swap_rule == 'luhn':
                alpha = ex[0] if ex else DIGITS
                expected = {a, b} == {alpha[0], alpha[-1]}
            elif s.swap_rule == 'hybrid':
                m = len(ex[0]) if ex else (10 if s.module is mod_11_10 else 36)
                expected = {s.checksum(w[:i] + a, *ex), s.checksum(w[:i] + b, *ex)} == {m // 2, (m // 2 + 1) % m}
            elif s.swap_rule == 'kind':
                if kind(a) != kind(b) or b36(a) == b36(b):
                    continue
                expected = False
            else:
                expected = False
            self.cases += 1
            self.count(s, 'swaps expected undetected' if expected else 'swaps expected detected')
            got = s.valid(sw)
            if got != expected:
                self.fail(s, 'is_valid', (sw,) + ex, 'returns %r' % got,
                          '%r (adjacent transposition in a valid number)' % expected, 'transposition',
                          expected_value=expected)
            elif expected:
                self.sample(s, 'undetected swap (as characterised)', sw, True)

    def exhaustive(self, s, max_len, top_fraction=1.0):
        """every payload up to max_len: append-valid and uniqueness for all of them, all substitutions and
        swaps for all of them below max_len and for a `top_fraction` sample at max_len"""
        for n in range(0, max_len + 1):
            for t in itertools.product(s.payload_alpha, repeat=n):
                full = n < max_len or top_fraction >= 1.0 or self.rnd.random() < top_fraction
                self.check_payload(s, ''.join(t), all_neighbours=full)

    def random_long(self, s, count, lo, hi):
        for _ in range(count):
            n = self.rnd.randint(lo, hi)
            p = ''.join(self.rnd.choice(s.payload_alpha) for _ in range(n))
            self.check_payload(s, p)


def schemes(rnd):
    pool = [chr(c) for c in range(33, 127)]
    out = [
        Scheme('luhn/decimal', luhn, DIGITS, DIGITS, (), 'luhn', max_exh=(3, 5)),
        Scheme('luhn/hex', luhn, HEX, HEX, (HEX,), 'luhn', max_exh=(2, 3)),
        Scheme('luhn/base36', luhn, B36, B36, (B36,), 'luhn', max_exh=(2, 3)),
        Scheme('luhn/binary', luhn, '01', '01', ('01',), 'luhn', max_exh=(6, 10)),
        Scheme('verhoeff', verhoeff, DIGITS, DIGITS, max_exh=(3, 5)),
        Scheme('damm', damm, DIGITS, DIGITS, max_exh=(3, 5)),
        Scheme('mod_11_2/digits', mod_11_2, DIGITS, D_X, subst_alpha=D_X, max_exh=(3, 5)),
        Scheme('mod_11_2/0-9X anywhere', mod_11_2, D_X, D_X, max_exh=(3, 4)),
        Scheme('mod_37_2/default', mod_37_2, B37, B37, max_exh=(2, 3)),
        Scheme('mod_37_2/0-9X', mod_37_2, D_X, D_X, (D_X,), max_exh=(3, 4)),
        Scheme('mod_11_10', mod_11_10, DIGITS, DIGITS, swap_rule='hybrid', max_exh=(3, 5)),
        Scheme('mod_37_36/default', mod_37_36, B36, B36, swap_rule='hybrid', max_exh=(2, 3)),
        Scheme('mod_37_36/decimal', mod_37_36, DIGITS, DIGITS, (DIGITS,), 'hybrid', max_exh=(3, 4)),
        Scheme('mod_37_36/hex', mod_37_36, HEX, HEX, (HEX,), 'hybrid', max_exh=(2, 3)),
        Scheme('mod_97_10/digits', mod_97_10, DIGITS, DIGITS, swap_rule='kind', max_exh=(3, 4)),
        Scheme('mod_97_10/base36', mod_97_10, B36, DIGITS, swap_rule='kind', max_exh=(2, 2)),
    ]
    for k in range(3):
        size = rnd.randint(1, 15) * 2
        a = ''.join(rnd.sample(pool, size))
        out.append(Scheme('luhn/random even alphabet %d (n=%d)' % (k, size), luhn, a, a, (a,), 'luhn',
                          max_exh=(2, 3) if size <= 16 else (1, 2)))
        out.append(Scheme('mod_37_36/random even alphabet %d (n=%d)' % (k, size), mod_37_36, a, a, (a,),
                          'hybrid', max_exh=(2, 3) if size <= 16 else (1, 2)))
    for k in range(2):
        size = rnd.randint(1, 15) * 2 + 1
        a = ''.join(rnd.sample(pool, size))
        out.append(Scheme('mod_37_2/random odd alphabet %d (n=%d)' % (k, size), mod_37_2, a, a, (a,),
                          max_exh=(2, 3) if size <= 17 else (1, 2)))
    return out


def length_probes(srch, all_schemes):
    """long numbers; mod_97_10 goes through int() which CPython >= 3.11 limits to 4300 digits"""
    rnd = srch.rnd
    for s in all_schemes:
        if s.module is mod_97_10:
            continue
        p = ''.join(rnd.choice(s.payload_alpha) for _ in range(5000))
        srch.check_payload(s, p, all_neighbours=False)
    s97 = [s for s in all_schemes if s.name == 'mod_97_10/digits'][0]
    for n in (1000, 4000, 4297, 4298, 4299, 4300, 5000):
        p = ''.join(rnd.choice(DIGITS) for _ in range(n))
        srch.count(s97, 'length probes')
        try:
            c = mod_97_10.calc_check_digits(p)
            ok = mod_97_10.is_valid(p + c)
            srch.cases += 1
            if not ok:
                srch.fail(s97, 'is_valid', (p + c,), 'returns False', 'True (payload + generated check)',
                          'append-valid', expected_value=True)
        except Exception as e:  # noqa: B902
            srch.cases += 1
            # is there any pair that validates?
            some = any(mod_97_10.is_valid(p + '%02d' % cc) for cc in range(100))
            srch.cases += 100
            srch.fail(s97, 'calc_check_digits', (p,),
                      'raises %s (%d-digit payload); %s two check digits validate'
                      % (type(e).__name__, n, 'some' if some else 'no'),
                      'check digits that make the number valid (append-valid at any length)',
                      'append-valid', exc=e)


def search(seed, tier='quick'):
    t0 = time.time()
    srch = Search(seed)
    all_schemes = schemes(srch.rnd)
    idx = 0 if tier == 'quick' else 1
    n_random = 150 if tier == 'quick' else 1500
    for s in all_schemes:
        # thorough: full neighbourhoods below the top length, a 25 % sample of payloads at the top length
        srch.exhaustive(s, s.max_exh[idx], 1.0 if tier == 'quick' else 0.25)
        srch.random_long(s, n_random // 3, 4, 12)
        srch.random_long(s, n_random // 3, 13, 40)
        srch.random_long(s, max(1, n_random // 30), 41, 300)
    length_probes(srch, all_schemes)
    return {
        'property': PROPERTY,
        'cases': srch.cases,
        'distinct_nontrivial': len(srch.nontrivial),
        'rule': RULE,
        'failing': srch.failing,
        'n_failing': srch.n_failing,
        'samples': srch.samples[:10],
        'distribution': srch.distribution,
        'tier': tier, 'seed': seed, 'schemes': [s.name for s in all_schemes],
        'seconds': round(time.time() - t0, 1),
    }


def replay(case):
    """re-run one failing case on the current tree; the case if it still fails, None if it passes"""
    mod = importlib.import_module(case['module'])
    args = [common.rebuild(a) for a in case['args']]
    fn = case['function']
    if fn == 'is_valid':
        try:
            got = mod.is_valid(*args)
        except Exception as e:  # noqa: B902
            got = 'raises ' + type(e).__name__
        if got == case.get('expected_value'):
            return None
        return dict(case, observed='returns %r' % (got,))
    if fn in ('calc_check_digit', 'calc_check_digits'):
        try:
            c = getattr(mod, fn)(*args)
        except Exception as e:  # noqa: B902
            return dict(case, observed='raises ' + type(e).__name__, site=exc_site(e))
        if mod.is_valid(args[0] + c, *args[1:]):
            return None
        return dict(case, observed='returns %r, but payload + check is not valid' % (c,))
    raise ValueError('cannot replay %r' % (fn,))


if __name__ == '__main__':
    tier = sys.argv[1] if len(sys.argv) > 1 else 'quick'
    res = search(int(os.environ.get('VERIF_SEED', '1')), tier)
    res['failing'] = res['failing'][:50]
    print(json.dumps(res))
    sys.exit(1 if res['failing'] else 0)
