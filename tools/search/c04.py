"""C04 - format() preserves the identity of a valid number.  Failing-input search, real code only."""
import os
import sys
import time

sys.path.insert(0, os.path.dirname(os.path.dirname(os.path.abspath(__file__))))   # tools/
sys.path.insert(0, os.path.dirname(os.path.abspath(__file__)))
import common   # noqa: E402
import _modgen as G   # noqa: E402

PROPERTY = 'C04'

RULE = (
    'per module with format(): x = corpus valid numbers in every accepted presentation (as written, compact, '
    'case variants, surrounding whitespace, prefixes, ASCII separators/whitespace at every position, every '
    'stdnum.util._char_map key inserted/substituted; plus single edits of valid numbers - common.mutations and every '
    'digit/A/X inserted, substituted or a character deleted at every position - that validate() happens to '
    'accept; table-driven numbers (every member of a module-level table put in the place of the member found in a '
    'valid number); the length-/letter-extremal valid numbers of common.extremal_numbers(); numbers whose body begins with a prefix the '
    'module strips or carries (with and without it); self-similar numbers: a substring of a valid number - as written / lower / upper / swapped case - '
    'copied over or inserted at another part of it (field starts of 1-4 characters to every position), kept when '
    'validate() accepts, each also in the case spellings of the whole number and of its first field; '
    'only presentations that validate() accepts are used) x '
    'format keyword options found by inspect.signature (booleans True/False, meid format None/hex/dec, de.stnr '
    'regions, caller-supplied separator: only separators that the module\'s own compact() removes at every inner '
    'position of valid numbers - discovered empirically from common.SEPARATORS, "", and two look-alikes).  '
    'Options whose name validate() also accepts are passed to validate as well; x must be valid under them.  '
    'Predicate: (a) format(x, **o) returns a str (no exception); (b) N(validate(format(x, **o), **ov)) == '
    'N(validate(x, **ov)) where N is the identity except the four documented normalisations (ismn -> 13 digit '
    'form, isan -> check characters disregarded, isil -> agency prefix upper-cased, meid -> check digit '
    'dropped); (c) format(x, **o) == format(validate(x), **o).  site = <file>:format:<relation>[non-default '
    'options].  ' + G.NONTRIVIAL_RULE)

PARAMS = {
    'quick': dict(full=0, dense=3, light=40, near=3, mutations=3, selfsim=4, selfsim_limit=250, table=2, table_limit=400),
    'thorough': dict(full=8, dense=40, light=400, near=30, mutations=12, selfsim=12, selfsim_limit=1200, table=12,
                     table_limit=6000),
}
EXPECT = ('format(x) does not raise; N(validate(format(x))) == N(validate(x)); format(x) == format(validate(x))')


# ---- the four documented normalisations, written out explicitly (nothing else is normalised)

def _n_ismn(v):
    return '9790' + v[1:] if len(v) == 10 and v[:1] == 'M' else v


def _n_isan(v):
    # root(12) episode(4) [check] [version(8) [check]]  ->  without check characters
    if len(v) in (17, 26):
        return v[:16] + v[17:25]
    if len(v) > 16:
        return v[:24]
    return v


def _n_isil(v):
    if '-' in v:
        a, b = v.split('-', 1)
        return a.upper() + '-' + b
    return v


def _n_meid(v):
    if len(v) == 15:
        return v[:14]
    if len(v) == 19:
        return v[:18]
    return v


NORMALISERS = {'stdnum.ismn': _n_ismn, 'stdnum.isan': _n_isan, 'stdnum.isil': _n_isil, 'stdnum.meid': _n_meid}


def modules():
    return [m.__name__ for m in common.number_modules() if hasattr(m, 'format')]


_sep_cache = {}


def removable_separators(mod):
    """separators that compact() removes (so that they are documented-safe values of `separator`)"""
    name = mod.__name__
    if name in _sep_cache:
        return _sep_cache[name]
    compact = getattr(mod, 'compact', None)
    cands = []
    for s in common.SEPARATORS + ['', '‐', '\xa0']:
        if s not in cands:
            cands.append(s)
    vals = common.valid_numbers(name)[:6]
    out = []
    for s in cands:
        ok = compact is not None and bool(vals)
        if ok and s:
            for v in vals:
                try:
                    c = compact(v)
                    if not isinstance(c, str) or not c:
                        ok = False
                        break
                    for i in range(1, len(c)):
                        if compact(c[:i] + s + c[i:]) != c:
                            ok = False
                            break
                except Exception:   # noqa: B902
                    ok = False
                if not ok:
                    break
        if ok:
            out.append(s)
    _sep_cache[name] = out
    return out


def format_option_sets(mod):
    ps = G.option_params(mod, 'format')
    over = {}
    for p in ps:
        if p.name == 'separator':
            seps = removable_separators(mod)
            vals = [p.default] + [s for s in seps if s != p.default]
            over['separator'] = vals
        elif p.name == 'region' and mod.__name__ == 'stdnum.de.stnr':
            over['region'] = [None] + list(getattr(mod, 'REGIONS', []))
    return G.option_sets(mod, 'format', over)


def opt_label(mod, kw):
    defaults = dict((p.name, p.default) for p in G.option_params(mod, 'format'))
    parts = []
    for k in sorted(kw):
        if k in defaults and (kw[k] is defaults[k] or (type(kw[k]) is type(defaults[k]) and kw[k] == defaults[k])):
            continue
        parts.append(k if k == 'separator' else '%s=%s' % (k, ascii(kw[k])))
    return ','.join(parts)


def evaluate(mod, x, fkw):
    """-> None (x not valid under the options) or (base outcome, [(site, observed, relation)])"""
    rf = G.relfile(mod)
    N = NORMALISERS.get(mod.__name__, lambda v: v)
    vkw = dict((k, v) for k, v in fkw.items() if G.accepts(mod, 'validate', {k: v}))
    base = G.call(mod, 'validate', mod.validate, (x,), vkw)
    if base[0] != 'ok' or not isinstance(base[1], str):
        return None
    lab = opt_label(mod, fkw)
    out = []
    fo = G.call(mod, 'format', mod.format, (x,), fkw)
    if fo[0] == 'exc':
        out.append((fo[2], 'format raises %s' % fo[1], 'format does not raise on valid input'))
        return base, out
    if fo[0] == 'verr':
        out.append(('%s:format:raises_validation_error[%s]' % (rf, lab), 'format raises %s' % fo[1],
                    'format does not raise on valid input'))
        return base, out
    f = fo[1]
    if not isinstance(f, str):
        out.append(('%s:format:returns_non_string[%s]' % (rf, lab), 'format returns %s' % type(f).__name__,
                    'format returns a string'))
        return base, out
    back = G.call(mod, 'validate', mod.validate, (f,), vkw)
    if back[0] == 'exc':
        out.append((back[2], 'format(x) = %s; validate(format(x)) raises %s' % (G.short(f, 40), back[1]),
                    'validate(format(x)) == validate(x)'))
    elif back[0] == 'verr':
        out.append(('%s:format:formatted_number_rejected[%s]' % (rf, lab),
                    'validate(x) = %s; format(x) = %s; validate(format(x)) raises %s' % (
                        G.short(base[1], 40), G.short(f, 40), back[1]), 'validate(format(x)) == validate(x)'))
    elif not isinstance(back[1], str) or N(back[1]) != N(base[1]):
        out.append(('%s:format:formatted_number_differs[%s]' % (rf, lab),
                    'validate(x) = %s; format(x) = %s; validate(format(x)) = %s' % (
                        G.short(base[1], 40), G.short(f, 40), G.short(back[1], 40)),
                    'validate(format(x)) == validate(x)'))
    v0 = base[1]
    if vkw:
        d = G.call(mod, 'validate', mod.validate, (x,), {})
        v0 = d[1] if d[0] == 'ok' and isinstance(d[1], str) else None
    if v0 is not None:
        f2 = G.call(mod, 'format', mod.format, (v0,), fkw)
        if f2[0] == 'exc':
            out.append((f2[2], 'format(validate(x)) raises %s' % f2[1], 'format(x) == format(validate(x))'))
        elif f2[0] == 'verr':
            out.append(('%s:format:canonical_form_raises_validation_error[%s]' % (rf, lab),
                        'validate(x) = %s; format(validate(x)) raises %s' % (G.short(v0, 40), f2[1]),
                        'format(x) == format(validate(x))'))
        elif f2[1] != f:
            out.append(('%s:format:depends_on_presentation[%s]' % (rf, lab),
                        'format(x) = %s but format(validate(x)) = %s' % (G.short(f, 40), G.short(f2[1], 40)),
                        'format(x) == format(validate(x))'))
    return base, out


def _worker(task):
    modname, part, nparts, seed, tier = task
    mod = common.module(modname)
    sc = G.budget_scale(mod)
    P = G.scaled_params(PARAMS[tier], sc, tier)
    rng = G.task_rng(seed, PROPERTY, modname, part)
    fnd, st = G.Findings(), G.Stats()
    valid = G.part_slice(G.diverse(common.valid_numbers(modname), 10 ** 6), part, nparts)
    fopts = format_option_sets(mod)
    samples = []
    compact = getattr(mod, 'compact', None)

    thin = G.Thinner(sc, tier)

    def check(gen, x, fkw):
        if thin.skip(gen):
            return False
        r = evaluate(mod, x, fkw)
        if r is None:
            st.record(gen, (x, G.kw_key(fkw)), 'verr:not-valid-presentation')
            return False
        base, viol = r
        st.record(gen, (x, G.kw_key(fkw)), 'ok')
        for site, observed, relation in viol:
            fnd.add(modname, 'format', site, G.wsize(fkw, x), repr((x, G.kw_key(fkw)))[:300],
                    lambda: G.make_case(modname, 'format', [x], fkw, observed, EXPECT, site, relation,
                                        generator=gen))
        if len(samples) < 10 and not any(s['gen'] == gen for s in samples):
            samples.append({'module': modname, 'gen': gen, 'function': 'format', 'args': [G.describe_arg(x)],
                            'kwargs': G.describe_kwargs(fkw), 'validate': G.short(base[1], 40),
                            'violations': len(viol)})
        return True

    for idx, v in enumerate(valid):
        gidx = idx * nparts + part
        if gidx >= P['full'] + P['dense'] + P['light']:
            break
        level = 2 if gidx < P['full'] else 1 if gidx < P['full'] + P['dense'] else 0
        forms = [('orig', v)]
        if compact is not None:
            try:
                c = compact(v)
                if isinstance(c, str) and c and c != v:
                    forms.append(('compact', c))
            except Exception:   # noqa: B902
                pass
        for flab, f in forms:
            for fkw in fopts:
                check(flab, f, fkw)
            decs = G.decorations(mod, f, rng, level if flab == 'orig' else min(level, 1))
            acc = []
            for lab, y in decs:
                if check(lab.split(':')[0], y, {}):
                    acc.append((lab, y))
            if len(fopts) > 1 and acc:
                sub = acc if len(acc) <= 60 else rng.sample(acc, 60)
                for fkw in fopts[1:]:
                    for lab, y in sub:
                        check('option:' + ','.join(sorted(fkw)), y, fkw)
    # other valid numbers than the corpus ones: single edits of valid numbers that validate() happens to accept
    for idx, v in enumerate(valid):
        gidx = idx * nparts + part
        if gidx >= P['full'] + P['dense'] + P['light']:
            break
        for y in common.mutations(rng, v, P['mutations']):
            check('mutation', y, {})
        if gidx < P['near']:
            for i in range(len(v) + 1):
                for ch in '0123456789AX':
                    check('near-valid', v[:i] + ch + v[i:], {})
                    if i < len(v) and ch != v[i]:
                        check('near-valid', v[:i] + ch + v[i + 1:], {})
                if i < len(v):
                    check('near-valid', v[:i] + v[i + 1:], {})
    # one input per row of the tables of the module (every member put in the place of the member found in a valid
    # number), and the length-/letter-extremal valid numbers
    for idx, v in enumerate(valid):
        if idx * nparts + part >= P['table']:
            break
        for lab, y in G.table_variants(mod, v, rng, P['table_limit']):
            if check('table', y, {}):
                for fkw in fopts[1:]:
                    check('table:option', y, fkw)
    if part == 0:
        for y in common.extremal_numbers(modname):
            for fkw in fopts:
                check('extremal', y, fkw)
        for lab, y in G.own_prefix_numbers(mod, common.valid_numbers(modname), rng, 3000 if tier == 'quick' else 20000):
            for fkw in fopts:
                check('own-prefix', y, fkw)
    # self-similar valid numbers (the text of one part recurring in another part), in every case spelling
    for idx, v in enumerate(valid):
        gidx = idx * nparts + part
        if gidx >= P['selfsim']:
            break
        forms = [v]
        if compact is not None:
            try:
                c = compact(v)
                if isinstance(c, str) and c and c != v:
                    forms.append(c)
            except Exception:   # noqa: B902
                pass
        for f in forms:
            for lab, y in G.self_similar(f, rng, P['selfsim_limit']):
                if check(lab, y, {}):
                    for z in G.case_presentations(y):
                        check('self-similar:case', z, {})
                    for fkw in fopts[1:]:
                        check('self-similar:option', y, fkw)
    return {'module': modname, 'task': (modname, part), 'stats': st.summary(), 'findings': fnd.export(),
            'samples': samples}


def search(seed, tier):
    t0 = time.time()
    names = modules()
    tasks = [(n, p, k, seed, tier) for (n, p, k) in G.module_tasks(names, tier, 12)]
    results = G.run_tasks(_worker, G.schedule(tasks))
    results.sort(key=lambda r: r['task'])
    options = {}
    for n in names:
        o = format_option_sets(common.module(n))
        if len(o) > 1:
            options[n] = [dict((k, ascii(v)[:40]) for k, v in kw.items()) for kw in o]
    res, _ = G.merge_results(PROPERTY, RULE, results, t0, {
        'format_option_sets': options, 'normalisers': sorted(NORMALISERS),
        'note': 'outcome "rejected" counts presentations that validate() does not accept (not used as x)'})
    return res


def replay(case):
    mod, args, kwargs, today = G.case_inputs(case)
    with G.frozen(today):
        r = evaluate(mod, args[0], kwargs)
    if r is None or not r[1]:
        return None
    viol = r[1]
    same = [v for v in viol if v[0] == case.get('site')] or viol
    return dict(case, site=same[0][0], observed=same[0][1], relation=same[0][2])


if __name__ == '__main__':
    G.main(PROPERTY, search, replay)
