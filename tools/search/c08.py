"""C08 - conversions between formats preserve validity and identity; paired conversions undo each other.

For every conversion of the library (see CHECKS below) and every valid source number (corpus +
synthesised) in compact / space-separated / hyphen-separated presentation and with every conversion
option, the engine checks
  target-valid : the result is accepted by the target format's validate()
  identity     : the payload of the source is embedded unchanged in the result (defined per relation)
  inverse      : the paired conversion gives back the (canonical) source
A conversion may raise a ValidationError only where the target genuinely cannot represent the source
(ISBN-13 with 979 prefix -> ISBN-10, RUC of a company -> DNI, ambiguous German regional tax number
without region); those cases are encoded explicitly.
"""
import os
import random
import re
import sys

sys.path.insert(0, os.path.dirname(os.path.abspath(__file__)))
sys.path.insert(0, os.path.dirname(os.path.dirname(os.path.abspath(__file__))))   # tools/
import common  # noqa: E402
import _engine as E  # noqa: E402

PROPERTY = 'C08'

RULE = ('sources: valid numbers of each source format from common.corpus() plus synthesised ones (random payload, '
        'check digits computed, accepted by the real validate()); each in presentations compact / module format() / '
        'space- and hyphen-separated at natural, 4-group and random inner positions (kept only when the source '
        'validate() accepts the presentation with the same canonical value) x conversion options (issue code, '
        'region, format=hex/dec, separator, check-digit flags). Non-trivial = distinct (conversion, canonical source, '
        'options) triples whose source is valid; every evaluation of a relation counts as a case.')

DIGITS = '0123456789'
UPPER = 'ABCDEFGHIJKLMNOPQRSTUVWXYZ'
HEX = '0123456789ABCDEF'


def M(name):
    return common.module('stdnum.' + name)


# ----------------------------------------------------------------------------- reporting

class Rep:
    """reporter bound to one conversion call (module, function, args, kwargs)"""

    def __init__(self, col, module, function, args, kwargs, gen=''):
        self.col, self.module, self.function = col, module, function
        self.args, self.kwargs, self.gen = args, kwargs, gen
        self.found = []

    def tick(self, relation):
        self.col.tick('relation:' + relation, 'module:' + self.module)

    def bad(self, observed, expected, relation, site=None):
        if isinstance(observed, E.Out):
            site = site or observed.site
            observed = observed.show()
        if site is None:
            site = E.value_site(self.module, self.function, relation)
        case = E.mkcase(self.module, self.function, self.args, observed, expected, site, relation,
                        kwargs=self.kwargs, generator=self.gen)
        self.found.append(case)
        if self.col is not None:
            self.col.fail(case)

    def convert(self, f, allow_verr=False):
        """run the conversion under test; anything but a value is a failure (unless allow_verr)"""
        self.tick('converts')
        out = E.call(f, *self.args, **self.kwargs)
        if out.kind == 'ok':
            return out.value
        if out.kind == 'verr' and allow_verr:
            return None
        self.bad(out, 'a converted number (source is valid and representable in the target)', 'converts')
        return None

    def target_valid(self, validate, r, what, **kw):
        self.tick('target-valid')
        out = E.call(validate, r, **kw)
        if out.kind != 'ok':
            self.bad('result %s; %s(result) %s' % (E.short(r), what, out.show()),
                     '%s accepts the converted number' % what, 'target-valid')
            return None
        return out.value

    def same(self, got, want, relation, descr):
        self.tick(relation)
        if got != want:
            self.bad('%s: got %s, want %s' % (descr, E.short(got), E.short(want)), descr + ' equal', relation)
            return False
        return True

    def step(self, f, relation, descr, *a, **k):
        """a follow-up call (inverse etc.) that must not raise"""
        out = E.call(f, *a, **k)
        if out.kind != 'ok':
            self.tick(relation)
            self.bad('%s %s' % (descr, out.show()), descr + ' returns', relation,
                     site=out.site if out.kind == 'exc' else None)
            return None
        return out.value


# ----------------------------------------------------------------------------- checkers
# each checker: chk(rep, *args, **kwargs) for the conversion call module.function(*args, **kwargs)

def chk_isbn_to13(rep, v):
    isbn = M('isbn')
    c = isbn.compact(v)
    r = rep.convert(isbn.to_isbn13)
    if r is None:
        return
    t = rep.target_valid(isbn.validate, r, 'isbn.validate')
    if t is None:
        return
    if not rep.same(len(t), 13, 'target-valid', 'length of converted ISBN'):
        return
    if len(c) == 13:
        rep.same(t, c, 'identity', 'ISBN-13 left unchanged')
    else:
        rep.same(t[:3] + t[3:12], '978' + c[:9], 'identity', '978 + first 9 digits of ISBN-10')
        back = rep.step(isbn.to_isbn10, 'inverse', 'to_isbn10(to_isbn13(v))', r)
        if back is not None:
            rep.same(isbn.compact(back), c, 'inverse', 'to_isbn10(to_isbn13(v)) vs compact(v)')


def chk_isbn_convert_flag(rep, v, convert=True):
    isbn = M('isbn')
    c = isbn.compact(v)
    want = c if len(c) == 13 else None
    r = rep.convert(getattr(isbn, rep.function))
    if r is None:
        return
    if rep.function == 'split':
        r = ''.join(r)
    if rep.function == 'format':
        r = r.replace('-', '')
    t = rep.target_valid(isbn.validate, r, 'isbn.validate')
    if t is None:
        return
    rep.same(len(t), 13, 'target-valid', 'length with convert=True')
    if want:
        rep.same(t, want, 'identity', 'ISBN-13 unchanged by convert=True')
    else:
        rep.same(t[3:12], c[:9], 'identity', 'payload digits with convert=True')


def chk_isbn_to10(rep, v):
    isbn = M('isbn')
    c = isbn.compact(v)
    if len(c) == 13 and c.startswith('979'):
        rep.tick('unrepresentable')
        out = E.call(isbn.to_isbn10, v)
        if out.kind != 'verr':
            rep.bad(out, 'ValidationError (979 prefix has no ISBN-10)', 'unrepresentable')
        return
    r = rep.convert(isbn.to_isbn10)
    if r is None:
        return
    t = rep.target_valid(isbn.validate, r, 'isbn.validate')
    if t is None:
        return
    if not rep.same(len(t), 10, 'target-valid', 'length of converted ISBN'):
        return
    if len(c) == 10:
        rep.same(t, c, 'identity', 'ISBN-10 left unchanged')
    else:
        rep.same(t[:9], c[3:12], 'identity', 'payload digits of ISBN-13')
        back = rep.step(isbn.to_isbn13, 'inverse', 'to_isbn13(to_isbn10(v))', r)
        if back is not None:
            rep.same(isbn.compact(back), c, 'inverse', 'to_isbn13(to_isbn10(v)) vs compact(v)')


def chk_ismn_to13(rep, v):
    ismn = M('ismn')
    c = ismn.compact(v)
    r = rep.convert(ismn.to_ismn13)
    if r is None:
        return
    t = rep.target_valid(ismn.validate, r, 'ismn.validate')
    if t is None:
        return
    if not rep.same(len(t), 13, 'target-valid', 'length of converted ISMN'):
        return
    if len(c) == 13:
        rep.same(t, c, 'identity', 'ISMN-13 left unchanged')
    else:
        rep.same(t, '9790' + c[1:], 'identity', "'9790' + digits of ISMN-10")
    rep.tick('target-valid')
    out = E.call(M('ean').validate, r)
    if out.kind != 'ok':
        rep.bad('ean.validate(%r) %s' % (r, out.show()), 'EAN-13 valid', 'target-valid')


def chk_issn_to_ean(rep, v, **kw):
    issn, ean = M('issn'), M('ean')
    code = kw.get('issue_code', '00')
    c = issn.compact(v)
    r = rep.convert(issn.to_ean)
    if r is None:
        return
    t = rep.target_valid(ean.validate, r, 'ean.validate')
    if t is None:
        return
    rep.same(len(t), 13, 'target-valid', 'length of EAN')
    rep.same(t[:12], '977' + c[:7] + code, 'identity', "'977' + ISSN digits + issue code")


def _chk_isin(rep, cc, f, compact, v):
    isin = M('isin')
    c = compact(v)
    r = rep.convert(f)
    if r is None:
        return
    t = rep.target_valid(isin.validate, r, 'isin.validate')
    if t is None:
        return
    rep.same(t[:11], cc.upper() + c.zfill(9), 'identity', 'country code + zero-filled national id')


def chk_cusip_to_isin(rep, v):
    _chk_isin(rep, 'US', M('cusip').to_isin, M('cusip').compact, v)


def chk_sedol_to_isin(rep, v):
    _chk_isin(rep, 'GB', M('gb.sedol').to_isin, M('gb.sedol').compact, v)


def chk_wkn_to_isin(rep, v):
    _chk_isin(rep, 'DE', M('de.wkn').to_isin, M('de.wkn').compact, v)


def chk_isin_from_natid(rep, cc, v):
    _chk_isin(rep, cc, M('isin').from_natid, M('isin').compact, v)


def _chk_to_iban(rep, src, nat, extract, v):
    iban = M('iban')
    c = src.compact(v)
    r = rep.convert(src.to_iban)
    if r is None:
        return
    t = rep.target_valid(iban.validate, r, 'iban.validate')
    if t is None:
        return
    rep.target_valid(nat.validate, r, nat.__name__.replace('stdnum.', '') + '.validate')
    rep.same(src.compact(t[4:]), c, 'identity', 'BBAN of the IBAN vs account number (both compacted)')
    back = rep.step(extract, 'inverse', 'back-conversion of the IBAN', r)
    if back is not None:
        rep.same(src.compact(back), c, 'inverse', 'account number extracted from the IBAN (compacted)')


def chk_ccc_to_iban(rep, v):
    _chk_to_iban(rep, M('es.ccc'), M('es.iban'), M('es.iban').to_ccc, v)


def chk_kontonr_to_iban(rep, v):
    _chk_to_iban(rep, M('no.kontonr'), M('no.iban'), M('no.iban').to_kontonr, v)


def _chk_from_iban(rep, natiban, f, acct, v):
    c = natiban.compact(v)
    r = rep.convert(f)
    if r is None:
        return
    t = rep.target_valid(acct.validate, r, acct.__name__.replace('stdnum.', '') + '.validate')
    if t is None:
        return
    rep.same(t, acct.compact(c[4:]), 'identity', 'account number vs BBAN')
    back = rep.step(acct.to_iban, 'inverse', 'to_iban(extracted)', r)
    if back is not None:
        rep.same(natiban.compact(back), c, 'inverse', 'to_iban(extracted account) vs IBAN')


def chk_iban_to_ccc(rep, v):
    _chk_from_iban(rep, M('es.iban'), M('es.iban').to_ccc, M('es.ccc'), v)


def chk_iban_to_kontonr(rep, v):
    _chk_from_iban(rep, M('no.iban'), M('no.iban').to_kontonr, M('no.kontonr'), v)


def chk_acn_to_abn(rep, v):
    acn, abn = M('au.acn'), M('au.abn')
    r = rep.convert(acn.to_abn)
    if r is None:
        return
    t = rep.target_valid(abn.validate, r, 'au.abn.validate')
    if t is not None:
        rep.same(t[2:], acn.compact(v), 'identity', 'ABN without its 2 check digits vs ACN')


def chk_siret_to_siren(rep, v):
    siret, siren = M('fr.siret'), M('fr.siren')
    r = rep.convert(siret.to_siren)
    if r is None:
        return
    t = rep.target_valid(siren.validate, r, 'fr.siren.validate')
    if t is not None:
        rep.same(t, siret.compact(v)[:9], 'identity', 'SIREN vs first 9 digits of SIRET')


def _chk_to_tva(rep, src, v):
    tva = M('fr.tva')
    r = rep.convert(src.to_tva)
    if r is None:
        return
    t = rep.target_valid(tva.validate, r, 'fr.tva.validate')
    if t is not None:
        rep.same(t[2:], src.compact(v)[:9], 'identity', 'TVA without its 2 check digits vs SIREN')
        rep.target_valid(M('eu.vat').validate, 'FR' + r, 'eu.vat.validate("FR"+...)')


def chk_siren_to_tva(rep, v):
    _chk_to_tva(rep, M('fr.siren'), v)


def chk_siret_to_tva(rep, v):
    _chk_to_tva(rep, M('fr.siret'), v)


def chk_cui_to_ruc(rep, v):
    cui, ruc = M('pe.cui'), M('pe.ruc')
    c = cui.compact(v)
    r = rep.convert(cui.to_ruc)
    if r is None:
        return
    t = rep.target_valid(ruc.validate, r, 'pe.ruc.validate')
    if t is None:
        return
    rep.same(t[:10], '10' + c[:8], 'identity', "'10' + 8 CUI digits")
    back = rep.step(ruc.to_dni, 'inverse', 'ruc.to_dni(to_ruc(v))', r)
    if back is not None:
        rep.same(back, c[:8], 'inverse', 'to_dni(to_ruc(v)) vs CUI digits')


def chk_ruc_to_dni(rep, v):
    cui, ruc = M('pe.cui'), M('pe.ruc')
    c = ruc.compact(v)
    if not c.startswith('10'):
        rep.tick('unrepresentable')
        out = E.call(ruc.to_dni, v)
        if out.kind != 'verr':
            rep.bad(out, 'ValidationError (RUC is not that of a natural person)', 'unrepresentable')
        return
    r = rep.convert(ruc.to_dni)
    if r is None:
        return
    t = rep.target_valid(cui.validate, r, 'pe.cui.validate')
    if t is None:
        return
    rep.same(t, c[2:10], 'identity', 'DNI vs digits 3-10 of the RUC')
    back = rep.step(cui.to_ruc, 'inverse', 'cui.to_ruc(to_dni(v))', r)
    if back is not None:
        rep.same(back, c, 'inverse', 'to_ruc(to_dni(v)) vs RUC')


def chk_gstin_to_pan(rep, v):
    gstin, pan = M('in_.gstin'), M('in_.pan')
    r = rep.convert(gstin.to_pan)
    if r is None:
        return
    t = rep.target_valid(pan.validate, r, 'in_.pan.validate')
    if t is not None:
        rep.same(t, gstin.compact(v)[2:12], 'identity', 'PAN vs characters 3-12 of the GSTIN')


def chk_aic_to_base32(rep, v):
    aic = M('it.aic')
    r = rep.convert(aic.to_base32)
    if r is None:
        return
    t = rep.target_valid(aic.validate_base32, r, 'it.aic.validate_base32')
    if t is None:
        return
    rep.same(len(r), 6, 'target-valid', 'length of base32 AIC')
    rep.same(t, aic.compact(v), 'identity', 'validate_base32(to_base32(v)) vs base10 v')
    back = rep.step(aic.from_base32, 'inverse', 'from_base32(to_base32(v))', r)
    if back is not None:
        rep.same(back, aic.compact(v), 'inverse', 'from_base32(to_base32(v)) vs v')


def chk_aic_from_base32(rep, v):
    aic = M('it.aic')
    r = rep.convert(aic.from_base32)
    if r is None:
        return
    t = rep.target_valid(aic.validate_base10, r, 'it.aic.validate_base10')
    if t is None:
        return
    rep.same(t, aic.validate(v), 'identity', 'from_base32(v) vs validate(v)')
    back = rep.step(aic.to_base32, 'inverse', 'to_base32(from_base32(v))', r)
    if back is not None:
        rep.same(back, aic.compact(v), 'inverse', 'to_base32(from_base32(v)) vs v')


def chk_meid_format(rep, v, **kw):
    meid = M('meid')
    canon = meid.validate(v)                        # 14 hex, no check digit
    r = rep.convert(meid.format)
    if r is None:
        return
    t = rep.target_valid(meid.validate, r, 'meid.validate')
    if t is None:
        return
    rep.same(t, canon, 'identity', 'validate(format(v)) vs validate(v)')
    fmt = kw.get('format')
    body = re.sub(r'[^0-9A-Za-z]', '', r) if kw.get('separator', ' ') else r
    if fmt == 'dec':
        rep.same((len(body) in (18, 19)) and body.isdigit(), True, 'target-valid', 'format=dec gives 18/19 decimal digits')
    elif fmt == 'hex':
        rep.same(len(body) in (14, 15), True, 'target-valid', 'format=hex gives 14/15 hex digits')
    had_cd = len(re.sub(r'[^0-9A-Za-z]', '', v)) in (15, 19)
    want_cd = had_cd or kw.get('add_check_digit', False)
    if kw.get('separator', ' ') or True:
        rep.same(len(re.sub(r'[^0-9A-Za-z]', '', r)) in ((15, 19) if want_cd else (14, 18)), True, 'identity',
                 'check digit present exactly when the source had one or add_check_digit')
    if want_cd:
        t2 = rep.target_valid(meid.validate, r, 'meid.validate(strip_check_digit=False)', strip_check_digit=False)
        if t2 is not None:
            rep.same(t2, canon + meid.calc_check_digit(canon), 'identity', 'check digit after conversion')
    if fmt in ('hex', 'dec'):
        other = 'dec' if fmt == 'hex' else 'hex'
        back = rep.step(meid.format, 'inverse', 'format(format(v, %s), %s)' % (fmt, other), r, format=other)
        if back is not None:
            b = rep.step(meid.validate, 'inverse', 'validate(round trip)', back)
            if b is not None:
                rep.same(b, canon, 'inverse', 'hex/dec round trip vs validate(v)')
    rep.tick('identity')
    cm = E.call(meid.compact, r)
    if cm.kind != 'ok' or cm.value != canon:
        rep.bad('compact(format(v)) %s' % cm.show(), 'compact(format(v)) == %r' % canon, 'identity')


def chk_meid_to_binary(rep, v):
    meid = M('meid')
    r = rep.convert(meid.to_binary)
    if r is None:
        return
    rep.same(''.join('%02X' % b for b in bytearray(r)), meid.validate(v), 'identity', 'hex of to_binary(v) vs validate(v)')


def chk_meid_to_pesn(rep, v):
    meid = M('meid')
    r = rep.convert(meid.to_pseudo_esn)
    if r is None:
        return
    rep.same(bool(re.match(r'^80[0-9A-F]{6}$', r)), True, 'target-valid', 'pseudo ESN is 80 + 6 hex digits')
    r2 = rep.step(meid.to_pseudo_esn, 'identity', 'to_pseudo_esn(canonical)', meid.validate(v))
    if r2 is not None:
        rep.same(r, r2, 'identity', 'pESN of presentation vs pESN of canonical number')


def chk_imei_format(rep, v, **kw):
    imei = M('imei')
    c = imei.compact(v)
    r = rep.convert(imei.format)
    if r is None:
        return
    t = rep.target_valid(imei.validate, r, 'imei.validate')
    if t is None:
        return
    if len(c) == 14 and kw.get('add_check_digit'):
        rep.same(len(t), 15, 'target-valid', 'check digit added')
        rep.same(t[:14], c, 'identity', 'IMEI digits')
        rep.target_valid(M('luhn').validate, t, 'luhn.validate')
    else:
        rep.same(t, c, 'identity', 'IMEI digits')


def chk_stnr_to_country(rep, v, region=None):
    stnr = M('de.stnr')
    c = stnr.compact(v)
    regions = stnr.guess_regions(c)
    regional_regions = [r for r in regions if _stnr_is_regional(c, r)]
    if region is None and len(regional_regions) != 1:
        rep.tick('unrepresentable')
        out = E.call(stnr.to_country_number, v)
        if out.kind != 'verr':
            rep.bad(out, 'ValidationError (region needed / not a regional number)', 'unrepresentable')
        return
    the_region = region or regional_regions[0]
    r = rep.convert(stnr.to_country_number)
    if r is None:
        return
    t = rep.target_valid(stnr.validate, r, 'de.stnr.validate(region)', region=the_region)
    if t is None:
        return
    rep.same(len(t), 13, 'target-valid', 'country number has 13 digits')
    rep.same(stnr.guess_regions(t), [stnr._number_formats_per_region[stnr._clean_region(the_region)][0]],
             'identity', 'region encoded in the country number')
    rep.same(_stnr_parts(c, the_region, 1), _stnr_parts(t, the_region, 2), 'identity', 'F/B/U/P digit groups')
    back = rep.step(stnr.to_regional_number, 'inverse', 'to_regional_number(to_country_number(v))', r)
    if back is not None:
        rep.same(back, c, 'inverse', 'to_regional_number(to_country_number(v)) vs compact(v)')


def _stnr_fmt(region, idx):
    stnr = M('de.stnr')
    return stnr._number_formats_per_region[stnr._clean_region(region)][idx]


def _stnr_is_regional(c, region):
    return bool(_stnr_fmt(region, 1).match(c))


def _stnr_parts(c, region, idx):
    m = _stnr_fmt(region, idx).match(c)
    return m.groups() if m else None


def chk_stnr_to_regional(rep, v):
    stnr = M('de.stnr')
    c = stnr.compact(v)
    regions = [r for r in stnr.guess_regions(c) if _stnr_fmt(r, 2).match(c)]
    r = rep.convert(stnr.to_regional_number)
    if r is None:
        return
    if len(regions) != 1:
        rep.bad('country number matches regions %r' % (regions,), 'exactly one region', 'identity')
        return
    region = regions[0]
    t = rep.target_valid(stnr.validate, r, 'de.stnr.validate(region)', region=region)
    if t is None:
        return
    rep.same(len(t) in (10, 11), True, 'target-valid', 'regional number has 10/11 digits')
    rep.same(_stnr_parts(t, region, 1), _stnr_parts(c, region, 2), 'identity', 'F/B/U/P digit groups')
    back = rep.step(stnr.to_country_number, 'inverse', 'to_country_number(to_regional_number(v), region)', r, region)
    if back is not None:
        rep.same(back, c, 'inverse', 'to_country_number(to_regional_number(v)) vs compact(v)')


def chk_ievat_convert(rep, v):
    vat = M('ie.vat')
    c = vat.compact(v)
    r = rep.convert(vat.convert)
    if r is None:
        return
    t = rep.target_valid(vat.validate, r, 'ie.vat.validate')
    if t is None:
        return
    old = not c[:7].isdigit()
    if not old:
        rep.same(t, c, 'identity', 'new-style number unchanged')
    elif len(c) == 8:
        rep.same(t[:7].isdigit(), True, 'target-valid', 'converted number is new style (7 digits + letter)')
        rep.same(t, '0' + c[2:7] + c[0] + c[7:], 'identity', 'digits re-arranged, check letter kept')
        rep.target_valid(M('eu.vat').validate, 'IE' + r, 'eu.vat.validate("IE"+...)')


def chk_isan_validate(rep, v, **kw):
    isan = M('isan')
    root, episode, check1, version, check2 = isan.split(v)
    payload = root + episode + version
    r = rep.convert(isan.validate)
    if r is None:
        return
    t = rep.target_valid(isan.validate, r, 'isan.validate')
    if t is None:
        return
    rep.same(isan.compact(r), payload, 'identity', 'root+episode+version')
    strip, add = kw.get('strip_check_digits', False), kw.get('add_check_digits', False)
    m3736 = M('iso7064.mod_37_36')
    c1 = m3736.calc_check_digit(root + episode)
    c2 = m3736.calc_check_digit(payload) if version else ''
    if add:
        rep.same(r, root + episode + c1 + version + c2, 'identity', 'all check characters present after add_check_digits')
    elif strip:
        rep.same(r, payload, 'identity', 'no check characters after strip_check_digits')
    if strip and not add:
        back = rep.step(isan.validate, 'inverse', 'validate(stripped, add_check_digits=True)', r, add_check_digits=True)
        if back is not None:
            full = rep.step(isan.validate, 'inverse', 'validate(v, add_check_digits=True)', v, add_check_digits=True)
            rep.same(back, full, 'inverse', 'strip then add vs add')
    if add:
        back = rep.step(isan.validate, 'inverse', 'validate(full, strip_check_digits=True)', r, strip_check_digits=True)
        if back is not None:
            rep.same(back, payload, 'inverse', 'add then strip vs payload')


def chk_isan_format(rep, v, **kw):
    isan = M('isan')
    root, episode, check1, version, check2 = isan.split(v)
    payload = root + episode + version
    r = rep.convert(isan.format)
    if r is None:
        return
    t = rep.target_valid(isan.validate, r, 'isan.validate')
    if t is None:
        return
    rep.same(isan.compact(r), payload, 'identity', 'root+episode+version')


def chk_isan_compact(rep, v, **kw):
    isan = M('isan')
    root, episode, check1, version, check2 = isan.split(v)
    r = rep.convert(isan.compact)
    if r is None:
        return
    t = rep.target_valid(isan.validate, r, 'isan.validate')
    if t is None:
        return
    if kw.get('strip_check_digits', True):
        rep.same(r, root + episode + version, 'identity', 'root+episode+version')
    else:
        rep.same(r, isan.validate(v), 'identity', 'compact(strip_check_digits=False) vs validate')


def chk_isan_to_binary(rep, v):
    isan = M('isan')
    r = rep.convert(isan.to_binary)
    if r is None:
        return
    rep.same(''.join('%02X' % b for b in bytearray(r)), isan.compact(v), 'identity', 'hex of to_binary(v) vs compact(v)')


def chk_isan_to_xml(rep, v):
    isan = M('isan')
    root, episode, check1, version, check2 = isan.split(v)
    r = rep.convert(isan.to_xml)
    if r is None:
        return
    m = re.match(r'^<ISAN root="([^"]*)" episode="([^"]*)" version="([^"]*)" />$', r)
    rep.tick('identity')
    if not m:
        rep.bad('to_xml gives %r' % r, '<ISAN root=.. episode=.. version=.. />', 'identity')
        return
    got = tuple(x.replace('-', '') for x in m.groups())
    rep.same(got, (root, episode, version), 'identity', 'root/episode/version attributes')
    rep.target_valid(isan.validate, ''.join(got), 'isan.validate(root+episode+version of XML)')


def chk_isan_to_urn(rep, v):
    isan = M('isan')
    r = rep.convert(isan.to_urn)
    if r is None:
        return
    rep.same(r.startswith('URN:ISAN:'), True, 'identity', 'URN prefix')
    t = rep.target_valid(isan.validate, r[9:], 'isan.validate(URN body)')
    if t is not None:
        rep.same(isan.compact(t), isan.compact(v), 'identity', 'root+episode+version')
        full = rep.step(isan.validate, 'identity', 'validate(v, add_check_digits=True)', v, add_check_digits=True)
        rep.same(t, full, 'identity', 'URN carries all check characters')


def chk_mac_to_eui48(rep, v):
    mac = M('mac')
    r = rep.convert(mac.to_eui48)
    if r is None:
        return
    t = rep.target_valid(mac.validate, r, 'mac.validate')
    if t is not None:
        rep.same(t, mac.validate(v), 'identity', 'same address')
        rep.same(bool(re.match(r'^([0-9A-F]{2}-){5}[0-9A-F]{2}$', r)), True, 'target-valid', 'EUI-48 presentation')


def _chk_to_bic(rep, src, v):
    r = rep.convert(src.to_bic)
    if r is None:      # bank without a BIC is documented (returns None)
        return
    rep.target_valid(M('bic').validate, r, 'bic.validate')
    canon = rep.step(src.to_bic, 'identity', 'to_bic(canonical)', src.validate(v))
    rep.same(r, canon, 'identity', 'BIC of presentation vs BIC of canonical number')


def chk_beiban_to_bic(rep, v):
    _chk_to_bic(rep, M('be.iban'), v)


def chk_czbank_to_bic(rep, v):
    _chk_to_bic(rep, M('cz.bankaccount'), v)


CHECKS = {
    ('stdnum.isbn', 'to_isbn13'): chk_isbn_to13,
    ('stdnum.isbn', 'to_isbn10'): chk_isbn_to10,
    ('stdnum.isbn', 'compact'): chk_isbn_convert_flag,
    ('stdnum.isbn', 'validate'): chk_isbn_convert_flag,
    ('stdnum.isbn', 'format'): chk_isbn_convert_flag,
    ('stdnum.isbn', 'split'): chk_isbn_convert_flag,
    ('stdnum.ismn', 'to_ismn13'): chk_ismn_to13,
    ('stdnum.issn', 'to_ean'): chk_issn_to_ean,
    ('stdnum.cusip', 'to_isin'): chk_cusip_to_isin,
    ('stdnum.gb.sedol', 'to_isin'): chk_sedol_to_isin,
    ('stdnum.de.wkn', 'to_isin'): chk_wkn_to_isin,
    ('stdnum.isin', 'from_natid'): chk_isin_from_natid,
    ('stdnum.es.ccc', 'to_iban'): chk_ccc_to_iban,
    ('stdnum.no.kontonr', 'to_iban'): chk_kontonr_to_iban,
    ('stdnum.es.iban', 'to_ccc'): chk_iban_to_ccc,
    ('stdnum.no.iban', 'to_kontonr'): chk_iban_to_kontonr,
    ('stdnum.au.acn', 'to_abn'): chk_acn_to_abn,
    ('stdnum.fr.siret', 'to_siren'): chk_siret_to_siren,
    ('stdnum.fr.siret', 'to_tva'): chk_siret_to_tva,
    ('stdnum.fr.siren', 'to_tva'): chk_siren_to_tva,
    ('stdnum.pe.cui', 'to_ruc'): chk_cui_to_ruc,
    ('stdnum.pe.ruc', 'to_dni'): chk_ruc_to_dni,
    ('stdnum.in_.gstin', 'to_pan'): chk_gstin_to_pan,
    ('stdnum.it.aic', 'to_base32'): chk_aic_to_base32,
    ('stdnum.it.aic', 'from_base32'): chk_aic_from_base32,
    ('stdnum.meid', 'format'): chk_meid_format,
    ('stdnum.meid', 'to_binary'): chk_meid_to_binary,
    ('stdnum.meid', 'to_pseudo_esn'): chk_meid_to_pesn,
    ('stdnum.imei', 'format'): chk_imei_format,
    ('stdnum.de.stnr', 'to_country_number'): chk_stnr_to_country,
    ('stdnum.de.stnr', 'to_regional_number'): chk_stnr_to_regional,
    ('stdnum.ie.vat', 'convert'): chk_ievat_convert,
    ('stdnum.isan', 'validate'): chk_isan_validate,
    ('stdnum.isan', 'format'): chk_isan_format,
    ('stdnum.isan', 'compact'): chk_isan_compact,
    ('stdnum.isan', 'to_binary'): chk_isan_to_binary,
    ('stdnum.isan', 'to_xml'): chk_isan_to_xml,
    ('stdnum.isan', 'to_urn'): chk_isan_to_urn,
    ('stdnum.mac', 'to_eui48'): chk_mac_to_eui48,
    ('stdnum.be.iban', 'to_bic'): chk_beiban_to_bic,
    ('stdnum.cz.bankaccount', 'to_bic'): chk_czbank_to_bic,
}


# ----------------------------------------------------------------------------- synthesis of valid sources

def rs(rng, alphabet, n):
    return ''.join(rng.choice(alphabet) for _ in range(n))


def ean_check(s):
    return str((10 - sum((3, 1)[i % 2] * int(n) for i, n in enumerate(reversed(s)))) % 10)


def brute_last(validate, body, alphabet):
    """all single characters that make body+ch valid"""
    return [body + ch for ch in alphabet if E.call(validate, body + ch).kind == 'ok']


def interesting_digits(rng, n):
    """digit strings of length n biased towards leading zeros / extremes"""
    k = rng.randrange(6)
    if k == 0:
        return '0' * rng.randrange(1, n + 1) + rs(rng, DIGITS, n)[:n - 1] if n > 1 else '0'
    if k == 1:
        z = rng.randrange(1, n)
        return ('0' * z + rs(rng, DIGITS, n - z))[:n]
    if k == 2:
        return rng.choice(['0' * n, '9' * n, '0' * (n - 1) + '1'])
    return rs(rng, DIGITS, n)


def fixlen(s, n):
    return (s + '0' * n)[:n]


def synth(rng, name, n):
    """n synthesised candidate numbers for source `name` (validated by the caller)"""
    out = []
    for _ in range(n):
        if name == 'isbn10':
            b = fixlen(interesting_digits(rng, 9), 9)
            ck = sum((i + 1) * int(d) for i, d in enumerate(b)) % 11
            v = b + ('X' if ck == 10 else str(ck))
            if v[0] == '0' and rng.random() < 0.2:
                v = v[1:]          # 9-digit SBN
            out.append(v)
        elif name == 'isbn13':
            b = rng.choice(['978', '978', '979']) + fixlen(interesting_digits(rng, 9), 9)
            out.append(b + ean_check(b))
        elif name == 'ismn10':
            b = fixlen(interesting_digits(rng, 8), 8)
            out.append('M' + b + ean_check('9790' + b))
        elif name == 'ismn13':
            b = '9790' + fixlen(interesting_digits(rng, 8), 8)
            out.append(b + ean_check(b))
        elif name == 'issn':
            b = fixlen(interesting_digits(rng, 7), 7)
            out.append(b + M('issn').calc_check_digit(b))
        elif name == 'cusip':
            alpha = rng.choice([DIGITS, DIGITS + UPPER, DIGITS + UPPER + '*@#', '*@#' + DIGITS])
            b = rs(rng, alpha, 8)
            out.append(b + M('cusip').calc_check_digit(b))
        elif name == 'sedol':
            cons = 'BCDFGHJKLMNPQRSTVWXYZ'
            b = rs(rng, DIGITS, 6) if rng.random() < 0.4 else rng.choice(cons) + rs(rng, DIGITS + cons, 5)
            out.append(b + M('gb.sedol').calc_check_digit(b))
        elif name == 'wkn':
            out.append(rs(rng, rng.choice([DIGITS, '0123456789ABCDEFGHJKLMNPQRSTUVWXYZ']), 6))
        elif name == 'ccc':
            bank, acct = fixlen(interesting_digits(rng, 8), 8), fixlen(interesting_digits(rng, 10), 10)
            out.append(bank + M('es.ccc').calc_check_digits(bank + '00' + acct) + acct)
        elif name == 'kontonr11':
            b = fixlen(interesting_digits(rng, 10), 10)
            if b.startswith('0000'):
                b = '1' + b[1:]
            out.extend(brute_last(M('no.kontonr').validate, b, DIGITS)[:1])
        elif name == 'kontonr7':
            b = fixlen(interesting_digits(rng, 6), 6)
            v = b + M('luhn').calc_check_digit(b)
            out.append(v if rng.random() < 0.5 else '0000' + v)
        elif name == 'acn':
            out.extend(brute_last(M('au.acn').validate, fixlen(interesting_digits(rng, 8), 8), DIGITS)[:1])
        elif name == 'siren':
            b = fixlen(interesting_digits(rng, 8), 8)
            out.append(b + M('luhn').calc_check_digit(b))
        elif name == 'siret':
            if rng.random() < 0.15:
                b = '356000000' + rs(rng, DIGITS, 4)
                out.extend(brute_last(M('fr.siret').validate, b, DIGITS)[:2])
            else:
                b = fixlen(interesting_digits(rng, 8), 8)
                b = b + M('luhn').calc_check_digit(b) + rs(rng, DIGITS, 4)
                out.append(b + M('luhn').calc_check_digit(b))
        elif name == 'cui':
            b = fixlen(interesting_digits(rng, 8), 8)
            k = rng.randrange(3)
            out.append(b if k == 0 else b + M('pe.cui').calc_check_digits(b)[k - 1])
        elif name == 'ruc':
            b = rng.choice(['10', '10', '15', '17', '20']) + fixlen(interesting_digits(rng, 8), 8)
            out.extend(brute_last(M('pe.ruc').validate, b, DIGITS)[:1])
        elif name == 'gstin':
            state = rng.choice(sorted(M('in_.gstin')._STATE_CODES))
            pan = rs(rng, UPPER, 3) + rng.choice('ABCFGHLJPTK') + rng.choice(UPPER) + '%04d' % rng.randrange(1, 10000) + rng.choice(UPPER)
            b = state + pan + rng.choice('123456789' + UPPER) + 'Z'
            out.append(b + M('luhn').calc_check_digit(b, DIGITS + UPPER))
        elif name == 'aic10':
            b = '0' + fixlen(interesting_digits(rng, 7), 7)
            out.append(b + M('it.aic').calc_check_digit(b))
        elif name == 'aic32':
            b = '0' + fixlen(interesting_digits(rng, 7), 7)
            out.append(M('it.aic').to_base32(b + M('it.aic').calc_check_digit(b)))
        elif name == 'meid':
            k = rng.randrange(5)
            luhn = M('luhn')
            if k == 0:      # hex with a letter
                b = rng.choice('AF9') + rs(rng, HEX, 13)
                if b.isdigit():
                    b = 'A' + b[1:]
                out.append(b if rng.random() < 0.5 else b + luhn.calc_check_digit(b, HEX))
            elif k == 1:    # all-decimal hex (IMEI)
                b = rs(rng, DIGITS, 14)
                out.append(b if rng.random() < 0.5 else b + luhn.calc_check_digit(b))
            elif k == 2:    # decimal form
                b = '%010d%08d' % (rng.randrange(2 ** 32), rng.randrange(2 ** 24))
                out.append(b if rng.random() < 0.5 else b + luhn.calc_check_digit(b))
            elif k == 3:    # decimal extremes
                b = '%010d%08d' % (rng.choice([0, 1, 2 ** 32 - 1, 0xA0000000, 9, 99]), rng.choice([0, 1, 2 ** 24 - 1, 10]))
                out.append(b if rng.random() < 0.5 else b + luhn.calc_check_digit(b))
            else:           # hex extremes
                b = rng.choice(['FFFFFFFF', 'A0000000', '0000000A', '99000000', 'F0000001']) + rng.choice(['FFFFFF', '000000', '00000A', '123456'])
                out.append(b if rng.random() < 0.5 else b + M('meid').calc_check_digit(b))
        elif name == 'imei':
            b = rs(rng, DIGITS, 14)
            k = rng.randrange(3)
            out.append(b if k == 0 else b + M('luhn').calc_check_digit(b) if k == 1 else b + rs(rng, DIGITS, 2))
        elif name == 'stnr':
            fmts = {
                'Baden-Württemberg': ['FFBBBUUUUP', '28FF0BBBUUUUP'], 'Bayern': ['FFFBBBUUUUP', '9FFF0BBBUUUUP'],
                'Berlin': ['FFBBBUUUUP', '11FF0BBBUUUUP'], 'Brandenburg': ['0FFBBBUUUUP', '30FF0BBBUUUUP'],
                'Bremen': ['FFBBBUUUUP', '24FF0BBBUUUUP'], 'Hamburg': ['FFBBBUUUUP', '22FF0BBBUUUUP'],
                'Hessen': ['0FFBBBUUUUP', '26FF0BBBUUUUP'], 'Mecklenburg-Vorpommern': ['0FFBBBUUUUP', '40FF0BBBUUUUP'],
                'Niedersachsen': ['FFBBBUUUUP', '23FF0BBBUUUUP'], 'Nordrhein-Westfalen': ['FFFBBBBUUUP', '5FFF0BBBBUUUP'],
                'Rheinland-Pfalz': ['FFBBBUUUUP', '27FF0BBBUUUUP'], 'Saarland': ['0FFBBBUUUUP', '10FF0BBBUUUUP'],
                'Sachsen': ['2FFBBBUUUUP', '32FF0BBBUUUUP'], 'Sachsen-Anhalt': ['1FFBBBUUUUP', '31FF0BBBUUUUP'],
                'Schleswig-Holstein': ['FFBBBUUUUP', '21FF0BBBUUUUP'], 'Thüringen': ['1FFBBBUUUUP', '41FF0BBBUUUUP']}
            region = rng.choice(sorted(fmts))
            fmt = rng.choice(fmts[region])
            zero = rng.random() < 0.2
            out.append(''.join(('0' if zero and ch == 'F' else rng.choice(DIGITS)) if ch in 'FBUP' else ch for ch in fmt))
        elif name == 'ievat':
            vat = M('ie.vat')
            k = rng.randrange(4)
            if k == 0:      # old style 8
                b = rng.choice(DIGITS) + rng.choice(UPPER + '+*') + fixlen(interesting_digits(rng, 5), 5)
                out.extend(brute_last(vat.validate, b, vat._alphabet)[:1])
            elif k == 1:    # old style 9 (second letter ignored)
                b = rng.choice(DIGITS) + rng.choice(UPPER + '+*') + rs(rng, DIGITS, 5)
                out.extend(x + rng.choice(vat._alphabet) for x in brute_last(vat.validate, b, vat._alphabet)[:1])
            elif k == 2:    # new style 8
                b = fixlen(interesting_digits(rng, 7), 7)
                out.append(b + vat.calc_check_digit(b))
            else:           # new style 9
                b, x = rs(rng, DIGITS, 7), rng.choice(vat._alphabet)
                out.append(b + vat.calc_check_digit(b + x) + x)
        elif name == 'isan':
            m = M('iso7064.mod_37_36')
            root = rng.choice([rs(rng, HEX, 16), '0000' + rs(rng, HEX, 12), rs(rng, DIGITS, 16)])
            ver = rs(rng, HEX, 8)
            k = rng.randrange(5)
            c1, c2 = m.calc_check_digit(root), m.calc_check_digit(root + ver)
            out.append([root, root + c1, root + ver, root + c1 + ver + c2, root + ver + c2][k])
        elif name == 'mac':
            b = [rs(rng, HEX, 2) for _ in range(6)]
            out.append(rng.choice([':', '-']).join(x if rng.random() < 0.5 else x.lower() for x in b))
        elif name == 'beiban':
            bank = '%03d' % rng.randrange(1000)
            acct = bank + rs(rng, DIGITS, 7)
            acct += '%02d' % ((int(acct) % 97) or 97)
            out.append('BE' + M('iban').calc_check_digits('BE00' + acct) + acct)
    return out


SYNTH_SOURCES = {
    'stdnum.isbn': ['isbn10', 'isbn13'], 'stdnum.ismn': ['ismn10', 'ismn13'], 'stdnum.issn': ['issn'],
    'stdnum.cusip': ['cusip'], 'stdnum.gb.sedol': ['sedol'], 'stdnum.de.wkn': ['wkn'], 'stdnum.es.ccc': ['ccc'],
    'stdnum.no.kontonr': ['kontonr11', 'kontonr7'], 'stdnum.au.acn': ['acn'], 'stdnum.fr.siren': ['siren'],
    'stdnum.fr.siret': ['siret'], 'stdnum.pe.cui': ['cui'], 'stdnum.pe.ruc': ['ruc'], 'stdnum.in_.gstin': ['gstin'],
    'stdnum.it.aic': ['aic10', 'aic32'], 'stdnum.meid': ['meid'], 'stdnum.imei': ['imei'], 'stdnum.de.stnr': ['stnr'],
    'stdnum.ie.vat': ['ievat'], 'stdnum.isan': ['isan'], 'stdnum.mac': ['mac'], 'stdnum.be.iban': ['beiban'],
    'stdnum.cz.bankaccount': [], 'stdnum.es.iban': [], 'stdnum.no.iban': [],
}


def presentations(rng, mod, raw):
    """[(label, string)] presentations of the valid number `raw` that validate() maps to the same canonical value"""
    canon = E.call(mod.validate, raw)
    if canon.kind != 'ok':
        return []
    try:
        c = mod.compact(raw)
    except Exception:   # noqa: B902
        return []
    cands = [('as-given', raw), ('compact', c), ('canonical', canon.value if isinstance(canon.value, str) else c)]
    nat = None
    if hasattr(mod, 'format'):
        f = E.call(mod.format, raw)
        if f.kind == 'ok' and isinstance(f.value, str):
            cands.append(('format', f.value))
            nat = f.value
    body = c
    for sep, lab in ((' ', 'space'), ('-', 'hyphen')):
        if nat is not None and re.search(r'[ \-./:,]', nat):
            cands.append((lab + '-natural', re.sub(r'[ \-./:,]+', sep, nat)))
        cands.append((lab + '-group4', sep.join(body[i:i + 4] for i in range(0, len(body), 4))))
        if len(body) > 2:
            s = body
            for pos in sorted(rng.sample(range(1, len(body)), min(rng.randrange(1, 4), len(body) - 1)), reverse=True):
                s = s[:pos] + sep + s[pos:]
            cands.append((lab + '-random', s))
    cands.append(('lower', c.lower()))
    out, seen = [], set()
    for lab, s in cands:
        if s in seen:
            continue
        seen.add(s)
        o = E.call(mod.validate, s)
        if o.kind == 'ok' and o.value == canon.value:
            out.append((lab, s))
    return out


def option_sets(rng, module, function, v):
    """conversion argument/option combinations for one source presentation"""
    if (module, function) == ('stdnum.issn', 'to_ean'):
        return [((v,), {})] + [((v,), {'issue_code': c}) for c in ('00', '01', '99', '%02d' % rng.randrange(100))]
    if module == 'stdnum.isbn' and function in ('compact', 'validate', 'format', 'split'):
        return [((v,), {'convert': True})]
    if (module, function) == ('stdnum.meid', 'format'):
        res = []
        for fmt in (None, 'hex', 'dec'):
            for add, sep in ((False, ' '), (True, '-'), (True, '')):
                kw = {}
                if fmt:
                    kw['format'] = fmt
                if add:
                    kw['add_check_digit'] = True
                if sep != ' ':
                    kw['separator'] = sep
                res.append(((v,), kw))
        return res
    if (module, function) == ('stdnum.imei', 'format'):
        return [((v,), {}), ((v,), {'add_check_digit': True}), ((v,), {'add_check_digit': True, 'separator': ' '}),
                ((v,), {'separator': ''})]
    if (module, function) == ('stdnum.de.stnr', 'to_country_number'):
        stnr = M('de.stnr')
        regs = [r for r in stnr.guess_regions(v) if _stnr_is_regional(stnr.compact(v), r)]
        res = [((v,), {})]
        for r in regs:
            res.append(((v,), {'region': r}))
            res.append(((v, r.lower()), {}))
        return res
    if (module, function) == ('stdnum.isan', 'validate'):
        return [((v,), dict((k, True) for k in ks)) for ks in ((), ('strip_check_digits',), ('add_check_digits',),
                                                               ('strip_check_digits', 'add_check_digits'))]
    if (module, function) == ('stdnum.isan', 'format'):
        res = []
        for strip in (False, True):
            for add in (True, False):
                for sep in ('-', ' ', ''):
                    kw = {}
                    if strip:
                        kw['strip_check_digits'] = True
                    if not add:
                        kw['add_check_digits'] = False
                    if sep != '-':
                        kw['separator'] = sep
                    res.append(((v,), kw))
        return res
    if (module, function) == ('stdnum.isan', 'compact'):
        return [((v,), {}), ((v,), {'strip_check_digits': False})]
    return [((v,), {})]


def source_filter(module, function, mod, v):
    """is v (valid for module) in the domain of this conversion?"""
    c = mod.compact(v)
    if (module, function) == ('stdnum.de.stnr', 'to_country_number'):
        return len(c) in (10, 11)
    if (module, function) == ('stdnum.de.stnr', 'to_regional_number'):
        return len(c) == 13
    if (module, function) == ('stdnum.it.aic', 'to_base32'):
        return len(c) == 9
    if (module, function) == ('stdnum.it.aic', 'from_base32'):
        return len(c) == 6
    return True


NATID = {'stdnum.cusip': 'US', 'stdnum.gb.sedol': 'GB', 'stdnum.de.wkn': 'DE'}


def _worker(task):
    seed, tier, module, idx, nsynth = task
    rng = random.Random('%s/%s/%s' % (seed, module, idx))
    col = E.Collector()
    mod = common.module(module)
    raws = []
    if idx == 0:
        raws.extend(common.valid_numbers(module))
        if module == 'stdnum.es.iban':
            raws.extend(M('es.ccc').to_iban(x) for x in synth(rng, 'ccc', nsynth))
        if module == 'stdnum.no.iban':
            raws.extend(M('no.kontonr').to_iban(x) for x in synth(rng, 'kontonr11', nsynth))
    for name in SYNTH_SOURCES.get(module, []):
        raws.extend(synth(rng, name, nsynth))
    functions = [f for (m, f) in CHECKS if m == module]
    for raw in raws:
        pres = presentations(rng, mod, raw)
        if not pres:
            col.count('source-rejected:' + module)
            continue
        canon = mod.validate(raw)
        for lab, v in pres:
            col.count('presentation:' + lab)
            for function in functions:
                if not source_filter(module, function, mod, v):
                    continue
                for args, kwargs in option_sets(rng, module, function, v):
                    col.nontriv('%s.%s|%s|%s' % (module, function, canon, sorted(kwargs.items())))
                    rep = Rep(col, module, function, list(args), kwargs, gen=lab)
                    CHECKS[(module, function)](rep, *args, **kwargs)
                    if len(col.samples) < 2 and not rep.found:
                        col.sample({'module': module, 'function': function, 'args': [repr(a) for a in args],
                                    'kwargs': kwargs, 'presentation': lab, 'result': 'all relations hold'})
            if module in NATID and lab in ('compact', 'as-given', 'lower'):
                for cc in (NATID[module], NATID[module].lower()):
                    col.nontriv('stdnum.isin.from_natid|%s|%s' % (cc, canon))
                    rep = Rep(col, 'stdnum.isin', 'from_natid', [cc, v], {}, gen=lab)
                    chk_isin_from_natid(rep, cc, v)
    return col.dump()


def search(seed, tier):
    nsynth, chunks = (50, 4) if tier == 'quick' else (250, 8)
    modules = sorted(set(m for m, f in CHECKS if m != 'stdnum.isin'))
    tasks = [(seed, tier, m, i, nsynth) for m in modules for i in range(chunks if SYNTH_SOURCES.get(m) else 1)]
    col = E.Collector()
    for d in E.pmap(_worker, tasks):
        col.merge(d)
    return col.result(RULE)


def replay(case):
    key = (case['module'], case['function'])
    if key not in CHECKS:
        return None
    args, kwargs = E.case_args(case)
    rep = Rep(None, case['module'], case['function'], args, kwargs, gen=case.get('generator', ''))
    rep.tick = lambda relation: None
    CHECKS[key](rep, *args, **kwargs)
    same = [c for c in rep.found if c['relation'] == case.get('relation') and c['site'] == case.get('site')]
    found = same or [c for c in rep.found if c['relation'] == case.get('relation')] or rep.found
    return found[0] if found else None


if __name__ == '__main__':
    E.main(sys.modules[__name__])
