#!/venv/bin/python
"""Failing-input search for property C18 — "The online check application answers every query safely".

Runs ONLY the real code: online_check/stdnum.wsgi is imported in-process and `application(environ,
start_response)` is called with generated environments.  Per request the predicate demands

  * no exception (a WSGI server turns an exception into a 500 response), status '200 OK';
  * AJAX mode: the body parses as JSON and lists exactly the modules (in discovery order) for which the
    real `is_valid(number)` is true — computed here independently by iterating `get_number_modules()`;
  * HTML mode: the body equals `template % {value: html.escape(number, True), results: ...}` with the
    results computed by an independent re-implementation (own enumeration of the to_*/get_* functions,
    own item markup), and a raw markup marker contained in the number never occurs in the body;
  * sequences: all requests of a worker are served by one process (the `_template` global persists);
    for a sample of requests the answer is compared with the answer after resetting `_template`
    (= what a fresh process would say).

`number` is obtained from the query string with urllib.parse.parse_qs on both sides (the parser is not
under test).  Query strings are WSGI "native strings" (code points <= U+00FF); arbitrary Unicode enters
percent-encoded.

Root causes are labelled by a STABLE `site` (innermost frame inside /repo/stdnum: `file:function:source line`);
one case per site is reported, with the shortest query that exposed it.  When the application fails, every module
whose is_valid()/format()/compact() raises on that number is reported as its own root cause (the application
stops at the first).  Conversions of any type are expected to be shown as html.escape(str(value)) (upstream
commit 6b1a6e2).
"""
import html
import importlib.machinery
import inspect
import json
import multiprocessing
import os
import random
import re
import sys
import traceback
import urllib.parse

sys.path.insert(0, os.path.dirname(os.path.dirname(os.path.abspath(__file__))))   # tools/
import common  # noqa: E402

PROPERTY = 'C18'
MARKER = '<x9q">\'&'
WSGI_PATH = os.path.join(common.REPO, 'online_check', 'stdnum.wsgi')
TEMPLATE_PATH = os.path.join(common.REPO, 'online_check', 'template.html')
DOCROOT = common.REPO
SCRIPT_NAME = '/online_check/stdnum.wsgi'

RULE = (
    'queries: number=<valid corpus number of every module> (systematic), mutated/decorated valid numbers, '
    'markup and the marker <x9q">\'&, percent-encoded random Unicode (BMP, astral, controls), invalid UTF-8 '
    'percent sequences, raw latin-1, repeated/absent/empty number=, other parameters, "+"/";" syntax, '
    'very long values; each in HTML and AJAX mode; all requests of a worker go through one process. '
    'non-trivial = the number is accepted by at least one module (info/format/conversions run) or '
    'contains one of < > & " \' (escaping matters)')

_W = None
_MODS = None


def wsgi():
    """the application module (imported once per process; it rebinds sys.stdout on import)"""
    global _W
    if _W is None:
        so = sys.stdout
        try:
            _W = importlib.machinery.SourceFileLoader('stdnum_wsgi', WSGI_PATH).load_module()
        finally:
            sys.stdout = so
    return _W


def modules():
    """number modules in the order the application iterates them"""
    global _MODS
    if _MODS is None:
        # discovered by our own package walk (pkgutil order = the application's order): the reference must not
        # depend on stdnum.util.get_number_modules, which the application itself uses (code under test)
        import pkgutil
        import importlib
        import stdnum
        _MODS = []
        for _l, name, _p in pkgutil.walk_packages(stdnum.__path__, 'stdnum.'):
            try:
                m = importlib.import_module(name)
            except Exception:
                continue
            if hasattr(m, 'validate') and m.__name__ == name:
                _MODS.append(m)
    return _MODS


# ----------------------------------------------------------------------------- independent reference

def eligible_functions(mod):
    """own enumeration of the conversion functions the page shows (does not call stdnum.wsgi)"""
    out = []
    for name in sorted(vars(mod)):
        f = vars(mod)[name]
        if not inspect.isfunction(f) or not (name.startswith('to_') or name.startswith('get_')):
            continue
        if name.endswith('binary'):
            continue
        required = [p.name for p in inspect.signature(f).parameters.values() if p.default is p.empty]
        if required == ['number']:
            out.append((name, f))
    return out


def process_description(description):
    description = html.escape(description).replace('\n\n', '<br/>\n')
    description = re.sub(r'^[*] (.*)$', r'<ul><li>\1</li></ul>', description, flags=re.MULTILINE)
    description = re.sub(r'\b((https?|ftp)://[^\s<]*[-\w+&@#/%=~_|])', r'<a href="\1">\1</a>',
                         description, flags=re.IGNORECASE + re.UNICODE)
    return description


def site_of(exc):
    """STABLE root-cause label: innermost frame inside /repo/stdnum (else inside the repository, else the innermost
    frame) as `<relative file>:<function>:<stripped source line>` — independent of the input that triggered it"""
    frames = traceback.extract_tb(exc.__traceback__)
    for root in (os.path.join(common.REPO, 'stdnum') + os.sep, common.REPO + os.sep):
        for fr in reversed(frames):
            if fr.filename.startswith(root):
                return '%s:%s:%s' % (os.path.relpath(fr.filename, common.REPO), fr.name, (fr.line or '').strip())
    fr = frames[-1]
    return '%s:%s:%s' % (os.path.basename(fr.filename), fr.name, (fr.line or '').strip())


def reference(query):
    """Independent evaluation of what the page must show.
    -> (number, accepted modules, module_errors, expected items | None)
    module_errors = [(site, text)]: every module whose is_valid()/format()/compact() raises on this number — each of
    them makes the application fail (the application stops at the first one; all are root causes)."""
    from stdnum.util import get_module_description, get_module_name
    params = urllib.parse.parse_qs(query)
    if 'number' not in params:
        return '', [], [], []
    number = params['number'][0]
    accepted, errors = [], []
    for m in modules():
        try:
            if m.is_valid(number):
                accepted.append(m)
        except Exception as e:   # noqa: B902
            errors.append((site_of(e), '%s.is_valid raises %s: %s' % (m.__name__, type(e).__name__, str(e)[:60])))
    items = []
    for m in accepted:
        compactfn = getattr(m, 'compact', lambda x: x)
        formatfn = getattr(m, 'format', compactfn)
        lines = []
        for fname, f in eligible_functions(m):
            try:
                v = f(number)
            except Exception:   # noqa: B902 (the page skips conversions that fail)
                continue
            prop = fname.split('_', 1)[1].replace('_', ' ')
            if hasattr(v, 'strftime'):
                v = v.strftime('%Y-%m-%d')
            elif isinstance(v, str) and v == number:
                continue
            lines.append((prop, str(v)))      # the page shows str(value), whatever its type
        try:
            shown = formatfn(number)
            compactfn(number)
        except Exception as e:   # noqa: B902
            errors.append((site_of(e), '%s.format/compact raises %s on a number it accepts: %s' % (m.__name__, type(e).__name__, str(e)[:60])))
            items = None
            continue
        if not isinstance(shown, str):
            errors.append(('%s:format:returns %s' % (os.path.relpath(m.__file__, common.REPO), type(shown).__name__),
                           '%s.format returns a %s' % (m.__name__, type(shown).__name__)))
            items = None
            continue
        if items is not None:
            d = process_description(get_module_description(m))
            for prop, v in dict(lines).items():
                d += '\n<br/><b><i>%s</i></b>: %s' % (html.escape(prop), html.escape(v))
            items.append('<li>%s: <b>%s</b><p>%s</p></li>' % (html.escape(shown), html.escape(get_module_name(m)), d))
    return number, accepted, errors, items


_TEMPLATE = None


def template():
    global _TEMPLATE
    if _TEMPLATE is None:
        _TEMPLATE = open(TEMPLATE_PATH, 'rb').read().decode('utf-8')
    return _TEMPLATE


def call(query, ajax):
    env = {'DOCUMENT_ROOT': DOCROOT, 'SCRIPT_NAME': SCRIPT_NAME, 'QUERY_STRING': query}
    if ajax:
        env['HTTP_X_REQUESTED_WITH'] = 'XMLHttpRequest'
    st = {}
    body = wsgi().application(env, lambda s, h: st.update(status=s, headers=h))
    return st.get('status'), dict(st.get('headers') or []), b''.join(body)


_last_accepted = None   # number of accepting modules seen by the last evaluate() (None: nothing could be computed)


def evaluate(query, ajax):
    """None if the request satisfies the predicate, else a list of violation dicts
    {observed, expected, site, relation}"""
    global _last_accepted
    number, accepted, errors, items = reference(query)
    _last_accepted = None if errors else len(accepted)
    try:
        status, headers, body = call(query, ajax)
    except Exception as e:   # noqa: B902
        observed = 'raises %s: %s' % (type(e).__name__, str(e)[:80])
        if errors:
            # one case per root cause (the application stopped at the first of them)
            seen, out = set(), []
            for site, text in errors:
                if site not in seen:
                    seen.add(site)
                    out.append({'observed': 'raises %s (%s)' % (type(e).__name__, text), 'expected': 'status 200',
                                'relation': 'no server error', 'site': site})
            return out
        return [{'observed': observed, 'expected': 'status 200', 'relation': 'no server error', 'site': site_of(e)}]
    if errors:
        return [{'observed': 'answered although %s' % errors[0][1], 'expected': 'consistent behaviour', 'relation': 'reference',
                 'site': errors[0][0]}]
    out = []
    if status != '200 OK':
        out.append({'observed': 'status %r' % (status,), 'expected': "'200 OK'", 'relation': 'status', 'site': 'online_check/stdnum.wsgi:application:status'})
    names = [m.__name__.split('.', 1)[1] for m in accepted]
    if ajax:
        if headers.get('Content-Type') != 'application/json':
            out.append({'observed': 'Content-Type %r' % headers.get('Content-Type'), 'expected': 'application/json',
                        'relation': 'headers', 'site': 'online_check/stdnum.wsgi:application:headers'})
        try:
            doc = json.loads(body.decode('utf-8'))
        except ValueError as e:
            return out + [{'observed': 'body is not JSON (%s)' % e, 'expected': 'parseable JSON', 'relation': 'json parses',
                           'site': 'online_check/stdnum.wsgi:application:json.dumps'}]
        got = [d.get('module') for d in doc] if isinstance(doc, list) else None
        if got != names or not all(d.get('valid') is True for d in doc):
            out.append({'observed': 'lists %r' % (got,), 'expected': 'lists %r' % (names,), 'relation': 'json lists accepted modules',
                        'site': 'online_check/stdnum.wsgi:application:results'})
    else:
        if headers.get('Content-Type') != 'text/html; charset=utf-8':
            out.append({'observed': 'Content-Type %r' % headers.get('Content-Type'), 'expected': 'text/html; charset=utf-8',
                        'relation': 'headers', 'site': 'online_check/stdnum.wsgi:application:headers'})
        text = body.decode('utf-8')
        if MARKER in number and MARKER in text:
            out.append({'observed': 'raw marker in page', 'expected': 'escaped only', 'relation': 'escaped',
                        'site': 'online_check/stdnum.wsgi:application:html.escape'})
        if items is not None:
            expected = template() % dict(value=html.escape(number, True), results='\n'.join(items))
            if text != expected:
                k = next((i for i, (a, b) in enumerate(zip(text, expected)) if a != b), min(len(text), len(expected)))
                out.append({'observed': 'page differs at offset %d: %r' % (k, text[k:k + 60]),
                            'expected': '%r' % (expected[k:k + 60],), 'relation': 'page = template % escaped fields',
                            'site': 'online_check/stdnum.wsgi:application:page'})
    return out or None


# ----------------------------------------------------------------------------- generation

def q(s):
    return urllib.parse.quote(s, safe='', errors='replace')


def gen_queries(rng, tier):
    """[(generator label, query string)] — deterministic for the seed"""
    corpus = common.corpus()
    out = []
    per_mod = 8 if tier == 'quick' else 60
    mods = sorted(corpus)
    for name in mods:
        valid = corpus[name]['valid']
        picks = valid if len(valid) <= per_mod else rng.sample(valid, per_mod)
        # the synthesised edge numbers (ends of range tables, longest / letter-richest shapes) are always sent:
        # a page that fails to render shows on such numbers, not on the documentation samples
        picks = list(picks) + [v for v in corpus[name].get('boundary', [])[:12] + corpus[name].get('extremal', [])[:6] if v not in picks]
        for v in picks:
            out.append(('valid:' + name, 'number=' + q(v)))
    n_mut = 400 if tier == 'quick' else 4500
    allvalid = [(name, v) for name in mods for v in corpus[name]['valid']]
    for _ in range(n_mut):
        name, v = rng.choice(allvalid)
        k = rng.randrange(9)
        if k == 0:
            out.append(('mutated', 'number=' + q(common.mutations(rng, v, 1)[0])))
        elif k == 1:
            out.append(('marker', 'number=' + q(rng.choice([v + MARKER, MARKER + v, MARKER, v[:3] + MARKER + v[3:]]))))
        elif k == 2:
            out.append(('repeated', 'number=%s&number=%s' % (q(v), q(rng.choice(allvalid)[1]))))
        elif k == 3:
            out.append(('other-params', rng.choice(['x=1&number=%s&y=2', 'Number=1&number=%s', 'number=%s&number', 'a=%%zz&number=%s&&=']) % q(v)))
        elif k == 4:
            out.append(('plus-semicolon', 'number=' + q(v).replace('%20', '+') + rng.choice(['', ';x=1', '+', '%2B'])))
        elif k == 5:
            out.append(('whitespace', 'number=' + q(rng.choice(common.WHITESPACE) + v + rng.choice(common.WHITESPACE))))
        elif k == 6:
            out.append(('case', 'number=' + q(rng.choice([v.lower(), v.upper(), v.swapcase()]))))
        elif k == 7:
            out.append(('hostile', 'number=' + q(v[:rng.randrange(len(v) + 1)] + rng.choice(common.HOSTILE).encode('utf-8', 'replace').decode('utf-8') + v)))
        else:
            out.append(('valid-raw', 'number=' + v.replace('%', '%25').replace('&', '%26').replace('+', '%2B').replace('#', '%23').replace(';', '%3B')
                        .encode('utf-8').decode('latin-1')))
    n_rand = 240 if tier == 'quick' else 2400
    for _ in range(n_rand):
        k = rng.randrange(10)
        if k == 0:
            s = ''.join(chr(rng.choice([rng.randrange(0x20), rng.randrange(0x20, 0x7f), rng.randrange(0x80, 0x800),
                                        rng.randrange(0x800, 0xd800), rng.randrange(0xe000, 0x10000), rng.randrange(0x10000, 0x110000)]))
                        for _ in range(rng.randint(1, 20)))
            out.append(('unicode', 'number=' + q(s)))
        elif k == 1:
            out.append(('invalid-utf8', 'number=' + ''.join(rng.choice(['%FF', '%C3', '%ED%A0%80', '%F4%90%80%80', '%80', '%C0%AF', 'a', '1', '%3C'])
                                                            for _ in range(rng.randint(1, 8)))))
        elif k == 2:
            out.append(('latin1-raw', 'number=' + ''.join(chr(rng.randrange(0x80, 0x100)) for _ in range(rng.randint(1, 8)))))
        elif k == 3:
            out.append(('markup', 'number=' + q(''.join(rng.choice(['<', '>', '&', '"', "'", '&amp;', '&lt;', '<script>', 'a', '%', '%(value)s', '%s'])
                                                        for _ in range(rng.randint(1, 12))))))
        elif k == 4:
            out.append(('absent', rng.choice(['', 'x=1', 'numbers=1', 'number', '&&', '=1', 'NUMBER=1'])))
        elif k == 5:
            out.append(('empty', rng.choice(['number=', 'number=&x=1', 'number=&number=', 'number=&number=1'])))
        elif k == 6:
            unit = rng.choice(['1', 'A', '%3C', '%E2%80%93', '9 '])
            n = rng.choice([1000, 4400, 5000, 70000] if unit in ('1', 'A') else [1000, 5000])
            out.append(('long', 'number=' + unit * n))
        elif k == 7:
            out.append(('digits', 'number=' + ''.join(rng.choice('0123456789') for _ in range(rng.randint(1, 20)))))
        elif k == 8:
            out.append(('alnum', 'number=' + ''.join(rng.choice('0123456789ABCDEFGHJKLMNPRSTUVWXYZ -./') for _ in range(rng.randint(1, 24)))))
        else:
            out.append(('percent-text', 'number=' + rng.choice(['%25', '%25%28value%29s', '100%25', '%', '%2', '%zz', '%25s%25d'])))
    return out


# ----------------------------------------------------------------------------- running

def _worker(chunk):
    """one process = one sequence of requests"""
    common.number_modules()
    res = []
    w = wsgi()
    for k, (label, query, ajax) in enumerate(chunk):
        if k % 97 == 0:
            w._template = None if k % 2 == 0 else ''     # restart / empty-cache states inside the sequence
        try:
            bad = evaluate(query, ajax)
        except Exception as e:   # noqa: B902 (harness problem: report, never hide)
            bad = [{'observed': 'harness exception %r' % (e,), 'expected': '-', 'relation': 'harness', 'site': 'harness:' + site_of(e)}]
        fresh_differs = False
        if k % 10 == 0 and not bad:
            # the same request answered by a "fresh process" (template not loaded yet)
            try:
                a = call(query, ajax)
                w._template = None
                b = call(query, ajax)
                fresh_differs = a != b
            except Exception:   # noqa: B902
                fresh_differs = True
            if fresh_differs:
                bad = [{'observed': 'answer changes after resetting _template', 'expected': 'same answer as a fresh process',
                        'relation': 'sequence', 'site': 'online_check/stdnum.wsgi:application:_template'}]
        try:
            params = urllib.parse.parse_qs(query)
            number = params['number'][0] if 'number' in params else ''
            nontrivial = bool(set(number) & set('<>&"\'')) or _last_accepted is None or _last_accepted > 0
        except Exception:   # noqa: B902
            nontrivial = True
        res.append((label, query, ajax, bad, nontrivial))
    return res


def make_case(query, ajax, v):
    return {
        'module': 'online_check.stdnum_wsgi', 'function': 'application',
        'args': [common.describe(query), common.describe(ajax)],
        'observed': v['observed'], 'expected': v['expected'], 'site': v['site'], 'relation': v['relation']}


def search(seed, tier):
    rng = random.Random(seed)
    common.corpus()          # build the cache before forking
    queries = gen_queries(rng, tier)
    work = []
    for label, query in queries:
        # valid numbers: both modes; the rest: one mode at random, marker always HTML too
        if label.startswith('valid:') or label in ('marker', 'markup'):
            work.append((label, query, False))
            work.append((label, query, True))
        else:
            work.append((label, query, rng.randrange(2) == 0))
    rng.shuffle(work)
    nproc = min(16, os.cpu_count() or 4)
    size = (len(work) + nproc - 1) // nproc
    chunks = [work[i:i + size] for i in range(0, len(work), size)]
    with multiprocessing.get_context('fork').Pool(nproc) as pool:
        results = pool.map(_worker, chunks)
    seen_sites = {}
    distribution = {'generator': {}, 'mode': {'html': 0, 'ajax': 0}, 'outcome': {'ok': 0, 'fail': 0}, 'sites': {}}
    distinct, nontrivial = set(), set()
    samples = []
    for res in results:
        for label, query, ajax, bad, nt in res:
            g = label.split(':')[0]
            distribution['generator'][g] = distribution['generator'].get(g, 0) + 1
            distribution['mode']['ajax' if ajax else 'html'] += 1
            distribution['outcome']['fail' if bad else 'ok'] += 1
            distinct.add((query, ajax))
            if nt:
                nontrivial.add((query, ajax))
            if len(samples) < 8 and (len(samples) < 4 or bad) and g not in {s['generator'] for s in samples}:
                samples.append({'generator': g, 'module': 'online_check.stdnum_wsgi', 'function': 'application',
                                'args': [common.describe(query[:200]), common.describe(ajax)],
                                'outcome': 'fails: ' + bad[0]['observed'] if bad else 'satisfies the predicate'})
            for v in bad or []:
                distribution['sites'][v['site']] = distribution['sites'].get(v['site'], 0) + 1
                old = seen_sites.get(v['site'])
                if old is None or (len(query), query, ajax) < old[0]:
                    seen_sites[v['site']] = ((len(query), query, ajax), make_case(query, ajax, v))
    failing = [c for _k, c in seen_sites.values()]     # one case per root cause: the shortest witness query
    failing.sort(key=lambda c: c['site'])
    return {
        'cases': sum(len(r) for r in results),
        'distinct_nontrivial': len(nontrivial),
        'rule': RULE,
        'failing': failing[:200],
        'samples': samples,
        'distribution': distribution,
    }


def replay(case):
    """Re-run one case on the current tree.  Needs only case['args'] (query string and, optionally, the ajax flag);
    with case['site'] present the case counts as still failing only if that root cause still shows up
    (so a known-finding entry {property, module, function, site, args} can be replayed as is)."""
    args = case.get('args') or []
    if not args:
        return case
    query = common.rebuild(args[0]) if isinstance(args[0], dict) else args[0]
    modes = [common.rebuild(args[1]) if isinstance(args[1], dict) else bool(args[1])] if len(args) > 1 else [False, True]
    first = None
    for ajax in modes:
        wsgi()._template = None
        bad = evaluate(query, ajax)
        for v in bad or []:
            c = dict(make_case(query, ajax, v), **{k: case[k] for k in ('property',) if k in case})
            if case.get('site') is None or v['site'] == case['site']:
                return c
            first = first or c
    if case.get('site') is None:
        return first
    return None


if __name__ == '__main__':
    t = sys.argv[1] if len(sys.argv) > 1 else common.tier()
    timer = common.Timer()
    r = search(common.seed(), t)
    r['failing'] = r['failing'][:50]
    r['seconds'] = timer.s()
    print(json.dumps(r, indent=1, default=str))
