#!/venv/bin/python
"""Runtime exploration for property C13 — "Results are independent of call history, ordering, aliasing
and threads".  Runs ONLY the real code.  It is also the correspondence between the claim of the model
(`Spec/State.lean`: the output of a call is a pure function of its arguments) and the implementation.

Call descriptors (module, function, args, kwargs) are built deterministically from the corpus mined from
docstrings/doctests: every public function of every number module whose only required parameter is
`number` (validate, is_valid, compact, format, info, split, get_*, to_*, guess_*, calc_*, ...; functions
that talk to the network are excluded), with a valid and an invalid sample, plus the cache helpers
`util.get_cc_module`, `iban/eu.vat/vatin._get_cc_module` (raw country codes in several spellings) and
`numdb.get` (registries whose last path component collides: be/banks, cz/banks, nz/banks).

Outcomes are canonicalised as ['ok', repr of the deep-frozen value] or ['err', exception class name].

  reference  fresh interpreters (`/venv/bin/python -c ...`).  quick: one fresh process per chunk of 50
             descriptors, two different shuffled chunkings, which must agree with each other; thorough:
             additionally one fresh process per call for a sample of 300 descriptors, which must agree too.
  history    in ONE fresh process, a seeded random sequence of calls (with repetitions); after each call
             every container reachable from the returned value is mutated in place (values overwritten,
             keys added, dicts cleared, lists appended/reversed; tuple members too); every outcome is
             compared with the reference.  A violation is reported with a minimised call prefix.
  threads    N in {2, 8, 16} threads in a FRESH process in which only the package `stdnum` itself has been
             imported (so registries, country packages and country modules are first used concurrently),
             released by a threading.Barrier, sys.setswitchinterval(1e-6); every thread first runs a
             shuffled copy of the cache-touching descriptors, then a shuffled slice of the rest; compared
             with the reference.
  cold       the same with nothing imported before the threads start.  Here CPython's import system can
             raise _DeadlockError in one thread (stdnum/__init__.py imports stdnum.util while another
             thread imports stdnum.util and waits for the package): this is the caller's first import of
             the package, not a lazy load of the library, so it is counted in
             distribution['cold_package_import'] and NOT reported as a violation.
  getcc      many fresh processes in which 16 threads ask util.get_cc_module for the same country module at the
             same moment (first use); the answers of the threads must agree.
  schedule   a FORCED schedule of two threads for every country submodule that is a real file (be/vat, gb/vat,
             no/iban, ...): thread A performs the first import and is held (by a trace function, i.e. a scheduler
             emulation; the code under test is untouched) between "module in sys.modules, _initializing false"
             and "module bound as attribute of its package"; thread B calls the library.  On the current tree
             util.get_cc_module then returns None for an existing module and iban/eu.vat/vatin cache that None
             for the life of the process — reported under the site
             'stdnum/util.py:get_cc_module:return getattr(mod, name, None)'.
  alias      for calls returning containers: no mutable object (dict/list/set/bytearray) is shared between
             two successive results of the same call, nor between a result and anything reachable from
             stdnum.numdb._open_databases or from the globals of any loaded stdnum module.

Deterministic for a given seed and tree apart from thread scheduling.
"""
import json
import os
import random
import subprocess
import sys
import time
from concurrent.futures import ThreadPoolExecutor

HERE = os.path.dirname(os.path.abspath(__file__))
sys.path.insert(0, os.path.dirname(HERE))   # tools/

PROPERTY = 'C13'
PYTHON = '/venv/bin/python' if os.path.exists('/venv/bin/python') else sys.executable
REPO = os.environ.get('VERIF_REPO', '/repo')
# children see the same tree as tools/common.py (VERIF_REPO first on sys.path), then this directory
CHILD_CODE = 'import sys; sys.path.insert(0, %r); sys.path.insert(0, %r); import c13; c13.child_main()' % (REPO, HERE)

RULE = (
    'descriptors: every public function with the single required parameter `number` of every number module '
    '(network functions excluded) x one valid and one invalid corpus sample (two valid for container-returning '
    'functions), plus get_cc_module/_get_cc_module/numdb.get helpers; conditions: fresh process (reference, two '
    'chunkings), random histories with in-place mutation of everything returned, 2/8/16 threads in a fresh process, '
    'id()-reachability scan.  non-trivial = a descriptor whose reference outcome is a value (not an exception) and that '
    'was compared under at least one non-fresh condition')

NETWORK_PREFIXES = ('check_', 'search_')
# root cause label of: util.get_cc_module() returning None for an existing module while another thread is finishing the
# first import of that module (CPython publishes the submodule in sys.modules, clears `_initializing`, and only then binds
# it as attribute of the package; get_cc_module uses getattr(package, name, None)), the None then being cached for the
# life of the process by iban/eu.vat/vatin._get_cc_module
SITE_GETCC = 'stdnum/util.py:get_cc_module:return getattr(mod, name, None)'
# modules through which the library itself lazily imports country packages / opens registries
ENTRY_MODULES = ('stdnum.iban', 'stdnum.eu.vat', 'stdnum.vatin', 'stdnum.util', 'stdnum.numdb')
# top-level modules (parent package = stdnum only) that open registries lazily; not pre-imported in the lazy flavour
LAZY_TOPLEVEL = ('stdnum.isbn', 'stdnum.imsi', 'stdnum.mac', 'stdnum.isil', 'stdnum.cfi', 'stdnum.gs1_128', 'stdnum.ismn', 'stdnum.issn', 'stdnum.isan')
CACHE_MODULES = (
    'stdnum.iban', 'stdnum.eu.vat', 'stdnum.vatin', 'stdnum.isbn', 'stdnum.imsi', 'stdnum.mac', 'stdnum.isil',
    'stdnum.cfi', 'stdnum.gs1_128', 'stdnum.be.iban', 'stdnum.es.iban', 'stdnum.no.iban', 'stdnum.me.iban',
    'stdnum.my.nric', 'stdnum.nz.bankaccount', 'stdnum.cz.bankaccount', 'stdnum.at.postleitzahl', 'stdnum.at.tin',
    'stdnum.us.ein', 'stdnum.cn.ric', 'stdnum.id.nik', 'stdnum.eu.nace', 'stdnum.util', 'stdnum.numdb',
    'stdnum.isan', 'stdnum.ismn', 'stdnum.issn', 'stdnum.de.vat', 'stdnum.nl.btw', 'stdnum.gb.vat', 'stdnum.gr.vat')


# ============================================================================= child side (fresh interpreters)

def freeze(v, depth=0):
    """deterministic, process-independent description of a value"""
    import datetime
    import decimal
    import types
    if depth > 8:
        return '<deep>'
    if v is None or isinstance(v, (bool, int, str)):
        return v if not isinstance(v, str) else 's:' + v
    if isinstance(v, float):
        return 'f:' + repr(v)
    if isinstance(v, bytes):
        return 'b:' + v.hex()
    if isinstance(v, dict):
        return ['dict'] + sorted(([freeze(k, depth + 1), freeze(x, depth + 1)] for k, x in v.items()), key=repr)
    if isinstance(v, (list, tuple)):
        return [type(v).__name__] + [freeze(x, depth + 1) for x in v]
    if isinstance(v, (set, frozenset)):
        return [type(v).__name__] + sorted((freeze(x, depth + 1) for x in v), key=repr)
    if isinstance(v, types.ModuleType):
        return 'module:' + v.__name__
    if isinstance(v, (datetime.date, datetime.datetime)):
        return 'date:' + v.isoformat()
    if isinstance(v, decimal.Decimal):
        return 'dec:' + str(v)
    if type(v).__name__ == 'NumDB':
        return ['NumDB', len(v.prefixes), freeze(v.info('0123456789'), depth + 1), freeze(v.info('9780'), depth + 1)]
    if isinstance(v, types.GeneratorType):
        return ['generator'] + [freeze(x, depth + 1) for x in v]
    if callable(v):
        return 'callable:' + getattr(v, '__name__', '?')
    return 'object:' + type(v).__name__


def evaluate(desc):
    """-> (canonical outcome, raw value or None)"""
    import importlib
    import warnings
    try:
        with warnings.catch_warnings():
            warnings.simplefilter('ignore')
            mod = importlib.import_module(desc['module'])
            f = getattr(mod, desc['function'])
            v = f(*desc.get('args', []), **desc.get('kwargs', {}))
            return ['ok', json.dumps(freeze(v), sort_keys=True, ensure_ascii=True)], v
    except BaseException as e:   # noqa: B902 (outcome = the exception class, whatever it is)
        name = type(e).__name__
        if name.startswith('_') or isinstance(e, (RuntimeError, ImportError, AttributeError, KeyError)) and len(TRACES) < 20:
            import traceback
            TRACES.setdefault(name + ' in ' + desc['module'] + '.' + desc['function'],
                              [ln.strip() for ln in traceback.format_exception(e)[-9:]])
        return ['err', name], None


TRACES = {}   # child side: traceback tails of unusual exceptions (import machinery, KeyError, ...)


MUTABLE = (dict, list, set, bytearray)


def mutate(v, rng, seen=None, depth=0):
    """in-place mutation of every builtin container reachable from v (never of modules or other objects)"""
    if seen is None:
        seen = set()
    if id(v) in seen or depth > 8:
        return
    seen.add(id(v))
    if type(v) is dict:
        for x in list(v.values()):
            mutate(x, rng, seen, depth + 1)
        for k in list(v.keys()):
            if rng.randrange(2):
                v[k] = 'MUTATED'
        v['__mutated__'] = ['x']
        if rng.randrange(3) == 0:
            v.clear()
    elif type(v) is list:
        for x in list(v):
            mutate(x, rng, seen, depth + 1)
        if v and rng.randrange(2):
            v[0] = 'MUTATED'
        v.append(('MUTATED', {}))
        if rng.randrange(3) == 0:
            v.reverse()
        if rng.randrange(4) == 0:
            del v[:]
    elif type(v) is tuple:
        for x in v:
            mutate(x, rng, seen, depth + 1)
    elif type(v) is set:
        v.add('MUTATED')
    elif type(v) is bytearray:
        v.extend(b'MUT')


def reachable_mutables(v, out, seen, depth=0):
    """ids (-> short description) of mutable builtin containers reachable from v through containers"""
    if id(v) in seen or depth > 12:
        return
    seen.add(id(v))
    t = type(v)
    if t in MUTABLE:
        out[id(v)] = t.__name__
    if t is dict:
        for k, x in v.items():
            reachable_mutables(x, out, seen, depth + 1)
    elif t in (list, tuple, set, frozenset):
        for x in v:
            reachable_mutables(x, out, seen, depth + 1)
    elif t.__name__ == 'NumDB' and hasattr(v, 'prefixes'):
        reachable_mutables(v.prefixes, out, seen, depth + 1)


def library_mutables():
    """every mutable container reachable from the globals of loaded stdnum modules"""
    import types
    out, seen = {}, set()
    where = {}
    for name, mod in sorted(sys.modules.items()):
        if mod is None or not (name == 'stdnum' or name.startswith('stdnum.')):
            continue
        for attr, val in list(vars(mod).items()):
            if isinstance(val, (types.ModuleType, types.FunctionType, type)) or attr.startswith('__'):
                continue
            before = set(out)
            reachable_mutables(val, out, seen)
            for i in set(out) - before:
                where[i] = '%s.%s' % (name, attr)
    return out, where


def child_ref(req):
    return [evaluate(d)[0] for d in req['descs']]


def child_history(req):
    rng = random.Random(req['seed'])
    outs = []
    for d in req['descs']:
        o, v = evaluate(d)
        outs.append(o)
        if req.get('mutate', True) and v is not None:
            mutate(v, rng)
    return outs


def child_threads(req):
    import threading
    sys.setswitchinterval(1e-6)
    import importlib
    for name in req.get('preimport', ['stdnum']):
        # A program imports the package before it starts threads.  (Without this, two threads doing the very
        # first `import stdnum.<x>` at once can get importlib's _DeadlockError, because stdnum/__init__.py
        # imports its own submodule stdnum.util — see the `cold` probe in search().)
        importlib.import_module(name)
    diag = []
    if req.get('diagnose'):
        # diagnostic aid: same code as stdnum.util.get_cc_module, but records why it returns None
        import traceback
        import stdnum.util

        def get_cc_module(cc, name):
            cc = cc.lower()
            if cc in ('in', 'is', 'if'):
                cc += '_'
            try:
                mod = __import__('stdnum.%s' % cc, globals(), locals(), [name])
                r = getattr(mod, name, None)
                if r is None:
                    diag.append(['getattr gave None', cc, name, sorted(k for k in vars(mod) if not k.startswith('__')),
                                 bool(getattr(mod.__spec__, '_initializing', False))])
                return r
            except ImportError as e:
                diag.append(['ImportError', cc, name, [ln.strip() for ln in traceback.format_exception(e)[-8:]]])
                return
        stdnum.util.get_cc_module = get_cc_module
        for m in ('stdnum.iban', 'stdnum.eu.vat', 'stdnum.vatin'):
            if m in sys.modules:
                sys.modules[m].get_cc_module = get_cc_module
    n = req['nthreads']
    plans = req['plans']            # one list of descriptors per thread
    results = [None] * n
    barrier = threading.Barrier(n)

    def work(i):
        rng = random.Random(req['seed'] * 1000 + i)
        outs = []
        try:
            barrier.wait(timeout=30)
            for d in plans[i]:
                o, v = evaluate(d)
                outs.append(o)
                if req.get('mutate') and v is not None:
                    mutate(v, rng)
        except BaseException as e:   # noqa: B902
            outs.append(['err', 'THREAD:' + type(e).__name__])
        results[i] = outs
    threads = [threading.Thread(target=work, args=(i,)) for i in range(n)]
    for t in threads:
        t.start()
    for t in threads:
        t.join(timeout=req.get('timeout', 120))
    return {'outs': results, 'traces': TRACES, 'diag': diag, 'poisoned': poisoned_caches()}


def poisoned_caches():
    """entries None in a country-module cache although the module exists (checked now, single-threaded)"""
    import importlib
    bad = []
    for modname, attr in (('stdnum.iban', 'iban'), ('stdnum.eu.vat', 'vat'), ('stdnum.vatin', 'vat')):
        mod = sys.modules.get(modname)
        if mod is None:
            continue
        for cc, m in sorted(getattr(mod, '_country_modules', {}).items()):
            if m is None and importlib.import_module('stdnum.util').get_cc_module(cc, attr) is not None:
                bad.append([modname, cc, attr])
    return bad


def child_schedule(req):
    """Forced schedule (a scheduler emulation, not a change of the code under test): thread A performs the first
    import of stdnum.<cc>.<name> and is held — by a trace function — at the point inside importlib where the module is
    already published in sys.modules with `_initializing` false but not yet bound as attribute of the package; thread B
    then uses the library.  A real scheduler can switch threads at exactly that point."""
    import importlib
    import threading
    import stdnum.util
    for m in req.get('preimport', []):
        importlib.import_module(m)
    target = req['target']          # full module name, e.g. stdnum.gb.vat
    e1, e2 = threading.Event(), threading.Event()
    res = {'window_reached': False}

    def tracer(frame, event, arg):
        co = frame.f_code
        if co.co_name == '_find_and_load_unlocked' and 'importlib' in co.co_filename:
            def local(frame, event, arg):
                if event == 'line' and frame.f_locals.get('name') == target and 'module' in frame.f_locals and not e1.is_set():
                    res['window_reached'] = True
                    e1.set()
                    e2.wait(3)    # (B blocks on the package lock when the package __init__ itself performs this import)
                return local
            return local
        return None

    def thread_a():
        sys.settrace(tracer)
        try:
            importlib.import_module(target)
        finally:
            sys.settrace(None)
            e1.set()

    def thread_b():
        e1.wait(20)
        m = sys.modules.get(target)
        res['published'] = m is not None and not getattr(m.__spec__, '_initializing', False)
        res['get_cc_module_is_None'] = stdnum.util.get_cc_module(req['cc'], req['name']) is None
        res['during'] = [evaluate(d)[0] for d in req['consumers']]
        e2.set()
    a, b = threading.Thread(target=thread_a), threading.Thread(target=thread_b)
    a.start()
    b.start()
    a.join(30)
    b.join(30)
    res['after'] = [evaluate(d)[0] for d in req['consumers']]
    res['poisoned'] = poisoned_caches()
    return res


def child_getcc(req):
    """all threads ask util.get_cc_module for the same (cc, name) at the same time, first use"""
    import threading
    sys.setswitchinterval(1e-6)
    import stdnum.util
    n = req['nthreads']
    barrier = threading.Barrier(n)
    seen = {}
    lock = threading.Lock()

    def work(i):
        barrier.wait(timeout=30)
        for cc, name in req['pairs']:
            m = stdnum.util.get_cc_module(cc, name)
            with lock:
                seen.setdefault(cc + '/' + name, set()).add(m is None)
    threads = [threading.Thread(target=work, args=(i,)) for i in range(n)]
    for t in threads:
        t.start()
    for t in threads:
        t.join(timeout=60)
    return sorted(k for k, v in seen.items() if len(v) == 2)



def child_alias(req):
    found = []
    for d in req['descs']:
        if d['module'] == 'stdnum.numdb':
            continue    # numdb.get() hands out the cached registry object itself, by design
        o1, v1 = evaluate(d)
        o2, v2 = evaluate(d)
        if v1 is None or v2 is None:
            continue
        m1, m2 = {}, {}
        reachable_mutables(v1, m1, set())
        reachable_mutables(v2, m2, set())
        if not m1 and not m2:
            continue
        shared = set(m1) & set(m2)
        if shared:
            found.append({'desc': d, 'kind': 'two successive results share a %s' % m1[sorted(shared)[0]], 'where': ''})
        lib, where = library_mutables()
        hit = (set(m1) | set(m2)) & set(lib)
        if hit:
            i = sorted(hit)[0]
            found.append({'desc': d, 'kind': 'result holds a %s that is reachable from library state' % lib[i], 'where': where.get(i, '')})
    return found


def child_main():
    req = json.loads(sys.stdin.read())
    mode = req['mode']
    res = {'ref': child_ref, 'history': child_history, 'threads': child_threads, 'alias': child_alias, 'getcc': child_getcc, 'schedule': child_schedule}[mode](req)
    sys.stdout.write(json.dumps(res))
    sys.stdout.flush()


# ============================================================================= parent side

def spawn(req, timeout=300):
    """run one request in a fresh interpreter"""
    env = dict(os.environ)
    env.pop('PYTHONSTARTUP', None)
    try:
        p = subprocess.run([PYTHON, '-c', CHILD_CODE], input=json.dumps(req), capture_output=True, text=True,
                           timeout=timeout, env=env)
    except subprocess.TimeoutExpired:
        return {'error': 'timeout after %ds' % timeout}
    if p.returncode != 0:
        return {'error': 'exit %d: %s' % (p.returncode, p.stderr[-400:])}
    try:
        return {'result': json.loads(p.stdout)}
    except ValueError:
        return {'error': 'unparseable child output: %r' % p.stdout[-200:]}


def dkey(d):
    return json.dumps([d['module'], d['function'], d.get('args', []), d.get('kwargs', {})], sort_keys=True)


def build_descriptors(rng, target=2000):
    import inspect
    import common
    corpus = common.corpus()
    descs = []
    for mod in common.number_modules():
        name = mod.__name__
        valid = corpus.get(name, {}).get('valid', [])
        invalid = corpus.get(name, {}).get('invalid', [])
        funcs = []
        for fname, f in sorted(vars(mod).items()):
            if fname.startswith('_') or not inspect.isfunction(f) or f.__module__ != name:
                continue
            if fname.startswith(NETWORK_PREFIXES):
                continue
            params = list(inspect.signature(f).parameters.values())
            if any(p.name in ('timeout', 'verify') for p in params):
                continue
            required = [p.name for p in params if p.default is p.empty and p.kind in (p.POSITIONAL_ONLY, p.POSITIONAL_OR_KEYWORD)]
            if required != ['number']:
                continue
            funcs.append(fname)
        for fname in funcs:
            container = fname in ('info', 'split') or fname.startswith(('get_', 'guess_'))
            picks = []
            if valid:
                picks.append(rng.choice(valid))
                if container and len(valid) > 1:
                    picks.append(rng.choice(valid))
            if invalid and not container:
                picks.append(rng.choice(invalid))
            for s in dict.fromkeys(picks):
                descs.append({'module': name, 'function': fname, 'args': [s]})
    # documented extra arguments
    extras = [
        ('stdnum.iban', 'validate', ['GR1601101050000010547023795'], {'check_country': False}),
        ('stdnum.iban', 'is_valid', ['BE31435411161155'], {'check_country': True}),
        ('stdnum.iban', 'format', ['GR1601101050000010547023795'], {'separator': '-'}),
        ('stdnum.isbn', 'validate', ['0-19-853453-1'], {'convert': True}),
        ('stdnum.isbn', 'split', ['9780198534532'], {'convert': True}),
        ('stdnum.isbn', 'format', ['0198534531'], {'separator': ' ', 'convert': True}),
        ('stdnum.imsi', 'info', ['429011234567890'], {}),
        ('stdnum.mac', 'get_manufacturer', ['2c:76:8a:ad:f2:74'], {}),
        ('stdnum.gs1_128', 'info', ['(01)38425876095074(17)181119(37)1'], {}),
        ('stdnum.gs1_128', 'validate', ['(01)38425876095074(17)181119(37)1 '], {}),
        ('stdnum.cfi', 'info', ['ELNUFR'], {}),
        ('stdnum.eu.vat', 'guess_country', ['00449544B01'], {}),
        ('stdnum.eu.vat', 'validate', ['EL 094259216'], {}),
        ('stdnum.eu.vat', 'validate', ['XI 432525179'], {}),
        ('stdnum.eu.vat', 'compact', ['el094259216'], {}),
        ('stdnum.vatin', 'validate', ['EL094259216'], {}),
        ('stdnum.vatin', 'validate', ['xi432525179'], {}),
        ('stdnum.vatin', 'compact', ['NL4495445B01'], {}),
        ('stdnum.be.iban', 'to_bic', ['BE 48 3200 7018 4927'], {}),
        ('stdnum.cn.ric', 'get_birth_place', ['360426199101010071'], {}),
        ('stdnum.my.nric', 'get_birth_place', ['770305-02-1234'], {}),
        ('stdnum.cz.bankaccount', 'to_bic', ['34278-0727558021/0100'], {}),
        ('stdnum.nz.bankaccount', 'info', ['01-902-0068389-00'], {}),
        ('stdnum.eu.nace', 'info', ['62.01'], {}),
        ('stdnum.at.postleitzahl', 'info', ['5090'], {}),
        ('stdnum.at.tin', 'info', ['59-119/9013'], {}),
        ('stdnum.us.ein', 'get_campus', ['04-2103594'], {}),
        ('stdnum.id.nik', 'get_birth_place', ['3171011708450001'], {}),
        ('stdnum.isil', 'validate', ['IT-RM0267'], {}),
    ]
    for m, f, a, k in extras:
        descs.append({'module': m, 'function': f, 'args': a, 'kwargs': k})
    from stdnum.util import get_cc_module
    import stdnum.eu.vat
    ccs = sorted({m.__name__.split('.')[1] for m in common.number_modules() if m.__name__.count('.') == 2})
    for cc in ccs:
        vat = get_cc_module(cc, 'vat')
        if vat is None:
            continue
        v = corpus.get(vat.__name__, {}).get('valid', [])
        if not v:
            continue
        try:
            c = vat.compact(rng.choice(v))
        except Exception:   # noqa: B902
            continue
        code = cc.rstrip('_')
        code = {'gr': 'el'}.get(code, code)
        descs.append({'module': 'stdnum.vatin', 'function': 'validate', 'args': [code.upper() + c]})
        descs.append({'module': 'stdnum.vatin', 'function': 'is_valid', 'args': [code + c]})
        if code in stdnum.eu.vat.MEMBER_STATES or code == 'el':
            descs.append({'module': 'stdnum.eu.vat', 'function': 'validate', 'args': [code.upper() + c]})
            descs.append({'module': 'stdnum.eu.vat', 'function': 'compact', 'args': [code + ' ' + c]})
    for cc in ccs:
        ib = get_cc_module(cc, 'iban')
        if ib is None:
            continue
        for v in corpus.get(ib.__name__, {}).get('valid', [])[:2]:
            descs.append({'module': 'stdnum.iban', 'function': 'validate', 'args': [v]})
            descs.append({'module': 'stdnum.iban', 'function': 'is_valid', 'args': [v.lower()]})
    for cc in ['nl', 'NL', 'in', 'is', 'zz', 'gb', 'be', 'Nl']:
        for nm in ['vat', 'iban', 'pan', 'nosuch']:
            descs.append({'module': 'stdnum.util', 'function': 'get_cc_module', 'args': [cc, nm]})
    for cc in ['be', 'BE', 'nl', 'zz', 'no', 'es', 'ES', 'me']:
        descs.append({'module': 'stdnum.iban', 'function': '_get_cc_module', 'args': [cc]})
    for cc in ['el', 'EL', 'gr', 'GR', 'xi', 'XI', 'gb', 'nl', 'NL', 'eu', 'im', 'zz', 'us', 'at']:
        descs.append({'module': 'stdnum.eu.vat', 'function': '_get_cc_module', 'args': [cc]})
    for cc in ['nl', 'NL', 'el', 'EL', 'xi', 'gr', 'gb', 'zz', '1x', 'in', 'IN', 'do']:
        descs.append({'module': 'stdnum.vatin', 'function': '_get_cc_module', 'args': [cc]})
    for nm in ['iban', 'isbn', 'be/banks', 'cz/banks', 'nz/banks', 'cn/loc', 'imsi', 'my/bp', 'isil', 'cfi', 'banks', 'nosuch', 'at/fa', 'eu/nace']:
        descs.append({'module': 'stdnum.numdb', 'function': 'get', 'args': [nm]})
    # de-duplicate, keep order
    seen, out = set(), []
    for d in descs:
        k = dkey(d)
        if k not in seen:
            seen.add(k)
            out.append(d)
    if len(out) > target + 400:
        helpers = [d for d in out if d['module'] in ('stdnum.util', 'stdnum.numdb') or d['function'].startswith('_') or d.get('kwargs')]
        rest = [d for d in out if d not in helpers]
        rng.shuffle(rest)
        out = sorted(rest[:target], key=dkey) + helpers
    return out


# ----------------------------------------------------------------------------- registry siblings
# Entries of one registry that share a leading block but resolve differently (nested 28/36-bit assignments below
# one 24-bit OUI block, publishers below one ISBN group ...).  Anything the library remembers per leading block
# instead of per number shows only when two such numbers are looked up one after the other.

def _parse_dat(path):
    """independent reading of a registry file: [(indent, low, high, rest of line)]"""
    rows = []
    try:
        src = open(path, encoding='utf-8').read()
    except OSError:
        return rows
    for line in src.split('\n'):
        if not line.strip() or line.lstrip().startswith('#'):
            continue
        indent = len(line) - len(line.lstrip(' '))
        body = line.strip()
        head, _, rest = body.partition(' ')
        for rng_ in head.split(','):
            low, _, high = rng_.partition('-')
            rows.append((indent, low, high or low, rest))
    return rows


def registry_sibling_numbers(limit_parents=8):
    """{module name: [(number1, number2), ...]}: pairs of numbers under one parent entry with different children"""
    import common
    import re as _re
    out = {}
    for mod in common.number_modules():
        try:
            src = open(mod.__file__, encoding='utf-8').read()
        except OSError:
            continue
        names = _re.findall(r"numdb\.get\('([^']+)'\)", src)
        if not names:
            continue
        valid = common.valid_numbers(mod.__name__)
        compact = getattr(mod, 'compact', None)
        length, sample = None, None
        for v in valid:
            try:
                c = compact(v) if compact else v
            except Exception:   # noqa: B902
                continue
            if isinstance(c, str):
                length, sample = len(c), c
                break
        if length is None:
            continue
        pairs = []
        for nm in names:
            rows = _parse_dat(os.path.join(common.REPO, 'stdnum', nm + '.dat'))
            # walk: stack of (indent, prefix so far)
            stack = []
            children = {}          # parent prefix -> [(child low, rest)]
            for indent, low, high, rest in rows:
                while stack and stack[-1][0] >= indent:
                    stack.pop()
                prefix = stack[-1][1] if stack else ''
                children.setdefault(prefix, []).append((low, rest))
                stack.append((indent, prefix + low))
            parents = [(pfx, ch) for pfx, ch in children.items() if pfx and len({r for _, r in ch}) >= 2]
            parents.sort(key=lambda t: (-len(t[1]), t[0]))
            for pfx, ch in parents[:limit_parents]:
                (l1, r1) = ch[0]
                other = [c for c in ch[1:] if c[1] != r1]
                if not other:
                    continue
                l2 = other[len(other) // 2][0]
                nums = []
                for low in (l1, l2):
                    body = pfx + low
                    if len(body) > sum(1 for c_ in sample if c_.isalnum()):
                        continue
                    k, chars = 0, []
                    for c_ in sample:        # overwrite the leading letters/digits, keep the separators where they are
                        if c_.isalnum() and k < len(body):
                            chars.append(body[k])
                            k += 1
                        else:
                            chars.append(c_)
                    n = ''.join(chars)
                    ok = False
                    try:
                        ok = mod.is_valid(n)
                    except Exception:   # noqa: B902
                        ok = False
                    if not ok:      # repair the last character (check digit) by search
                        for ch_ in '0123456789X':
                            try:
                                if mod.is_valid(n[:-1] + ch_):
                                    n, ok = n[:-1] + ch_, True
                                    break
                            except Exception:   # noqa: B902
                                pass
                    nums.append(n)
                if len(nums) == 2 and nums[0] != nums[1]:
                    pairs.append(tuple(nums))
        if pairs:
            out[mod.__name__] = pairs
    return out


def chunked(xs, n):
    return [xs[i:i + n] for i in range(0, len(xs), n)]


def run_parallel(reqs, workers=16, timeout=300):
    with ThreadPoolExecutor(max_workers=workers) as ex:
        return list(ex.map(lambda r: spawn(r, timeout), reqs))


def touches_cache(d):
    return d['module'] in CACHE_MODULES or d['function'].startswith('_')


def minimise(prefix, target, expected, budget=24):
    """shrink a history (list of descriptors ending with `target`) that makes target deviate from `expected`"""
    def fails(calls):
        r = spawn({'mode': 'history', 'descs': calls + [target], 'seed': 1, 'mutate': True}, timeout=120)
        return 'result' in r and r['result'][-1] != expected
    cur = list(prefix)
    if not fails(cur):
        return cur, False
    n = 2
    while len(cur) >= 1 and budget > 0:
        size = max(1, len(cur) // n)
        reduced = False
        for i in range(0, len(cur), size):
            cand = cur[:i] + cur[i + size:]
            budget -= 1
            if fails(cand):
                cur, n, reduced = cand, max(n - 1, 2), True
                break
            if budget <= 0:
                break
        if not reduced:
            if size == 1:
                break
            n = min(len(cur), n * 2)
    return cur, True


def case_of(d, observed, expected, relation, site, history=None, extra=None):
    import common
    c = {'module': d['module'], 'function': d['function'],
         'args': [common.describe(a) for a in d.get('args', [])],
         'observed': observed, 'expected': expected, 'relation': relation, 'site': site,
         'history': history or []}
    if d.get('kwargs'):
        c['kwargs'] = {k: common.describe(v) for k, v in d['kwargs'].items()}
    if extra:
        c.update(extra)
    return c


def short(d):
    return {'module': d['module'], 'function': d['function'], 'args': d.get('args', []), 'kwargs': d.get('kwargs', {})}


def show(o):
    return ('returns ' + o[1][:160]) if o[0] == 'ok' else ('raises ' + o[1])


def search(seed, tier):
    import common
    t0 = time.time()
    rng = random.Random(seed)
    descs = build_descriptors(rng)
    # registry siblings: every single-argument function of the registry-backed modules on both numbers of a pair
    sib_pairs = []
    have = set(dkey(d) for d in descs)
    funcs_of = {}
    for d in descs:
        if not d.get('kwargs') and len(d.get('args', [])) == 1:
            funcs_of.setdefault(d['module'], set()).add(d['function'])
    for modname, pairs in sorted(registry_sibling_numbers().items()):
        for n1, n2 in pairs:
            for fn in sorted(funcs_of.get(modname, ())):
                d1 = {'module': modname, 'function': fn, 'args': [n1]}
                d2 = {'module': modname, 'function': fn, 'args': [n2]}
                sib_pairs.append((d1, d2))
                for d in (d1, d2):
                    if dkey(d) not in have:
                        have.add(dkey(d))
                        descs.append(d)
    keys = [dkey(d) for d in descs]
    bykey = dict(zip(keys, descs))
    failing, distribution = [], {'descriptors': len(descs), 'conditions': {}, 'functions': {}}
    for d in descs:
        f = d['function'] if d['function'] in ('validate', 'is_valid', 'compact', 'format', 'info', 'split') else d['function'].split('_')[0] + '_*'
        distribution['functions'][f] = distribution['functions'].get(f, 0) + 1
    cases = 0
    harness_errors = []

    # ---- reference: two shuffled chunkings in fresh processes
    ref = {}
    disagreements = {}
    chunkings = []
    for rep in range(2):
        order = list(descs)
        random.Random(seed * 7919 + rep).shuffle(order)
        chunkings.append(chunked(order, 50))
    reqs = [{'mode': 'ref', 'descs': ch} for chs in chunkings for ch in chs]
    results = run_parallel(reqs)
    for req, r in zip(reqs, results):
        if 'error' in r:
            harness_errors.append('reference chunk: ' + r['error'])
            continue
        for d, o in zip(req['descs'], r['result']):
            cases += 1
            k = dkey(d)
            if k in ref and ref[k] != o:
                disagreements.setdefault(k, (ref[k], o))
            ref.setdefault(k, o)
    distribution['conditions']['reference (2 chunkings x %d chunks of 50)' % len(chunkings[0])] = cases
    for k, (a, b) in disagreements.items():
        d = bykey[k]
        # which chunk produced the deviating outcome: replay that chunk prefix
        failing.append(case_of(d, show(b), show(a), 'two fresh-process chunkings agree', 'c13:reference-chunkings',
                               history=[], extra={'note': 'outcome depends on which calls preceded it inside a fresh process'}))
    # thorough: fresh process per call for a sample
    if tier == 'thorough':
        sample = random.Random(seed + 5).sample(descs, min(300, len(descs)))
        # make sure cache-touching ones are well represented
        sample = [d for d in descs if touches_cache(d)][:120] + sample[:180]
        rs = run_parallel([{'mode': 'ref', 'descs': [d]} for d in sample])
        n = 0
        for d, r in zip(sample, rs):
            if 'error' in r:
                harness_errors.append('single-call reference: ' + r['error'])
                continue
            n += 1
            cases += 1
            if r['result'][0] != ref.get(dkey(d)):
                failing.append(case_of(d, show(ref[dkey(d)]) + ' (inside a chunk)', show(r['result'][0]) + ' (alone in a fresh process)',
                                       'fresh process per call agrees with chunked reference', 'c13:reference-single'))
        distribution['conditions']['reference (fresh process per call)'] = n

    compared = set()
    phases = {'reference': round(time.time() - t0, 1)}

    def check(d, o, condition, history):
        k = dkey(d)
        exp = ref.get(k)
        if exp is None:
            return None
        if exp[0] == 'ok':
            compared.add(k)
        if o != exp:
            return (d, o, exp, condition, history)
        return None

    # ---- histories
    n_hist = 12 if tier == 'quick' else 48
    hist_len = 700 if tier == 'quick' else 1500
    cachey = [d for d in descs if touches_cache(d)]
    reqs = []
    for h in range(n_hist):
        r = random.Random(seed * 104729 + h)
        seq = [r.choice(cachey) if r.randrange(3) == 0 else r.choice(descs) for _ in range(hist_len)]
        reqs.append({'mode': 'history', 'descs': seq, 'seed': seed * 31 + h, 'mutate': True})
    results = run_parallel(reqs)
    n = 0
    viol = []
    for req, r in zip(reqs, results):
        if 'error' in r:
            harness_errors.append('history: ' + r['error'])
            continue
        first_bad = {}
        for i, (d, o) in enumerate(zip(req['descs'], r['result'])):
            n += 1
            v = check(d, o, 'history', None)
            if v and dkey(d) not in first_bad:
                first_bad[dkey(d)] = (i, v)
        for k, (i, v) in first_bad.items():
            viol.append((req, i, v))
    cases += n
    distribution['conditions']['history (%d sequences x %d calls, results mutated in place)' % (n_hist, hist_len)] = n
    seen_sites = set()
    for req, i, (d, o, exp, _c, _h) in viol:
        site = 'c13:history:%s.%s' % (d['module'], d['function'])
        if site in seen_sites:
            continue
        seen_sites.add(site)
        if len(seen_sites) <= 6:
            prefix, confirmed = minimise(req['descs'][:i], d, exp)
        else:   # many root-cause candidates already minimised: keep the run short, give the tail of the history
            prefix, confirmed = req['descs'][max(0, i - 25):i], None
        failing.append(case_of(d, show(o), show(exp), 'outcome after a call history with mutated results = fresh outcome', site,
                               history=[short(x) for x in prefix],
                               extra={'history_length_before_minimisation': i, 'minimised_history_reproduces': confirmed}))

    # ---- directed histories: the two numbers of a registry-sibling pair, one right after the other, both orders
    reqs = []
    flat = []
    for d1, d2 in sib_pairs:
        flat.append([d1, d2])
        flat.append([d2, d1])
    # one process per function and order keeps unrelated pairs from shadowing each other
    groups = {}
    for sq in flat:
        groups.setdefault((sq[0]['module'], sq[0]['function'], dkey(sq[0]) < dkey(sq[1])), []).append(sq)
    for key, sqs in sorted(groups.items(), key=lambda kv: str(kv[0])):
        reqs.append({'mode': 'history', 'descs': [d for sq in sqs for d in sq], 'seed': seed, 'mutate': False})
    results = run_parallel(reqs)
    n = 0
    seen_sib = set()
    for req, r in zip(reqs, results):
        if 'error' in r:
            harness_errors.append('sibling history: ' + r['error'])
            continue
        for i, (d, o) in enumerate(zip(req['descs'], r['result'])):
            n += 1
            v = check(d, o, 'sibling-history', None)
            site = 'c13:history:%s.%s' % (d['module'], d['function'])
            if v and site not in seen_sib and site not in seen_sites:
                seen_sib.add(site)
                prev = req['descs'][i - 1] if i % 2 == 1 else None
                failing.append(case_of(d, show(o), show(v[2]), 'outcome right after a lookup of a registry sibling = fresh outcome', site,
                                       history=[short(prev)] if prev else [short(x) for x in req['descs'][:i]],
                                       extra={'generator': 'registry-siblings'}))
    cases += n
    distribution['conditions']['registry-sibling pairs (%d pairs, both orders)' % len(sib_pairs)] = n

    phases['history'] = round(time.time() - t0, 1)
    # ---- threads
    n = 0
    thread_runs = []
    reps = 1 if tier == 'quick' else 3
    entry = [d for d in descs if d['module'] in ENTRY_MODULES or d['module'] in LAZY_TOPLEVEL]
    for nthreads in (2, 8, 16):
        for rep in range(reps):
            for mut in (False, True):
                r = random.Random(seed * 15485863 + nthreads * 100 + rep * 2 + mut)
                rest = [d for d in descs if not touches_cache(d)]
                r.shuffle(rest)
                per = max(1, min(len(rest) // nthreads, 120 if tier == 'quick' else 250))
                plans = []
                for i in range(nthreads):
                    core = list(cachey)
                    r.shuffle(core)
                    plans.append(core + rest[i * per:(i + 1) * per])
                thread_runs.append({'mode': 'threads', 'flavour': 'threads', 'nthreads': nthreads, 'plans': plans, 'seed': seed + rep,
                                    'mutate': mut, 'timeout': 150, 'preimport': ['stdnum']})
            # only the library's own lazy loading: the caller has imported the entry modules up front and calls nothing else
            r = random.Random(seed * 32452843 + nthreads * 100 + rep)
            plans = []
            for i in range(nthreads):
                core = list(entry)
                r.shuffle(core)
                plans.append(core)
            thread_runs.append({'mode': 'threads', 'flavour': 'lazy', 'nthreads': nthreads, 'plans': plans, 'seed': seed + rep,
                                'mutate': bool(rep % 2), 'timeout': 150, 'preimport': ['stdnum'] + sorted(ENTRY_MODULES)})
    cold_runs = [dict(tr, preimport=[], flavour='cold') for tr in thread_runs if tr['flavour'] == 'threads' and not tr['mutate']]
    results = run_parallel(thread_runs + cold_runs, workers=14, timeout=240)
    cold = {'runs': 0, 'runs_with_deviation': 0, 'deviating_outcomes': {}, 'example_traceback': None}
    for req, r in zip(cold_runs, results[len(thread_runs):]):
        cold['runs'] += 1
        dev = False
        res = r.get('result') or {}
        for i, outs in enumerate(res.get('outs') or []):
            for d, o in zip(req['plans'][i], outs or []):
                if ref.get(dkey(d)) is not None and o != ref[dkey(d)]:
                    dev = True
                    cls = o[1] if o[0] == 'err' else 'value'
                    cold['deviating_outcomes'][cls] = cold['deviating_outcomes'].get(cls, 0) + 1
                    tb = res.get('traces', {}).get('%s in %s.%s' % (cls, d['module'], d['function']))
                    if tb and cold['example_traceback'] is None:
                        cold['example_traceback'] = tb
        cold['runs_with_deviation'] += dev
    distribution['cold_package_import'] = cold
    import_lock = {'runs': 0, 'runs_with_DeadlockError': 0, 'DeadlockError_outcomes': 0, 'example': None}
    results = results[:len(thread_runs)]
    for req, r in zip(thread_runs, results):
        lazy = req['flavour'] == 'lazy'
        label = '%s=%d%s' % ('threads(lazy loads only)' if lazy else 'threads', req['nthreads'], ' +mutation' if req['mutate'] else '')
        if 'error' in r:
            failing.append({'module': 'stdnum', 'function': '(threads)', 'args': [], 'observed': r['error'], 'expected': 'all threads finish',
                            'relation': 'threads terminate', 'site': 'c13:threads:' + r['error'].split(':')[0], 'history': []})
            continue
        cnt = 0
        traces = r['result'].get('traces', {})
        poisoned = r['result'].get('poisoned') or []
        if poisoned and SITE_GETCC not in seen_sites:
            seen_sites.add(SITE_GETCC)
            modname, cc, attr = poisoned[0]
            failing.append(case_of({'module': 'stdnum.util', 'function': 'get_cc_module', 'args': [cc, attr]},
                                   'returned None during concurrent first use (%s); %s._country_modules[%r] is None for the rest of the process'
                                   % (label, modname, cc), 'the country module', 'country-module cache holds None for an existing module',
                                   SITE_GETCC, extra={'threads': req['nthreads'], 'flavour': req['flavour'], 'poisoned': poisoned}))
        import_lock['runs'] += 0 if lazy else 1
        had_deadlock = False
        for i, outs in enumerate(r['result']['outs']):
            if outs is None:
                failing.append({'module': 'stdnum', 'function': '(threads)', 'args': [], 'observed': 'thread %d did not finish' % i,
                                'expected': 'all threads finish', 'relation': 'threads terminate', 'site': 'c13:threads:hang', 'history': []})
                continue
            for d, o in zip(req['plans'][i], outs):
                cnt += 1
                v = check(d, o, label, None)
                if not v:
                    continue
                tb = traces.get('%s in %s.%s' % (o[1], d['module'], d['function'])) if o[0] == 'err' else None
                if o == ['err', '_DeadlockError'] and not lazy:
                    # CPython's import-lock deadlock avoidance, triggered by the CALLER's concurrent first
                    # `import stdnum.<cc>.<x>` (here: this harness) against another first import of package
                    # stdnum.<cc>, whose __init__ imports its own submodule.  Outside the library's lazy loading
                    # (see the `lazy` flavour, where it would be reported); counted, not reported.
                    had_deadlock = True
                    import_lock['DeadlockError_outcomes'] += 1
                    if import_lock['example'] is None:
                        import_lock['example'] = {'call': short(d), 'threads': req['nthreads'], 'traceback': tb}
                    continue
                site = 'c13:threads:%s.%s' % (d['module'], d['function'])
                if o[0] == 'err' and (o[1] in ('ModuleNotFoundError', 'ImportError', '_DeadlockError') or
                                      (tb and ('partially initialized module' in str(tb) or '<frozen importlib' in str(tb)))):
                    # the import machinery itself failed during a concurrent first import (function-level
                    # `from stdnum import numdb`, get_cc_module's __import__): one root cause, whichever
                    # function happened to trigger the import in this run
                    site = 'c13:threads:concurrent-first-import'
                if poisoned and (d['module'] in ENTRY_MODULES or d['module'].endswith('.iban')):
                    site = SITE_GETCC      # consequence of the poisoned cache reported above
                if d['module'] == 'stdnum.util' and d['function'] == 'get_cc_module' and o == ['ok', 'null']:
                    site = SITE_GETCC
                if site not in seen_sites:
                    seen_sites.add(site)
                    failing.append(case_of(d, show(o) + ' (%s, thread %d)' % (label, i), show(ref[dkey(d)]),
                                           'outcome under concurrent first use = fresh outcome', site,
                                           extra={'threads': req['nthreads'], 'mutation': req['mutate'], 'flavour': req['flavour'], 'traceback': tb}))
        import_lock['runs_with_DeadlockError'] += had_deadlock
        n += cnt
        distribution['conditions'][label] = distribution['conditions'].get(label, 0) + cnt
    distribution['import_lock_in_caller_imports'] = import_lock
    cases += n

    phases['threads'] = round(time.time() - t0, 1)
    # ---- get_cc_module first-use probe (many fresh processes, all threads ask for the same module at once)
    import stdnum.util as _u
    pairs = []
    for cc in sorted({m.__name__.split('.')[1] for m in common.number_modules() if m.__name__.count('.') == 2}):
        for nm in ('vat', 'iban'):
            if _u.get_cc_module(cc.rstrip('_'), nm) is not None:
                pairs.append([cc.rstrip('_'), nm])
    n_probe = 96 if tier == 'quick' else 640
    rs = run_parallel([{'mode': 'getcc', 'nthreads': 16, 'pairs': pairs} for _ in range(n_probe)], workers=16, timeout=120)
    hits = {}
    for r in rs:
        if 'error' in r:
            harness_errors.append('getcc probe: ' + r['error'])
            continue
        cases += len(pairs) * 16
        for k in r['result']:
            hits[k] = hits.get(k, 0) + 1
    distribution['conditions']['get_cc_module first-use probe (%d fresh processes x 16 threads x %d modules)' % (n_probe, len(pairs))] = n_probe * len(pairs) * 16
    distribution['get_cc_module_probe'] = {'processes': n_probe, 'processes_with_None_for_existing_module': sum(1 for r in rs if r.get('result')), 'modules': hits}
    if hits and SITE_GETCC not in seen_sites:
        seen_sites.add(SITE_GETCC)
        k = sorted(hits)[0]
        cc, nm = k.split('/')
        failing.append(case_of({'module': 'stdnum.util', 'function': 'get_cc_module', 'args': [cc, nm]},
                               'returns None in some threads and the module in others when 16 threads ask for it at once in a fresh process '
                               '(%d of %d processes; modules hit: %s)' % (sum(1 for r in rs if r.get('result')), n_probe, ', '.join(sorted(hits))),
                               'the module, in every thread', 'get_cc_module under concurrent first use', SITE_GETCC,
                               extra={'threads': 16, 'flavour': 'getcc-probe'}))

    phases['getcc_probe'] = round(time.time() - t0, 1)
    # ---- forced schedule: the window between publishing a submodule and binding it on its package
    real = []
    for cc, nm in pairs:
        pkg = cc + '_' if cc in ('in', 'is', 'if') else cc
        m = _u.get_cc_module(cc, nm)
        if m.__name__ == 'stdnum.%s.%s' % (pkg, nm):      # a real submodule, not an alias bound by the package __init__
            real.append((cc, nm, m.__name__))
    reqs = []
    for cc, nm, target in real:
        code = {'gr': 'el'}.get(cc, cc)
        if nm == 'vat':
            cons = [d for d in descs if d['module'] in ('stdnum.vatin', 'stdnum.eu.vat') and d['function'] in ('validate', 'is_valid', 'compact')
                    and d['args'] and d['args'][0][:2].lower() in (cc, code)]
        else:
            cons = [d for d in descs if d['module'] == 'stdnum.iban' and d['function'] in ('validate', 'is_valid') and d['args'][0][:2].lower() == cc]
        reqs.append({'mode': 'schedule', 'cc': cc, 'name': nm, 'target': target, 'consumers': cons[:8],
                     'preimport': ['stdnum', 'stdnum.iban', 'stdnum.vatin', 'stdnum.eu.vat']})
    rs = run_parallel(reqs, workers=16, timeout=120)
    sched = {'modules': len(reqs), 'window_reached': 0, 'get_cc_module_None': [], 'persistent_wrong_outcomes': 0}
    witnesses = []
    for req, r in zip(reqs, rs):
        if 'error' in r:
            harness_errors.append('schedule probe: ' + r['error'])
            continue
        res = r['result']
        cases += 1 + 2 * len(req['consumers'])
        sched['window_reached'] += bool(res.get('window_reached'))
        if res.get('get_cc_module_is_None'):
            sched['get_cc_module_None'].append('%s/%s' % (req['cc'], req['name']))
            wrong = [(d, o) for d, o in zip(req['consumers'], res['after']) if ref.get(dkey(d)) is not None and o != ref[dkey(d)]]
            sched['persistent_wrong_outcomes'] += len(wrong)
            witnesses.append((req, res, wrong))
    distribution['forced_schedule_probe'] = sched
    distribution['conditions']['forced schedule (first import of a country submodule held before it is bound on its package)'] = sum(
        1 + 2 * len(q['consumers']) for q in reqs)
    if witnesses:
        req, res, wrong = sorted(witnesses, key=lambda w: -len(w[2]))[0]
        extra = {'flavour': 'forced-schedule', 'threads': 2, 'affected_modules': sched['get_cc_module_None'], 'poisoned': res.get('poisoned'),
                 'schedule': 'thread A: first import of %s, suspended after the module is in sys.modules with _initializing False and before '
                             'setattr(package, %r, module); thread B: the call' % (req['target'], req['name']),
                 'consequences': [{'call': short(d), 'observed_later_in_same_process': show(o), 'fresh': show(ref[dkey(d)])} for d, o in wrong[:6]]}
        c = case_of({'module': 'stdnum.util', 'function': 'get_cc_module', 'args': [req['cc'], req['name']]},
                    'returns None although %s exists; %d later calls through iban/eu.vat/vatin in the same process give a different outcome than in a '
                    'fresh process (None is cached in _country_modules)' % (req['target'], len(wrong)),
                    'the module %s' % req['target'], 'get_cc_module under concurrent first use', SITE_GETCC, extra=extra)
        failing[:] = [f for f in failing if f.get('site') != SITE_GETCC]
        failing.append(c)
        seen_sites.add(SITE_GETCC)

    phases['forced_schedule'] = round(time.time() - t0, 1)
    # ---- aliasing scan
    containerish = [d for d in descs if ref.get(dkey(d), ['err'])[0] == 'ok' and ('["dict"' in ref[dkey(d)][1] or '["list"' in ref[dkey(d)][1]
                                                                               or '["tuple"' in ref[dkey(d)][1] or '["set"' in ref[dkey(d)][1])]
    reqs = [{'mode': 'alias', 'descs': ch} for ch in chunked(containerish, 60)]
    results = run_parallel(reqs)
    n = 0
    for req, r in zip(reqs, results):
        if 'error' in r:
            harness_errors.append('alias: ' + r['error'])
            continue
        n += 2 * len(req['descs'])
        for k in (dkey(d) for d in req['descs']):
            compared.add(k)
        for f in r['result']:
            d = f['desc']
            site = 'c13:alias:%s.%s' % (d['module'], d['function'])
            if site in seen_sites:
                continue
            seen_sites.add(site)
            failing.append(case_of(d, f['kind'] + (' (%s)' % f['where'] if f['where'] else ''), 'results share no mutable object with each other or with library state',
                                   'no aliasing', site))
    cases += n
    distribution['conditions']['alias scan (calls returning containers, each twice)'] = n
    phases['alias'] = round(time.time() - t0, 1)
    distribution['phase_end_seconds'] = phases
    distribution['container_returning_descriptors'] = len(containerish)
    distribution['reference_outcomes'] = {'ok': sum(1 for o in ref.values() if o[0] == 'ok'), 'err': sum(1 for o in ref.values() if o[0] == 'err')}
    for e in sorted(set(harness_errors)):
        failing.append({'module': 'tools.search.c13', 'function': 'harness', 'args': [], 'observed': e, 'expected': 'child process answers',
                        'relation': 'harness', 'site': 'c13:harness', 'history': []})
    samples = []
    for d in (cachey[:3] + containerish[:3] + descs[:2]):
        samples.append(dict(short(d), reference=show(ref.get(dkey(d), ['err', '?']))))
    return {
        'cases': cases,
        'distinct_nontrivial': len(compared),
        'rule': RULE,
        'failing': failing[:200],
        'samples': samples[:8],
        'distribution': distribution,
        'seconds': round(time.time() - t0, 1),
    }


def replay(case):
    """re-run one failing case: the call after its recorded history (with mutation) against a fresh call"""
    import common
    if case.get('function') in ('(threads)', 'harness'):
        return case
    d = {'module': case['module'], 'function': case['function'], 'args': [common.rebuild(a) for a in case['args']],
         'kwargs': {k: common.rebuild(v) for k, v in case.get('kwargs', {}).items()}}
    if case.get('site') == SITE_GETCC and d['function'] == 'get_cc_module':
        cc, nm = d['args']
        pkg = cc + '_' if cc in ('in', 'is', 'if') else cc
        r = spawn({'mode': 'schedule', 'cc': cc, 'name': nm, 'target': 'stdnum.%s.%s' % (pkg, nm), 'consumers': [],
                   'preimport': ['stdnum', 'stdnum.iban', 'stdnum.vatin', 'stdnum.eu.vat']})
        return case if ('error' in r or r['result'].get('get_cc_module_is_None')) else None
    fresh = spawn({'mode': 'ref', 'descs': [d]})
    if 'error' in fresh:
        return case
    exp = fresh['result'][0]
    if case.get('site', '').startswith('c13:alias'):
        r = spawn({'mode': 'alias', 'descs': [d]})
        return case if ('error' in r or r['result']) else None
    hist = case.get('history') or []
    r = spawn({'mode': 'history', 'descs': hist + [d, d], 'seed': 1, 'mutate': True})
    if 'error' in r:
        return case
    outs = r['result'][len(hist):]
    if any(o != exp for o in outs):
        return dict(case, observed=show([o for o in outs if o != exp][0]), expected=show(exp))
    if case.get('site', '').startswith('c13:threads'):
        plans = [[d] * 20 for _ in range(case.get('threads', 8))]
        for _ in range(3):
            r = spawn({'mode': 'threads', 'nthreads': len(plans), 'plans': plans, 'seed': 1, 'mutate': bool(case.get('mutation'))})
            if 'error' in r or any(outs is None or any(o != exp for o in outs) for outs in r['result']['outs']):
                return case
    return None


if __name__ == '__main__':
    import common
    t = sys.argv[1] if len(sys.argv) > 1 else common.tier()
    res = search(common.seed(), t)
    res['failing'] = res['failing'][:50]
    print(json.dumps(res, indent=1, default=str))
