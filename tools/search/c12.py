"""C12 - derived attributes are total and consistent on valid numbers.

Getters are discovered from the tree: public functions named get_* / info / split whose only required parameter is
`number`, in every number module.  For every number x accepted by validate() under a frozen system date (corpus +
synthesised) each getter is called on the canonical number v = validate(x) and on the raw presentation x:
  total                     the getter returns or raises a ValidationError (never anything else)
  kind                      birth date is a datetime.date (None only where the module documents unknown dates),
                            gender in {'M','F'} (None only for be.bis/be.ssn), info -> dict, split -> tuple/list
                            of str, other get_* -> str
  date-agrees-with-digits   year/month/day of a returned birth date agree with the digits of v as the module
                            documents them (month/day offsets reduced; two-digit years compared modulo 100)
  date-agrees-with-year-month   get_birth_year/get_birth_month (where present) agree with get_birth_date
  split-concatenates        ''.join(split(v)) == v  (ISMN-10 is documented to be split in its 13 digit form)
  presentation-independent  getter(x) and getter(v) give the same answer (both are the same number)
Every getter is called a second time on the canonical number after everything reachable from the first result has
been emptied / overwritten by the caller (lists popped, dictionaries cleared): total, kind and split-concatenates are
statements about every call, also about the second one of the same number (registry lookups that hand out a
cached container, which a caller such as isbn.split then consumes, fail only there).
"""
import copy
import datetime
import inspect
import os
import random
import sys

sys.path.insert(0, os.path.dirname(os.path.abspath(__file__)))
sys.path.insert(0, os.path.dirname(os.path.dirname(os.path.abspath(__file__))))   # tools/
import common  # noqa: E402
import _engine as E  # noqa: E402

PROPERTY = 'C12'

RULE = ('numbers: corpus valid numbers of each module with getters and the length-/letter-extremal valid numbers of common.extremal_numbers(); every getter called twice on the canonical number (the first result consumed by the caller in between) and once with each boolean option flipped; synthesised: every single-position substitution '
        '(digit->each digit, letter->each letter) of base numbers followed by a search for a repairing check '
        'character (reaches century markers, unknown registry prefixes, type markers), date fields set to leap days '
        '(29 Feb in leap and non-leap years), day 00 / month 00, 31st of short months, offset months/days (+20/+40/'
        '+50/+80) and repaired likewise; raw presentations: corpus spelling, format() output, lower case, padded. '
        'Each under the frozen dates 2026-09-26, 2000-01-01, 2024-02-29 (quick) plus 1999-12-31, 2100-03-01, 1970-01-01 '
        '(thorough) for modules that read the clock (one date otherwise). Non-trivial = distinct (module, getter, canonical number, '
        'date) with the number accepted by validate(); every getter evaluation counts as a case.')

DATES = [datetime.date(2026, 9, 26), datetime.date(2000, 1, 1), datetime.date(2024, 2, 29),
         datetime.date(1999, 12, 31), datetime.date(2100, 3, 1), datetime.date(1970, 1, 1)]
DIG = '0123456789'
UP = 'ABCDEFGHIJKLMNOPQRSTUVWXYZ'


def discover():
    """{module name: [getter names]}"""
    res = {}
    for mod in common.number_modules():
        names = []
        for name, f in sorted(vars(mod).items()):
            if not inspect.isfunction(f) or name.startswith('_'):
                continue
            if not (name.startswith('get_') or name in ('info', 'split')):
                continue
            try:
                params = list(inspect.signature(f).parameters.values())
            except (TypeError, ValueError):
                continue
            req = [p for p in params if p.default is inspect.Parameter.empty and
                   p.kind in (p.POSITIONAL_ONLY, p.POSITIONAL_OR_KEYWORD)]
            if len(req) == 1 and req[0].name == 'number' and params[0] is req[0]:
                names.append(name)
        if names:
            res[mod.__name__] = names
    return res


# (year slice, year modulus, month slice, month reduction, day slice, day reduction) on the canonical number
def _spec(y, m, d, ymod=100, mf=None, df=None):
    return (slice(*y), ymod, slice(*m), mf, slice(*d), df)


DATE_SPECS = {
    'stdnum.be.nn': _spec((0, 2), (2, 4), (4, 6), mf=lambda m: m % 20),
    'stdnum.be.bis': _spec((0, 2), (2, 4), (4, 6), mf=lambda m: m % 20),
    'stdnum.be.ssn': _spec((0, 2), (2, 4), (4, 6), mf=lambda m: m % 20),
    'stdnum.bg.egn': _spec((0, 2), (2, 4), (4, 6), mf=lambda m: m % 20),
    'stdnum.cn.ric': _spec((6, 10), (10, 12), (12, 14), ymod=10000),
    'stdnum.cu.ni': _spec((0, 2), (2, 4), (4, 6)),
    'stdnum.cz.rc': _spec((0, 2), (2, 4), (4, 6), mf=lambda m: m % 50 % 20),
    'stdnum.dk.cpr': _spec((4, 6), (2, 4), (0, 2)),
    'stdnum.ee.ik': _spec((1, 3), (3, 5), (5, 7)),
    'stdnum.lt.asmens': _spec((1, 3), (3, 5), (5, 7)),
    'stdnum.gr.amka': _spec((4, 6), (2, 4), (0, 2)),
    'stdnum.id.nik': _spec((10, 12), (8, 10), (6, 8), df=lambda d: d % 40),
    'stdnum.kr.rrn': _spec((0, 2), (2, 4), (4, 6)),
    'stdnum.lv.pvn': _spec((4, 6), (2, 4), (0, 2)),
    'stdnum.mx.curp': _spec((4, 6), (6, 8), (8, 10)),
    'stdnum.my.nric': _spec((0, 2), (2, 4), (4, 6)),
    'stdnum.no.fodselsnummer': _spec((4, 6), (2, 4), (0, 2), mf=lambda m: m - 40 if m > 40 else m,
                                     df=lambda d: d - 40 if d > 40 else d),
    'stdnum.pl.pesel': _spec((0, 2), (2, 4), (4, 6), mf=lambda m: m % 20),
    'stdnum.ro.cnp': _spec((1, 3), (3, 5), (5, 7)),
    'stdnum.si.emso': _spec((4, 7), (2, 4), (0, 2), ymod=1000),
    'stdnum.za.idnr': _spec((0, 2), (2, 4), (4, 6)),
}
NONE_DATE_OK = ('stdnum.be.nn', 'stdnum.be.bis', 'stdnum.be.ssn')
NONE_GENDER_OK = ('stdnum.be.bis', 'stdnum.be.ssn')
_CF_DIGITS = dict((x, n) for n, x in enumerate('0123456789'))
_CF_DIGITS.update(dict((x, n) for n, x in enumerate('LMNPQRSTUV')))


def digits_of(modname, v):
    """(year value, modulus, month, day) encoded in canonical number v, or None if v carries no date / not decodable"""
    try:
        if modname == 'stdnum.it.codicefiscale':
            if len(v) != 16:
                return None
            return (_CF_DIGITS[v[6]] * 10 + _CF_DIGITS[v[7]], 100, 'ABCDEHLMPRST'.index(v[8]) + 1,
                    (_CF_DIGITS[v[9]] * 10 + _CF_DIGITS[v[10]]) % 40)
        if modname == 'stdnum.se.personnummer':
            if len(v) == 13:
                return int(v[0:4]), 10000, int(v[4:6]), int(v[6:8])
            return int(v[0:2]), 100, int(v[2:4]), int(v[4:6])
        spec = DATE_SPECS.get(modname)
        if spec is None:
            return None
        ys, ymod, ms, mf, ds, df = spec
        y, m, d = int(v[ys]), int(v[ms]), int(v[ds])
        return y, ymod, (mf(m) if mf else m), (df(d) if df else d)
    except (ValueError, IndexError, KeyError):
        return None


class Ctx:
    def __init__(self, col):
        self.col, self.found = col, []

    def fail(self, module, function, arg, today, observed, expected, relation, site=None, **extra):
        if site is None:
            site = E.value_site(module, function, relation)
        case = E.mkcase(module, function, [arg], observed, expected, site, relation, today=today, **extra)
        self.found.append(case)
        if self.col is not None:
            self.col.fail(case)

    def tick(self, *labels):
        if self.col is not None:
            self.col.tick(*labels)

    def nontriv(self, key):
        if self.col is not None:
            self.col.nontriv(key)


def kind_ok(modname, fname, value):
    if fname == 'get_birth_date':
        if value is None:
            return modname in NONE_DATE_OK, 'datetime.date' + (' or None' if modname in NONE_DATE_OK else '')
        return isinstance(value, datetime.date) and not isinstance(value, datetime.datetime), 'datetime.date'
    if fname == 'get_gender':
        if value is None:
            return modname in NONE_GENDER_OK, "'M' or 'F'"
        return value in ('M', 'F'), "'M' or 'F'"
    if fname in ('get_birth_year', 'get_birth_month'):
        return value is None or (type(value) is int), 'int or None'
    if fname == 'info' or fname == 'get_birth_place':
        return isinstance(value, dict), 'dict'
    if fname == 'split':
        return isinstance(value, (tuple, list)) and all(isinstance(x, str) for x in value), 'tuple of str'
    return isinstance(value, str), 'str'


_bool_opts = {}


def bool_options(f):
    """[(name, default)] of the boolean keyword options of a getter"""
    if f not in _bool_opts:
        try:
            ps = list(inspect.signature(f).parameters.values())[1:]
        except (TypeError, ValueError):
            ps = []
        _bool_opts[f] = [(p.name, p.default) for p in ps if isinstance(p.default, bool)]
    return _bool_opts[f]


def consume(v, depth=0):
    """what a caller may do with a result: empty every list / dict / set reachable from it (tuples are walked)"""
    if depth > 4:
        return
    try:
        if isinstance(v, dict):
            for x in list(v.values()):
                consume(x, depth + 1)
            v.clear()
        elif isinstance(v, list):
            for x in list(v):
                consume(x, depth + 1)
            del v[:]
        elif isinstance(v, set):
            v.clear()
        elif isinstance(v, tuple):
            for x in v:
                consume(x, depth + 1)
    except Exception:   # noqa: B902
        pass


def check_number(ctx, modname, getters, x, today, enter=True):
    """all C12 relations for one input under one frozen date; returns True when x was valid"""
    mod = common.module(modname)
    with frozen(today, enter):
        vo = E.call(mod.validate, x)
        if vo.kind != 'ok' or not isinstance(vo.value, str):
            return False
        v = vo.value
        results = {}
        for fname in getters:
            f = getattr(mod, fname)
            for label, arg in (('canonical', v), ('raw', x)):
                if label == 'raw' and x == v:
                    continue
                for callno in ((1, 2) if label == 'canonical' else (1,)):
                    out = E.call(f, arg)
                    if callno == 1:
                        results[(fname, label)] = out
                    ctx.tick('getter:%s.%s' % (modname.replace('stdnum.', ''), fname), 'outcome:' + out.kind,
                             'arg:' + label + ('' if callno == 1 else ':second-call'))
                    ctx.nontriv('%s|%s|%s|%s' % (modname, fname, v, today))
                    extra = {'presentation': label}
                    if callno == 2:
                        extra['call'] = 'second call with the same argument, after the first result was consumed by the caller'
                    if out.kind == 'exc':
                        ctx.fail(modname, fname, arg, today, out.show() + ' on a number accepted by validate()',
                                 'a value or a ValidationError', 'total', site=out.site, **extra)
                        break
                    if out.kind != 'ok':
                        break
                    ok, want = kind_ok(modname, fname, out.value)
                    if not ok:
                        ctx.fail(modname, fname, arg, today, out.show(), want, 'kind', **extra)
                        break
                    if fname == 'get_birth_date' and out.value is not None and callno == 1:
                        dg = digits_of(modname, v)
                        if dg is not None:
                            y, ymod, m, d = dg
                            got = out.value
                            if (got.year % ymod, got.month, got.day) != (y % ymod, m, d):
                                ctx.fail(modname, fname, arg, today, '%s for digits year=%s month=%s day=%s of %r' % (got.isoformat(), y, m, d, v),
                                         'a date with those digits', 'date-agrees-with-digits', **extra)
                    if fname == 'split':
                        joined = ''.join(out.value)
                        alt = [v]
                        if modname == 'stdnum.ismn' and len(v) == 10:
                            alt.append('9790' + v[1:])
                        if joined not in alt:
                            ctx.fail(modname, fname, arg, today, 'parts %r concatenate to %r' % (tuple(out.value), joined),
                                     'the canonical number %r' % v, 'split-concatenates', **extra)
                    if callno == 1 and isinstance(out.value, (dict, list, set, tuple)):
                        try:        # keep an independent copy for the comparisons below, then consume the original
                            results[(fname, label)] = E.Out(('ok', copy.deepcopy(out.value)))
                        except Exception:   # noqa: B902
                            break
                        consume(out.value)
            # boolean keyword options of the getter, flipped: total and kind hold under every option value
            for oname, odefault in bool_options(f):
                okw = {oname: not odefault}
                out = E.call(f, v, **okw)
                ctx.tick('getter:%s.%s' % (modname.replace('stdnum.', ''), fname), 'outcome:' + out.kind, 'arg:option')
                if out.kind == 'exc':
                    ctx.fail(modname, fname, v, today, out.show() + ' on a number accepted by validate() with %s=%r' % (oname, okw[oname]),
                             'a value or a ValidationError', 'total', site=out.site, kwargs_plain=okw)
                elif out.kind == 'ok':
                    ok, want = kind_ok(modname, fname, out.value)
                    if not ok:
                        ctx.fail(modname, fname, v, today, out.show() + ' with %s=%r' % (oname, okw[oname]), want, 'kind',
                                 site=E.value_site(modname, fname, 'kind[%s=%r]' % (oname, okw[oname])), kwargs_plain=okw)
            a, b = results.get((fname, 'canonical')), results.get((fname, 'raw'))
            if a is not None and b is not None and a.kind != 'exc' and b.kind != 'exc':
                ctx.tick('relation:presentation-independent')
                if (a.kind, a.value if a.kind == 'ok' else None) != (b.kind, b.value if b.kind == 'ok' else None):
                    ctx.fail(modname, fname, x, today, 'on the raw number %s; on the canonical number %r %s' % (b.show(), v, a.show()),
                             'the same answer', 'presentation-independent')
        # date vs year/month
        for label in ('canonical', 'raw'):
            d = results.get(('get_birth_date', label))
            if d is None or d.kind != 'ok':
                continue
            for fname, attr in (('get_birth_year', 'year'), ('get_birth_month', 'month')):
                o = results.get((fname, label))
                if o is None or o.kind != 'ok':
                    continue
                ctx.tick('relation:date-agrees-with-year-month')
                if d.value is not None and getattr(d.value, attr) != o.value:
                    ctx.fail(modname, fname, v if label == 'canonical' else x, today,
                             '%s returns %r but get_birth_date returns %s' % (fname, o.value, d.value.isoformat()),
                             'agreement', 'date-agrees-with-year-month', presentation=label)
    return True


# ----------------------------------------------------------------------------- synthesis

class _Null:
    def __enter__(self):
        return self

    def __exit__(self, *a):
        return False


def frozen(today, enter=True):
    """frozen_today walks over all loaded modules; workers enter it once per date instead of once per call"""
    return common.frozen_today(today) if (enter and today is not None) else _Null()


def is_valid_on(mod, s, today, enter=True):
    with frozen(today, enter):
        return E.call(mod.validate, s).kind == 'ok'


class Budget:
    """deterministic cap on the number of validate() calls spent on synthesis per base number"""

    def __init__(self, n):
        self.n = n

    def spend(self):
        self.n -= 1
        return self.n >= 0


def repair(mod, s, locked, today, enter=True, budget=None):
    """s if valid, else s with one (or the last two) unlocked characters replaced so that validate() accepts"""
    budget = budget or Budget(400)
    with frozen(today, enter):
        if not budget.spend():
            return None
        if E.call(mod.validate, s).kind == 'ok':
            return s
        free = [j for j in range(len(s) - 1, -1, -1) if j not in locked and s[j].isalnum()]
        for j in free[:4]:
            alpha = DIG if s[j].isdigit() else UP + DIG
            for ch in alpha:
                if not budget.spend():
                    return None
                t = s[:j] + ch + s[j + 1:]
                if E.call(mod.validate, t).kind == 'ok':
                    return t
        if len(free) >= 2 and s[free[0]].isdigit() and s[free[1]].isdigit():
            i, j = free[1], free[0]
            for a in DIG:
                for b in DIG:
                    if not budget.spend():
                        return None
                    t = s[:i] + a + s[i + 1:]
                    t = t[:j] + b + t[j + 1:]
                    if E.call(mod.validate, t).kind == 'ok':
                        return t
    return None


DATE_TRIPLES = [('00', '02', '29'), ('01', '02', '29'), ('04', '02', '29'), ('99', '02', '29'), ('96', '02', '29'),
                ('00', '00', '00'), ('50', '00', '15'), ('50', '06', '00'), ('50', '04', '31'), ('99', '12', '31'),
                ('00', '01', '01'), ('68', '01', '01'), ('69', '12', '31'), ('27', '01', '01'), ('26', '09', '26'),
                ('26', '09', '27'), ('70', '01', '01'), ('53', '12', '31'), ('54', '01', '01'), ('85', '01', '01')]
MONTH_OFFSETS = [0, 20, 40, 50, 70, 80]
DAY_OFFSETS = [0, 40]


SLOW_VALIDATE = {'stdnum.mac': 12, 'stdnum.gs1_128': 6}     # divisor of the call budget (registry scans per validate)


def synth(rng, modname, base, today, budget, enter=True):
    """candidate valid numbers near canonical base number"""
    mod = common.module(modname)
    out, seen = [], set()
    calls = Budget(budget * 25 // SLOW_VALIDATE.get(modname, 1))

    def add(s, locked):
        if s in seen or len(out) >= budget or calls.n <= 0:
            return
        seen.add(s)
        r = repair(mod, s, locked, today, enter, calls)
        if r is not None and r not in out:
            out.append(r)
    def substitutions():
        positions = list(range(len(base)))
        rng.shuffle(positions)
        for i in positions:
            ch = base[i]
            alpha = DIG if ch.isdigit() else UP if ch.isalpha() else ''
            for c in alpha:
                if c != ch:
                    add(base[:i] + c + base[i + 1:], {i})
    spec = DATE_SPECS.get(modname)
    if spec is None:
        substitutions()
        return out
    # the date fields first, on a budget of their own (repairing check digits after every substitution used to eat
    # the whole allowance before an edge date was tried), then the substitutions on what is left
    calls_subst, calls = calls, Budget(budget * 25 // SLOW_VALIDATE.get(modname, 1))
    budget_dates = budget
    budget = budget * 2
    if spec is not None and all(c.isdigit() for c in base[spec[0]] + base[spec[2]] + base[spec[4]]):
        ys, ymod, ms, mf, ds, df = spec
        locked = set(range(*ys.indices(len(base)))) | set(range(*ms.indices(len(base)))) | set(range(*ds.indices(len(base))))
        for yy, mm, dd in DATE_TRIPLES:
            for mo in MONTH_OFFSETS:
                for do in DAY_OFFSETS:
                    if (mo or do) and rng.random() < 0.6:
                        continue
                    s = list(base)
                    ylen = ys.stop - ys.start
                    ytxt = (base[ys][:ylen - 2] + yy) if ylen >= 2 else yy[-ylen:]
                    if ylen == 4 and rng.random() < 0.5:
                        ytxt = rng.choice(['19', '20', '18']) + yy
                    if ylen == 3:
                        ytxt = rng.choice(['9', '0']) + yy
                    s[ys] = list(ytxt)
                    s[ms] = list('%02d' % ((int(mm) + mo) % 100))
                    s[ds] = list('%02d' % ((int(dd) + do) % 100))
                    if len(out) < budget_dates:
                        add(''.join(s), locked)
    calls = calls_subst
    substitutions()
    return out


def presentations(rng, mod, v):
    res = [v]
    if hasattr(mod, 'format'):
        f = E.call(mod.format, v)
        if f.kind == 'ok' and isinstance(f.value, str):
            res.append(f.value)
    res.extend([' ' + v + ' ', v.lower(), ' '.join(v[i:i + 3] for i in range(0, len(v), 3)),
                '-'.join(v[i:i + 4] for i in range(0, len(v), 4))])
    return res


def clock_module(modname):
    try:
        src = inspect.getsource(common.module(modname))
    except (OSError, TypeError):
        return True
    return 'today()' in src or 'now()' in src or modname in ('stdnum.be.bis', 'stdnum.be.ssn', 'stdnum.lt.asmens')


def extra_inputs(modname):
    """hand-picked accepted-but-unusual numbers"""
    if modname == 'stdnum.imsi':
        return ['310999123456789', '001999123456789', '99999123456789', '204999123456789', '31015012345678']
    if modname == 'stdnum.mac':
        return ['02:00:00:00:00:00', '06:12:34:56:78:9a', 'fe:54:00:76:07:0a', '00:50:c2:ff:f0:00', '70:b3:d5:ff:ff:ff',
                '00-1b-c5-0f-f0-00', '2:0:0:0:0:1']
    if modname == 'stdnum.isbn':
        return ['9786119999992', '9799999999990', '9789999999991', '6119999993', '978-611-99999-9-2']
    if modname == 'stdnum.it.codicefiscale':
        return ['00743110157', 'RCCMNL83S18D969H', 'RCCMNL83S1UD969D', 'RCCMNLUPSMUDVSVC']
    if modname == 'stdnum.lt.asmens':
        return ['99999999990']
    return []


def _one_date(ctx, col, rng, seed, modname, mod, getters, corpus, today, chunk, nchunks, nbases, budget):
    """runs inside frozen_today(today)"""
    valid_seen = 0
    inputs = []
    if chunk == 0:
        inputs.extend(corpus)
        for x in extra_inputs(modname):
            r = repair(mod, x, set(), today, False)
            if r:
                inputs.append(r)
    canon = []
    for x in corpus:
        o = E.call(mod.validate, x)
        if o.kind == 'ok' and isinstance(o.value, str) and o.value not in canon:
            canon.append(o.value)
    rng2 = random.Random('%s/%s/%d/%s' % (seed, modname, chunk, today))
    rng2.shuffle(canon)
    # distinct lengths / shapes first
    bases, shapes = [], set()
    for c in canon:
        shape = (len(c), ''.join('9' if ch.isdigit() else 'A' if ch.isalpha() else ch for ch in c))
        if shape not in shapes:
            shapes.add(shape)
            bases.append(c)
    for c in canon:
        if c not in bases:
            bases.append(c)
    bases = bases[chunk::nchunks][:nbases]
    for b in bases:
        syn = synth(rng2, modname, b, today, budget, False)
        inputs.extend(syn)
        col.count('synthesised:' + modname.replace('stdnum.', ''), len(syn))
        for s in syn[:: max(1, len(syn) // 12)]:
            inputs.extend(presentations(rng2, mod, s)[1:])
    seen = set()
    for x in inputs:
        if x in seen:
            continue
        seen.add(x)
        if check_number(ctx, modname, getters, x, today, False):
            valid_seen += 1
            if len(col.samples) < 1 and chunk == 0:
                col.sample({'module': modname, 'input': x, 'today': today.isoformat() if today else None,
                            'getters': dict((g, E.call(getattr(mod, g), x).show()) for g in getters)})
    return valid_seen


def _worker(task):
    seed, tier, modname, getters, chunk, nchunks = task
    rng = random.Random('%s/%s/%d' % (seed, modname, chunk))
    col = E.Collector()
    ctx = Ctx(col)
    mod = common.module(modname)
    quick = tier == 'quick'
    corpus = list(common.valid_numbers(modname)) + extra_inputs(modname) + list(common.extremal_numbers(modname))
    # candidates that only need a check character (hand-picked ones may be off by the check digit)
    # modules that never read the clock are not frozen at all (frozen_today swaps the module's datetime, which
    # changes isinstance(x, datetime.date) inside e.g. gs1_128 - a harness artefact, not library behaviour)
    dates = (DATES[:3] if quick else DATES) if clock_module(modname) else [None]
    nbases = (2 if quick else 4)
    budget = (350 if quick else 800)     # enough for EVERY single-position substitution of an 18-character number per base
    valid_seen = 0
    for today in dates:
        with frozen(today):
            valid_seen += _one_date(ctx, col, rng, seed, modname, mod, getters, corpus, today, chunk, nchunks, nbases, budget)
    col.count('valid-inputs:' + modname.replace('stdnum.', ''), valid_seen)
    return col.dump()


def search(seed, tier):
    getters = discover()
    tasks = []
    nchunks = 1 if tier == 'quick' else 2
    for modname in sorted(getters):
        for chunk in range(nchunks):
            tasks.append((seed, tier, modname, getters[modname], chunk, nchunks))
    col = E.Collector()
    for d in E.pmap(_worker, tasks):
        col.merge(d)
    return col.result(RULE, getters=sum(len(v) for v in getters.values()), modules=len(getters))


def replay(case):
    getters = discover()
    modname = case['module']
    if modname not in getters:
        return None
    ctx = Ctx(None)
    x = common.rebuild(case['args'][0])
    today = datetime.date.fromisoformat(case['today']) if case.get('today') else None
    check_number(ctx, modname, getters[modname], x, today)
    same = [c for c in ctx.found if c['function'] == case['function'] and c['relation'] == case.get('relation')]
    found = same or [c for c in ctx.found if c['function'] == case['function']]
    return found[0] if found else None


if __name__ == '__main__':
    E.main(sys.modules[__name__])
