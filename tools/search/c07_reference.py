"""Independent transcription of the PUBLISHED validation rules of the 20 international identifiers of C07.

Nothing here calls the stdnum implementation of the same check.  Shared with stdnum, on purpose:
  * `stdnum.util.clean` (input canonicalisation: its correctness is a different property), together with the
    separator set, `.strip()` and the case mapping that each module documents in its `compact()`;
  * raw DATA tables where the standard itself is a table: the ISO 3166 / ISIN / ISRC country code lists and the
    SWIFT IBAN registry (stdnum/iban.dat, read by the parser below, not by stdnum.numdb).

`reference(module_name, string, **options)` returns the canonical form or None;
`explain(module_name, string, **options)` returns (canonical, None) or (None, reason).

Sources transcribed (rule -> function):
  ISBN      ISO 2108 / ISBN Users' Manual: ISBN-10 weights 10..2 mod 11 with X; ISBN-13 = GS1 prefix 978|979 +
            GS1 mod 10; a 9 digit SBN is an ISBN-10 without its leading 0.
  EAN/GTIN  GS1 General Specifications 7.9: GTIN-8/12/13/14, weights 3,1 from the right, total = 0 mod 10.
  ISSN      ISO 3297: 7 digits, weights 8..2, check = 11 - (sum mod 11), 10 -> X, 11 -> 0.
  ISMN      ISO 10957: 'M' + 8 digits + check (old) or 979-0 + 8 digits + check; GS1 mod 10 with M = 979-0.
  ISIN      ISO 6166: 2 letter prefix (table), 9 alphanumerics, 1 decimal check digit; letters -> 10..35, Luhn.
  IBAN      ISO 13616 / SWIFT registry: country, 2 decimal check digits, BBAN structure n/a/c, mod 97 = 1.
  IMEI      3GPP TS 23.003: 14 digits (no check), 15 digits (Luhn), 16 digits IMEISV (no check).
  ISO11649  'RF' + 2 decimal check digits + 1..21 alphanumerics, mod 97 = 1 after moving RFnn to the end.
  ISNI      ISO 27729: 16 characters, 15 digits + check (0-9, X), ISO 7064 MOD 11-2.
  LEI       ISO 17442: 20 characters, 18 alphanumerics + 2 decimal check digits, ISO 7064 MOD 97-10.
  GRid      IFPI GRid standard v2.1: 18 alphanumerics 'A1' + 5 + 10 + check, ISO 7064 MOD 37,36.
  CUSIP     ANSI X9.6: 8 characters (0-9 A-Z * @ #) + decimal check, "modulus 10 double add double".
  SEDOL     LSE: 6 characters + decimal check, weights 1,3,1,7,3,9,1; never vowels; since 2004 first character a
            letter, before that all seven characters numeric.
  FIGI      OMG FIGI: 2 upper case consonants (not BS BM GG GB GH KY VG) + 'G' + 8 consonants/digits + check
            (modulus 10 double add double over positions 1..11, letters A=10..Z=35).
  IMO       IMO resolution A.1078(28): 7 digits, sum of first six x (7..2), last digit of the sum is the check.
  CAS RN    CAS: 2..7 digits - 2 digits - check; check = sum(i * digit i from the right) mod 10; no leading zero.
  BIC       ISO 9362: 4 letters, 2 letter ISO 3166 country code, 2 alphanumerics, optional 3 alphanumerics.
  ISRC      ISO 3901: 2 letter prefix (table), 3 alphanumerics, 2 digit year, 5 digit designation.
  Bitcoin   Base58Check (version 0x00 P2PKH / 0x05 P2SH, 20 byte hash, first 4 bytes of SHA256(SHA256())),
            BIP-173 Bech32 + segwit address rules (hrp 'bc', no mixed case, <= 90 characters, witness version
            0..16, program 2..40 bytes, version 0: 20 or 32 bytes, zero padding of < 5 bits).
"""
import hashlib
import os
import re

D = '0123456789'
U = 'ABCDEFGHIJKLMNOPQRSTUVWXYZ'
AN = D + U


class Reject(Exception):
    pass


def _canon(s, delete, case='upper'):
    from stdnum.exceptions import ValidationError
    from stdnum.util import clean
    if not isinstance(s, str):
        raise Reject('not-a-string')
    if s.isascii() and s.isalnum():
        t = s              # fast path: clean() only deletes separators and maps non-ASCII punctuation
    else:
        try:
            t = clean(s, delete).strip()
        except ValidationError:
            raise Reject('not-cleanable')
    if case == 'upper':
        t = t.upper()
    # every one of these identifiers is defined over ASCII letters, digits and a few ASCII symbols
    if not t.isascii():
        raise Reject('non-ascii-character')
    return t


def _need(cond, reason):
    if not cond:
        raise Reject(reason)


def _all_in(s, alphabet):
    for c in s:
        if c not in alphabet:
            return False
    return True


def _digits(s):
    return len(s) > 0 and _all_in(s, D)


def _val36(c):
    """0-9 -> 0..9, A-Z -> 10..35"""
    return AN.index(c)


# ----------------------------------------------------------------------------- generic algorithms (own code)

def gs1_ok(digits):
    """GS1: weights 3,1,3,... starting at the digit left of the check digit; the total incl. check = 0 mod 10"""
    total = 0
    for k, c in enumerate(digits[::-1]):
        total += int(c) * (1 if k % 2 == 0 else 3)
    return total % 10 == 0


def luhn_ok(digits):
    total = 0
    for k, c in enumerate(digits[::-1]):
        d = int(c)
        if k % 2 == 1:
            d *= 2
            if d > 9:
                d -= 9
        total += d
    return total % 10 == 0


def mod97(s):
    """remainder mod 97 of the number obtained by replacing A..Z by 10..35"""
    r = 0
    for c in s:
        v = _val36(c)
        r = (r * 10 + v) % 97 if v < 10 else (r * 100 + v) % 97
    return r


def mod11_2_check(digits):
    """ISO 7064 MOD 11-2 check character for a digit string"""
    p = 0
    for c in digits:
        p = ((p + int(c)) * 2) % 11
    r = (12 - p) % 11
    return 'X' if r == 10 else str(r)


def mod37_36_ok(s):
    """ISO 7064 MOD 37,36 (hybrid): P1 = 36; Sj = Pj + aj; P(j+1) = 2 * (Sj ||36) mod 37; valid iff Sn = 1 mod 36"""
    p = 36
    sj = None
    for c in s:
        sj = (p + _val36(c)) % 36
        p = ((sj or 36) * 2) % 37
    return sj == 1


def double_add_double(values):
    """modulus 10 double add double: every second value (2nd, 4th, ...) doubled, digits of each product added"""
    total = 0
    for k, v in enumerate(values):
        if k % 2 == 1:
            v *= 2
        total += v // 10 + v % 10
    return (10 - total % 10) % 10


# ----------------------------------------------------------------------------- the formats

def ref_isbn(s):
    t = _canon(s, ' -')
    if len(t) == 9:            # SBN
        t = '0' + t
    if len(t) == 10:
        _need(_digits(t[:9]), 'alphabet')
        _need(t[9] in D + 'X', 'check-character-alphabet')
        total = sum((10 - i) * int(c) for i, c in enumerate(t[:9])) + (10 if t[9] == 'X' else int(t[9]))
        _need(total % 11 == 0, 'checksum')
        return t
    _need(len(t) == 13, 'length')
    _need(_digits(t), 'alphabet')
    _need(t[:3] in ('978', '979'), 'prefix')
    _need(gs1_ok(t), 'checksum')
    return t


def ref_ean(s):
    t = _canon(s, ' -', case=None)
    _need(_digits(t), 'alphabet')
    _need(len(t) in (8, 12, 13, 14), 'length')
    _need(gs1_ok(t), 'checksum')
    return t


def ref_issn(s):
    t = _canon(s, ' -')
    _need(len(t) == 8, 'length')
    _need(_digits(t[:7]), 'alphabet')
    _need(t[7] in D + 'X', 'check-character-alphabet')
    r = 11 - sum((8 - i) * int(c) for i, c in enumerate(t[:7])) % 11
    chk = '0' if r == 11 else 'X' if r == 10 else str(r)
    _need(t[7] == chk, 'checksum')
    return t


def ref_ismn(s):
    t = _canon(s, ' -.')
    if len(t) == 10:
        _need(t[0] == 'M', 'prefix')
        _need(_digits(t[1:]), 'alphabet')
        _need(gs1_ok('9790' + t[1:]), 'checksum')
        return t
    _need(len(t) == 13, 'length')
    _need(_digits(t), 'alphabet')
    _need(t[:4] == '9790', 'prefix')
    _need(gs1_ok(t), 'checksum')
    return t


def ref_isin(s):
    from stdnum.isin import _country_codes   # DATA: ISO 3166 + the special ISIN prefixes listed by the module
    t = _canon(s, ' ')
    _need(len(t) == 12, 'length')
    _need(_all_in(t[:2], U) and _all_in(t[2:11], AN) and t[11] in D, 'alphabet')
    _need(t[:2] in _country_codes, 'country')
    _need(luhn_ok(''.join(str(_val36(c)) for c in t)), 'checksum')
    return t


_iban_registry = None


def iban_registry():
    """{country: [(count, class), ...]} parsed from stdnum/iban.dat by this module's own parser"""
    global _iban_registry
    if _iban_registry is None:
        import stdnum
        reg = {}
        with open(os.path.join(os.path.dirname(stdnum.__file__), 'iban.dat'), encoding='utf-8') as f:
            for line in f:
                line = line.strip()
                if not line or line.startswith('#'):
                    continue
                cc = line.split(None, 1)[0]
                m = re.search(r'\bbban="([^"]*)"', line)
                if not (len(cc) == 2 and _all_in(cc, U) and m):
                    raise ValueError('iban.dat: cannot read %r' % line)
                toks = re.findall(r'([1-9][0-9]*)!([nac])', m.group(1))
                if ''.join('%s!%s' % t for t in toks) != m.group(1):
                    raise ValueError('iban.dat: unknown structure %r' % line)
                reg[cc] = [(int(n), k) for n, k in toks]
        _iban_registry = reg
    return _iban_registry


def ref_iban(s):
    t = _canon(s, ' -.')
    reg = iban_registry()
    _need(len(t) >= 4, 'length')
    _need(t[:2] in reg, 'country')
    _need(_digits(t[2:4]), 'check-digits-not-numeric')
    struct = reg[t[:2]]
    _need(len(t) == 4 + sum(n for n, _ in struct), 'length')
    pos = 4
    for n, kind in struct:
        _need(_all_in(t[pos:pos + n], {'n': D, 'a': U, 'c': AN}[kind]), 'bban-structure')
        pos += n
    _need(mod97(t[4:] + t[:4]) == 1, 'checksum')
    return t


def ref_imei(s):
    t = _canon(s, ' -')
    _need(_digits(t), 'alphabet')
    _need(len(t) in (14, 15, 16), 'length')
    if len(t) == 15:
        _need(luhn_ok(t), 'checksum')
    return t


def ref_iso11649(s):
    t = _canon(s, ' -.,/:')
    _need(5 <= len(t) <= 25, 'length')
    _need(t[:2] == 'RF', 'prefix')
    _need(_digits(t[2:4]), 'check-digits-not-numeric')
    _need(_all_in(t[4:], AN), 'alphabet')
    _need(mod97(t[4:] + t[:4]) == 1, 'checksum')
    return t


def ref_isni(s):
    t = _canon(s, ' -')
    _need(len(t) == 16, 'length')
    _need(_digits(t[:15]), 'alphabet')
    _need(t[15] in D + 'X', 'check-character-alphabet')
    _need(mod11_2_check(t[:15]) == t[15], 'checksum')
    return t


def ref_lei(s):
    t = _canon(s, ' -')
    _need(len(t) == 20, 'length')
    _need(_all_in(t[:18], AN), 'alphabet')
    _need(_digits(t[18:]), 'check-digits-not-numeric')
    _need(mod97(t) == 1, 'checksum')
    return t


def ref_grid(s):
    t = _canon(s, ' -')
    if t[:5] == 'GRID:':
        t = t[5:]
    _need(len(t) == 18, 'length')
    _need(_all_in(t, AN), 'alphabet')
    _need(mod37_36_ok(t), 'checksum')
    _need(t[:2] == 'A1', 'identifier-scheme-not-A1')
    return t


def ref_cusip(s):
    t = _canon(s, ' ')
    _need(len(t) == 9, 'length')
    alpha = AN + '*@#'
    _need(_all_in(t[:8], alpha) and t[8] in D, 'alphabet')
    _need(double_add_double([alpha.index(c) for c in t[:8]]) == int(t[8]), 'checksum')
    return t


def ref_sedol(s):
    t = _canon(s, ' ')
    _need(len(t) == 7, 'length')
    cons = 'BCDFGHJKLMNPQRSTVWXYZ'
    _need(_all_in(t[:6], D + cons) and t[6] in D, 'alphabet')
    if t[0] in D:
        _need(_digits(t), 'old-style-not-numeric')
    total = sum(w * _val36(c) for w, c in zip((1, 3, 1, 7, 3, 9, 1), t))
    _need(total % 10 == 0, 'checksum')
    return t


def ref_figi(s):
    t = _canon(s, ' ')
    _need(len(t) == 12, 'length')
    cons = 'BCDFGHJKLMNPQRSTVWXYZ'
    _need(_all_in(t[:2], cons) and _all_in(t[2:11], D + cons) and t[11] in D, 'alphabet')
    _need(t[:2] not in ('BS', 'BM', 'GG', 'GB', 'GH', 'KY', 'VG'), 'reserved-prefix')
    _need(t[2] == 'G', 'third-character-not-G')
    _need(double_add_double([_val36(c) for c in t[:11]]) == int(t[11]), 'checksum')
    return t


def ref_imo(s):
    t = _canon(s, ' ')
    if t[:3] == 'IMO':
        t = t[3:]
    _need(_digits(t), 'alphabet')
    _need(len(t) == 7, 'length')
    _need(sum(int(c) * w for c, w in zip(t, (7, 6, 5, 4, 3, 2))) % 10 == int(t[6]), 'checksum')
    return t


def ref_casrn(s):
    t = _canon(s, ' ', case=None)
    if '-' not in t:
        t = t[:-3] + '-' + t[-3:-1] + '-' + t[-1:]
    parts = t.split('-')
    _need(len(parts) == 3, 'format')
    a, b, c = parts
    _need(2 <= len(a) <= 7 and len(b) == 2 and len(c) == 1, 'length' if _digits(a + b + c) else 'format')
    _need(_digits(a) and _digits(b) and _digits(c), 'format')
    _need(a[0] != '0', 'leading-zero')
    _need(sum(k * int(d) for k, d in enumerate((a + b)[::-1], 1)) % 10 == int(c), 'checksum')
    return t


def iso3166():
    from stdnum.isin import _iso_3116_1_country_codes   # DATA
    return set(_iso_3116_1_country_codes) | {'XK'}


def ref_bic(s, country_table=True):
    t = _canon(s, ' -')
    _need(len(t) in (8, 11), 'length')
    _need(_all_in(t[:6], U) and _all_in(t[6:], AN), 'alphabet')
    if country_table:
        _need(t[4:6] in iso3166(), 'country-not-in-iso3166')
    return t


def ref_isrc(s):
    from stdnum.isrc import _country_codes   # DATA: ISO 3166 + the special ISRC prefixes listed by the module
    t = _canon(s, ' -')
    _need(len(t) == 12, 'length')
    _need(_all_in(t[:2], U) and _all_in(t[2:5], AN) and _digits(t[5:]), 'alphabet')
    _need(t[:2] in _country_codes, 'country')
    return t


B58 = '123456789ABCDEFGHJKLMNPQRSTUVWXYZabcdefghijkmnopqrstuvwxyz'
B32 = 'qpzry9x8gf2tvdw0s3jn54khce6mua7l'


def b58_decode(t):
    n = 0
    for c in t:
        n = n * 58 + B58.index(c)
    body = n.to_bytes((n.bit_length() + 7) // 8, 'big')
    zeros = len(t) - len(t.lstrip('1'))
    return b'\x00' * zeros + body


def b58check_encode(payload):
    raw = payload + hashlib.sha256(hashlib.sha256(payload).digest()).digest()[:4]
    n = int.from_bytes(raw, 'big')
    out = ''
    while n:
        n, r = divmod(n, 58)
        out = B58[r] + out
    return '1' * (len(raw) - len(raw.lstrip(b'\x00'))) + out


def bech32_polymod(values):
    gen = (0x3b6a57b2, 0x26508e6d, 0x1ea119fa, 0x3d4233dd, 0x2a1462b3)
    chk = 1
    for v in values:
        b = chk >> 25
        chk = ((chk & 0x1ffffff) << 5) ^ v
        for i in range(5):
            if (b >> i) & 1:
                chk ^= gen[i]
    return chk


def bech32_hrp_expand(hrp):
    return [ord(c) >> 5 for c in hrp] + [0] + [ord(c) & 31 for c in hrp]


def bech32_encode(hrp, data, const=1):
    pm = bech32_polymod(bech32_hrp_expand(hrp) + list(data) + [0] * 6) ^ const
    return hrp + '1' + ''.join(B32[d] for d in list(data) + [(pm >> 5 * (5 - i)) & 31 for i in range(6)])


def convertbits(data, frm, to, pad):
    acc = bits = 0
    out = []
    maxv = (1 << to) - 1
    for v in data:
        acc = (acc << frm) | v
        bits += frm
        while bits >= to:
            bits -= to
            out.append((acc >> bits) & maxv)
        acc &= (1 << bits) - 1
    if pad:
        if bits:
            out.append((acc << (to - bits)) & maxv)
    elif bits >= frm or acc:
        return None
    return out


def ref_bitcoin(s):
    t = _canon(s, ' ', case=None)
    if t[:1] in ('1', '3'):
        _need(_all_in(t, B58), 'alphabet')
        raw = b58_decode(t)
        _need(len(raw) == 25, 'length')
        _need(hashlib.sha256(hashlib.sha256(raw[:21]).digest()).digest()[:4] == raw[21:], 'checksum')
        _need(raw[0] in (0, 5), 'version-byte-not-00-or-05')
        return t
    _need(t[:3].lower() == 'bc1', 'prefix')
    _need(not (any(c.isupper() for c in t) and any(c.islower() for c in t)), 'bech32-mixed-case')
    t = t.lower()
    _need(len(t) <= 90, 'length')
    pos = t.rfind('1')
    hrp, data = t[:pos], t[pos + 1:]
    _need(hrp == 'bc', 'prefix')
    _need(_all_in(data, B32), 'alphabet')
    _need(len(data) >= 6, 'length')
    values = [B32.index(c) for c in data]
    _need(bech32_polymod(bech32_hrp_expand(hrp) + values) == 1, 'checksum')
    values = values[:-6]
    _need(len(values) >= 1, 'length')
    _need(values[0] <= 16, 'witness-version')
    prog = convertbits(values[1:], 5, 8, False)
    _need(prog is not None, 'padding')
    _need(2 <= len(prog) <= 40, 'program-length')
    if values[0] == 0:
        _need(len(prog) in (20, 32), 'program-length')
    return t


REFERENCES = {
    'stdnum.isbn': ref_isbn, 'stdnum.ean': ref_ean, 'stdnum.issn': ref_issn, 'stdnum.ismn': ref_ismn,
    'stdnum.isin': ref_isin, 'stdnum.iban': ref_iban, 'stdnum.imei': ref_imei, 'stdnum.iso11649': ref_iso11649,
    'stdnum.isni': ref_isni, 'stdnum.lei': ref_lei, 'stdnum.grid': ref_grid, 'stdnum.cusip': ref_cusip,
    'stdnum.gb.sedol': ref_sedol, 'stdnum.figi': ref_figi, 'stdnum.imo': ref_imo, 'stdnum.casrn': ref_casrn,
    'stdnum.bic': ref_bic, 'stdnum.isrc': ref_isrc, 'stdnum.bitcoin': ref_bitcoin,
}


def explain(modname, s, **options):
    try:
        return REFERENCES[modname](s, **options), None
    except Reject as e:
        return None, e.args[0]


def reference(modname, s, **options):
    return explain(modname, s, **options)[0]
