"""C03 - validation outcome depends only on the compact form of the input.  Failing-input search, real code."""
import os
import sys
import time

sys.path.insert(0, os.path.dirname(os.path.dirname(os.path.abspath(__file__))))   # tools/
sys.path.insert(0, os.path.dirname(os.path.abspath(__file__)))
import common   # noqa: E402
import _modgen as G   # noqa: E402

PROPERTY = 'C03'

EXCLUDED = ['stdnum.isan', 'stdnum.meid', 'stdnum.us.ssn', 'stdnum.us.itin', 'stdnum.us.ein', 'stdnum.us.atin',
            'stdnum.us.tin']     # named in the property statement

RULE = (
    'per module exposing compact() except the seven named in the property (isan, meid, us.ssn/itin/ein/atin/tin): '
    'x ranges over corpus valid numbers (as written and in compact form), further valid numbers (one per row of the '
    'module-level tables, self-similar numbers, length-/letter-extremal numbers, numbers whose body begins with a prefix the module strips or carries), near-misses (common.mutations, single '
    'digit changes), and garbage (corpus invalid strings, random strings); y = x decorated with candidate '
    'characters that compact() may remove or fold (every ASCII separator and whitespace character of '
    'common.SEPARATORS/WHITESPACE at every position, every key of stdnum.util._char_map inserted / substituted '
    'for its ASCII value, case flips, country-prefix variants, surrounding whitespace).  Only pairs with '
    'compact(x) == compact(y), both computed without error (default arguments), are kept (that is how the '
    'decorations a module really folds are discovered).  Predicate: class(validate(x)) == class(validate(y)) where '
    'class = ("ok", value) if validate returns else ("rej",) - any exception (ValidationError subclass or not) '
    'is "rejected", the subclass is not compared.  Also with every validate keyword option set (same on both '
    'sides).  site = <file>:validate:<kind>[<decoration class>].  ' + G.NONTRIVIAL_RULE +
    ' (an input here is the pair (x, y); its outcome class is that of y).')

PARAMS = {
    'quick': dict(full=0, dense=4, light=40, near=4, near_level=0, garbage=12, opt_pairs=60),
    'thorough': dict(full=6, dense=24, light=400, near=24, near_level=1, garbage=50, opt_pairs=300),
}
EXPECT = 'compact(x) == compact(y)  =>  validate(x), validate(y) both rejected or both accepted with the same value'


_WS_LABELS = None


def site_label(lab):
    """decoration family used in the site (not the character, not the position): which concrete separator or
    look-alike exposes a root cause varies from seed to seed, the family does not.  Everything that adds characters
    the clean-up removes - inserted separators / white space / look-alikes, surrounding white space, re-grouping -
    is one family."""
    p = lab.split(':')
    if p[0] in ('ws', 'insert', 'spread'):
        return 'insert'
    return p[0]


def _compare(mod, x, y, kw):
    """-> None if the pair is not comparable (compact differs / raises) else (ox, oy, kind or None)"""
    ox = G.call(mod, 'validate', mod.validate, (x,), kw)
    oy = G.call(mod, 'validate', mod.validate, (y,), kw)
    cx, cy = G.accepted_class(ox), G.accepted_class(oy)
    if cx == cy:
        return ox, oy, None
    if cx[0] == 'ok' and cy[0] == 'ok':
        kind = 'different_values'
    elif cx[0] == 'ok':
        kind = 'x_accepted_y_rejected'
    else:
        kind = 'x_rejected_y_accepted'
    return ox, oy, kind


def _descr(o):
    return 'returns %s' % G.short(o[1], 40) if o[0] == 'ok' else 'raises %s' % o[1]


def _worker(task):
    modname, part, nparts, seed, tier = task
    mod = common.module(modname)
    sc = G.budget_scale(mod)
    P = G.scaled_params(PARAMS[tier], sc, tier)
    rng = G.task_rng(seed, PROPERTY, modname, part)
    fnd, st = G.Findings(), G.Stats()
    rf = G.relfile(mod)
    compact = mod.compact
    corp = common.corpus()[modname]
    valid = G.part_slice(G.diverse(corp['valid'], 10 ** 6), part, nparts)
    invalid = G.part_slice(corp['invalid'], part, nparts)
    opts = G.option_sets(mod, 'validate')
    samples = []
    counts = {'pairs_tried': 0, 'pairs_same_compact': 0, 'compact_error': 0}
    folded = {}

    thin = G.Thinner(sc, tier)

    def pair(gen, lab, x, cx, y, kw):
        if thin.skip(gen + ':' + lab.split(':')[0]):
            return
        counts['pairs_tried'] += 1
        try:
            cy = compact(y)
        except Exception:   # noqa: B902
            counts['compact_error'] += 1
            return
        if cy != cx:
            return
        counts['pairs_same_compact'] += 1
        sl = site_label(lab)
        folded[sl] = folded.get(sl, 0) + 1
        ox, oy, kind = _compare(mod, x, y, kw)
        klass = 'ok' if oy[0] == 'ok' else '%s:%s' % (oy[0], oy[1])
        st.record(gen, (x, y, G.kw_key(kw)), klass)
        if kind is not None:
            site = '%s:validate:%s[%s]' % (rf, kind, sl)
            observed = 'compact = %s; validate(x) %s; validate(y) %s' % (G.short(cx, 30), _descr(ox), _descr(oy))
            fnd.add(modname, 'validate', site, G.wsize(kw, x, y), repr((x, y, G.kw_key(kw)))[:300],
                    lambda: G.make_case(modname, 'validate', [x, y], kw, observed, EXPECT, site, kind,
                                        generator=gen, decoration=lab))
        if len(samples) < 10 and not any(s['gen'] == gen and s['decoration'].split(':')[0] == lab.split(':')[0]
                                         for s in samples):
            samples.append({'module': modname, 'gen': gen, 'decoration': lab, 'function': 'validate',
                            'args': [G.describe_arg(x), G.describe_arg(y)], 'kwargs': G.describe_kwargs(kw),
                            'compact': G.short(cx, 40), 'outcome_x': _descr(ox), 'outcome_y': _descr(oy),
                            'violation': kind})

    def explore(gen, x, level, kws):
        try:
            cx = compact(x)
        except Exception:   # noqa: B902
            counts['compact_error'] += 1
            return
        decs = G.decorations(mod, x, rng, level)
        for lab, y in decs:
            if y != x:
                pair(gen, lab, x, cx, y, {})
        if len(kws) > 1:
            sub = decs if len(decs) <= P['opt_pairs'] else rng.sample(decs, P['opt_pairs'])
            for kw in kws[1:]:
                for lab, y in sub:
                    if y != x:
                        pair('option:' + ','.join(sorted(kw)), lab, x, cx, y, kw)

    for idx, v in enumerate(valid):
        gidx = idx * nparts + part
        if gidx >= P['full'] + P['dense'] + P['light']:
            break
        level = 2 if gidx < P['full'] else 1 if gidx < P['full'] + P['dense'] else 0
        explore('valid', v, level, opts)
        try:
            c = compact(v)
        except Exception:   # noqa: B902
            c = None
        if isinstance(c, str) and c and c != v:
            explore('valid-compact', c, min(level, 1), opts[:1])
        # near misses
        if gidx < P['near']:
            base = c if isinstance(c, str) and c else v
            near = common.mutations(rng, v, 4)
            digits = [j for j in range(len(base)) if base[j].isdigit()]
            for j in (rng.sample(digits, min(4, len(digits))) if digits else []):
                near.append(base[:j] + str((int(base[j]) + rng.randrange(1, 10)) % 10) + base[j + 1:])
            near.append(base[:-1])
            near.append(base + '0')
            for x in near:
                if x:
                    explore('near-miss', x, P['near_level'], opts[:1])
    # other valid numbers than the corpus ones: one per row of the tables of the module, self-similar numbers (the text
    # of one part recurring in another part) and the length-/letter-extremal numbers; each explored like a corpus number
    quota = 30 if tier == 'quick' else 400
    if part == 0:
        cands = []
        for v in valid[:2]:
            cands += [('table', y) for _lab, y in G.table_variants(mod, v, rng, 10 * quota)]
            cands += [('self-similar', y) for _lab, y in G.self_similar(v, rng, 10 * quota)]
        cands += [('extremal', y) for y in common.extremal_numbers(modname)]
        cands += [('own-prefix', y) for _lab, y in G.own_prefix_numbers(mod, corp['valid'], rng, 3000 if tier == 'quick' else 20000)]
        taken = {}
        for gen, y in cands:
            if taken.get(gen, 0) >= quota:
                continue
            if gen == 'own-prefix' or G.call(mod, 'validate', mod.validate, (y,), {})[0] == 'ok':
                taken[gen] = taken.get(gen, 0) + 1
                explore(gen, y, 0, opts[:1])
    for x in invalid[:P['garbage']]:
        if x:
            explore('garbage-corpus', x, 1 if tier == 'thorough' else 0, opts[:1])
    alpha = '0123456789' * 4 + 'ABCXYZabz'
    lens = sorted(set(len(v) for v in corp['valid'][:50])) or [8]
    for _ in range(P['garbage'] // nparts + 1):
        x = ''.join(rng.choice(alpha) for _ in range(rng.choice(lens)))
        explore('garbage-random', x, 0, opts[:1])
    res = {'module': modname, 'task': (modname, part), 'stats': st.summary(), 'findings': fnd.export(),
           'samples': samples, 'counts': counts, 'folded': folded}
    return res


def modules():
    return [m.__name__ for m in common.number_modules()
            if hasattr(m, 'compact') and m.__name__ not in EXCLUDED]


def search(seed, tier):
    t0 = time.time()
    names = modules()
    tasks = [(n, p, k, seed, tier) for (n, p, k) in G.module_tasks(names, tier, 40)]
    results = G.run_tasks(_worker, G.schedule(tasks))
    results.sort(key=lambda r: r['task'])
    counts = {}
    folded = {}
    for r in results:
        for k, v in r['counts'].items():
            counts[k] = counts.get(k, 0) + v
        f = folded.setdefault(r['module'], {})
        for k, v in r['folded'].items():
            f[k] = f.get(k, 0) + v
    folded_classes = {}
    for m, f in folded.items():
        for k in f:
            folded_classes[k] = folded_classes.get(k, 0) + 1
    res, _ = G.merge_results(PROPERTY, RULE, results, t0, {
        'pair_counts': counts, 'excluded_modules': EXCLUDED, 'modules_with_compact': len(names) + len(
            [m for m in common.number_modules() if hasattr(m, 'compact') and m.__name__ in EXCLUDED]),
        'decoration_classes_folded_by_n_modules': dict(sorted(folded_classes.items()))})
    return res


def replay(case):
    mod, args, kwargs, today = G.case_inputs(case)
    x, y = args
    with G.frozen(today):
        try:
            if mod.compact(x) != mod.compact(y):
                return None
        except Exception:   # noqa: B902
            return None
        ox, oy, kind = _compare(mod, x, y, kwargs)
    if kind is None:
        return None
    site = case['site']
    if '[' in site:
        site = '%s:validate:%s[%s' % (G.relfile(mod), kind, site.split('[', 1)[1])
    return dict(case, relation=kind, site=site,
                observed='compact = %s; validate(x) %s; validate(y) %s' % (
                    G.short(mod.compact(x), 30), _descr(ox), _descr(oy)))


if __name__ == '__main__':
    G.main(PROPERTY, search, replay)
