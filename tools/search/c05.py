"""C05 - check-digit generators and validators agree.

For every module exposing a public calc_* generator the engine derives a *projection* (which part of the
canonical number is the generator's argument, which characters are the check), semi-automatically:
  1. HARD table for the irregular modules (several generators with guards, 'one of' generators, kwargs);
  2. else a *source hint*: the comparison `calc_x(<expr of number>) != number[<idx>]` found in the module
     text (used even when some corpus number disagrees: such disagreements are (a)-failures);
  3. else the best fitting one of a fixed list of candidate projections, if it holds for the majority of the
     valid corpus numbers (the others are then (a)-failures);
  4. else a source hint / candidate projection that holds for the majority of the valid corpus numbers of ONE
     length (at least two numbers): the most common length must not decide alone what the generator's argument
     is - a generator that is right for one admissible payload length and wrong for the others is exactly what
     (a) has to report, on the numbers of the other lengths;
  5. else the generator is reported as 'unmodelled' in the distribution (never as a failure).
Payload shapes: the generator is called on payloads of every length the format accepts: the lengths of the valid
corpus numbers and the lengths found by probing (characters deleted from / inserted into the payload of a valid
number, completed with the generated check: a length is admissible if validate() accepts such a completion);
accepted completions seed the further synthesis, completions rejected with the module's own InvalidChecksum are
(c)-failures.  Options: every job runs under the validate() options of VALIDATE_KWARGS and under every boolean
option of validate() flipped (options named validate_check_digit* switch the check off by documentation and are
only used with the value True).
Checked relations
  (a) generator(payload(v)) == check(v)                       for every valid v (corpus + synthesised)
  (b) v with one check character replaced by any other character of the check alphabet is rejected,
      unless the module documents an alternative check character (es.cif, pe.cui: generator returns the
      set of allowed characters; bg.vat 10-digit numbers: EGN / PNF numbers are accepted as well)
  (a') validator side enumeration: all combinations of check alphabet characters at the check position(s) of a
      sample of valid numbers; every accepted combination must be the generated one (this sees aliases that
      differ in two characters, e.g. mod 97 check digits 00 / 97, which (b) cannot see)
  (c) payload + generated check is never rejected with InvalidChecksum raised by the module itself
      (other ValidationErrors are fine; generators that report "no check character exists" by raising a
      ValidationError or by returning something that is not a check string of the right length -
      by.unp, si.maticna, vn.mst, at.vnr ... - are checked the other way round: no check character may
      then make the number valid).
"""
import inspect
import itertools
import os
import random
import re
import sys

sys.path.insert(0, os.path.dirname(os.path.dirname(os.path.abspath(__file__))))   # tools/
sys.path.insert(0, os.path.dirname(os.path.abspath(__file__)))
import common  # noqa: E402
import _chk  # noqa: E402
from _chk import DIGITS, UPPER  # noqa: E402

PROPERTY = 'C05'

# ----------------------------------------------------------------------------- model tables


def P(gen, payload, check, guard=None, mode='eq', alt=None):
    return {'gen': gen, 'payload': payload, 'check': list(check), 'guard': guard, 'mode': mode, 'alt': alt}


# irregular modules (read from the sources); the order is the completion order
HARD = {
    'stdnum.bg.vat': [
        P('calc_check_digit_legal', 'n[:-1]', (-1, None), guard='len(n) == 9'),
        # 10 digit numbers: "physical persons, foreigners and others": EGN or PNF or this check
        P('calc_check_digit_other', 'n[:-1]', (-1, None), guard='len(n) == 10 and not alt(n)', alt='bg.vat')],
    'stdnum.cz.dic': [
        P('calc_check_digit_legal', 'n[:-1]', (-1, None), guard='len(n) == 8'),
        P('calc_check_digit_special', 'n[1:-1]', (-1, None), guard="len(n) == 9 and n[0] == '6'")],
    'stdnum.ie.vat': [
        P('calc_check_digit', 'n[:7] + n[8:]', (7, 8), guard='n[:7].isdigit()'),
        P('calc_check_digit', 'n[2:7] + n[0]', (7, 8), guard='not n[:7].isdigit()')],
    'stdnum.lv.pvn': [
        P('calc_check_digit_pers', 'n[:-1]', (-1, None), guard="n[0] <= '3'")],
    'stdnum.no.fodselsnummer': [
        P('calc_check_digit1', 'n', (-2, -1)),
        P('calc_check_digit2', 'n', (-1, None))],
    'stdnum.pl.regon': [
        P('calc_check_digit', 'n[:8]', (8, 9), guard='len(n) == 14'),
        P('calc_check_digit', 'n[:-1]', (-1, None))],
    'stdnum.ru.inn': [
        P('calc_company_check_digit', 'n', (-1, None), guard='len(n) == 10'),
        P('calc_personal_check_digits', 'n', (-2, None), guard='len(n) == 12')],
    'stdnum.sg.uen': [
        P('calc_business_check_digit', 'n', (-1, None), guard='len(n) == 9'),
        P('calc_local_company_check_digit', 'n', (-1, None), guard='len(n) == 10 and n[0].isdigit()'),
        P('calc_other_check_digit', 'n', (-1, None), guard='len(n) == 10 and not n[0].isdigit()')],
    # documented alternatives: the generator returns the *set* of accepted characters (digit and letter)
    'stdnum.es.cif': [P('calc_check_digits', 'n[:-1]', (-1, None), mode='in')],
    'stdnum.pe.cui': [P('calc_check_digits', 'n', (-1, None), guard='len(n) == 9', mode='in')],
    # check digits only verified on request / only for 12 and 13 character numbers
    'stdnum.mx.rfc': [P('calc_check_digit', 'n[:-1]', (-1, None), guard='len(n) >= 12')],
    # 15 character hexadecimal form only (the decimal form is converted, 14/18 have no check digit)
    'stdnum.meid': [P('calc_check_digit', 'n[:-1]', (-1, None), guard='len(n) == 15')],
    # generators taking the whole number with the check digits in the middle / validate not using them
    'stdnum.iban': [P('calc_check_digits', 'n', (2, 4))],
    'stdnum.eu.at_02': [P('calc_check_digits', 'n', (2, 4))],
    'stdnum.es.ccc': [P('calc_check_digits', 'n', (8, 10))],
    'stdnum.pe.ruc': [P('calc_check_digit', 'n', (-1, None))],
    # 11 digit numbers are (documented) company numbers validated as stdnum.it.iva, without this generator
    'stdnum.it.codicefiscale': [P('calc_check_digit', 'n[:-1]', (-1, None), guard='len(n) == 16')],
}

# public calc_* functions that are not check digit generators
NOT_GENERATOR = {
    ('stdnum.tw.ubn', 'calc_checksum'): 'returns the checksum of the whole number (0 or 9 accepted), not a check digit',
}

VALIDATE_KWARGS = {
    'stdnum.mx.rfc': [{'validate_check_digits': True}],
    'stdnum.meid': [{'strip_check_digit': False}],
    'stdnum.iban': [{}, {'check_country': False}],
}


def _alt_bg_vat(n):
    from stdnum.bg import egn, pnf
    return egn.is_valid(n) or pnf.is_valid(n)


ALT = {'bg.vat': _alt_bg_vat}

# Calling convention of the generators whose validate() passes the WHOLE number (`calc_x(number) != number[i]`).
# Specification data, reviewed at the pinned commit: these generators also accept the bare payload (the number
# without its check characters), which is how a caller completes a payload (clause "completing a well-formed
# payload with the generated check character(s) is never rejected with a checksum error").  The others of that
# kind (at.vnr, cn.ric, ee.ik, es.ccc, eu.at_02, iban, ru.ogrn) index by position and are documented or written to
# take the full-length number ("The number passed should have the check digit included").  A generator that
# silently moves from the first group to the second breaks payload completion (relation a-rest).
PAYLOAD_ONLY_OK = {
    'stdnum.at.tin', 'stdnum.au.acn', 'stdnum.br.cnpj', 'stdnum.by.unp', 'stdnum.cn.uscc', 'stdnum.es.cups',
    'stdnum.es.referenciacatastral', 'stdnum.eu.eic', 'stdnum.fr.nif', 'stdnum.fr.nir', 'stdnum.gh.tin', 'stdnum.it.aic',
    'stdnum.md.idno', 'stdnum.me.pib', 'stdnum.mk.edb', 'stdnum.mu.nid', 'stdnum.mx.curp', 'stdnum.no.fodselsnummer',
    'stdnum.pe.ruc', 'stdnum.si.emso', 'stdnum.si.maticna', 'stdnum.sv.nit', 'stdnum.th.pin', 'stdnum.tr.tckimlik',
    'stdnum.tr.vkn', 'stdnum.ua.edrpou', 'stdnum.ua.rntrc', 'stdnum.uy.rut', 'stdnum.ve.rif', 'stdnum.vn.mst',
}

# candidate projections tried (in this order) when there is neither a HARD entry nor a source hint
GENERIC = [
    ('n[:-1]', (-1, None)), ('n', (-1, None)),
    ('n[:-2]', (-2, None)), ('n', (-2, None)),
    ('n[1:]', (0, 1)), ('n', (0, 1)),
    ('n[2:]', (0, 2)), ('n', (0, 2)),
    ('n[:-3]', (-3, None)), ('n', (-3, None)),
    ('n[1:-1]', (-1, None)), ('n[2:-1]', (-1, None)), ('n[3:-1]', (-1, None)), ('n[4:-1]', (-1, None)),
    ('n[2:-2]', (-2, None)), ('n[4:-2]', (-2, None)),
] + [('n', (k, k + 1)) for k in range(1, 20)] + [('n[:%d]' % k, (k, k + 1)) for k in range(1, 20)] + \
    [('n', (k, k + 2)) for k in range(1, 20)]

# ----------------------------------------------------------------------------- projections


def _eval(expr, n, alt=None):
    return eval(expr, {'__builtins__': {}, 'len': len, 'alt': alt or (lambda x: False)}, {'n': n})   # noqa: S307


def applies(p, n):
    if not p.get('guard'):
        return True
    try:
        return bool(_eval(p['guard'], n, ALT.get(p.get('alt'))))
    except Exception:   # noqa: B902
        return False


def check_span(p, n):
    a, b = p['check']
    return slice(a, b).indices(len(n))[:2]


def payload_of(p, n):
    return _eval(p['payload'], n)


def gen_call(mod, p, n):
    """('ok', str) | ('none', why) | ('exc', name): the generator's verdict on the payload of n"""
    VE = common.validation_error_class()
    a, b = check_span(p, n)
    try:
        r = getattr(mod, p['gen'])(payload_of(p, n))
    except VE as e:
        return ('none', 'raises ' + type(e).__name__)
    except Exception as e:   # noqa: B902
        return ('exc', type(e).__name__)
    if not isinstance(r, str):
        return ('none', 'returns %r' % (r,))
    if p['mode'] == 'eq' and len(r) != b - a:
        return ('none', 'returns %r' % (r,))
    return ('ok', r)


def holds(mod, p, n):
    g = gen_call(mod, p, n)
    if g[0] != 'ok':
        return False
    a, b = check_span(p, n)
    return n[a:b] == g[1] if p['mode'] == 'eq' else (b - a == 1 and n[a:b] in g[1])


_IDX = r'[-\d: ]+'
_ARG = r'(?P<p>[^()]*(?:\.\w+\([^()]*\))*)'       # an expression without calls, optionally followed by method calls
_HINT_A = re.compile(r'(?P<g>calc_\w+)\(' + _ARG + r'\)\s*(?:!=|==)\s*number\[(?P<c>' + _IDX + r')\]')
_HINT_B = re.compile(r'number\[(?P<c>' + _IDX + r')\]\s*(?:!=|==|not in|in)\s*(?P<g>calc_\w+)\(' + _ARG + r'\)')
_PURE_SLICE = re.compile(r'^(n(?:\[[-\d: ]+\])?)((?:\.\w+\([^()]*\))+)$')


def _parse_idx(txt):
    txt = txt.replace(' ', '')
    if ':' in txt:
        a, b = txt.split(':', 1)
        return (int(a) if a else None, int(b) if b else None)
    a = int(txt)
    return (a, a + 1 if a != -1 else None)


def source_hints(mod):
    try:
        src = open(mod.__file__, encoding='utf-8').read()
    except OSError:
        return []
    out = []
    for line in src.split('\n'):
        if '>>>' in line or line.lstrip().startswith('#'):
            continue
        for rx in (_HINT_A, _HINT_B):
            for m in rx.finditer(line):
                try:
                    chk = _parse_idx(m.group('c'))
                except ValueError:
                    continue
                mode = 'in' if ' in ' in m.group(0) else 'eq'
                pl = re.sub(r'\bnumber\b', 'n', m.group('p').strip())
                ms = _PURE_SLICE.match(pl)
                if ms:      # validate pads / converts the rest of the number before it calls the generator: the
                    pl = ms.group(1)    # property is about the generator applied to the rest of the number itself
                out.append(P(m.group('g'), pl, chk, mode=mode))
    return out


def generators(mod):
    return sorted(k for k in dir(mod) if k.startswith('calc_') and callable(getattr(mod, k)) and
                  getattr(getattr(mod, k), '__module__', None) == mod.__name__)


def build_model(mod, canon):
    """-> (projections, how) where how maps generator name -> 'hard' | 'hint' | 'generic' | 'unmodelled: why'"""
    name = mod.__name__
    gens = generators(mod)
    how = {}
    projs = []
    if name in HARD:
        projs = [dict(p) for p in HARD[name]]
        for g in gens:
            how[g] = 'hard' if any(p['gen'] == g for p in projs) else 'unmodelled: not used by validate'
    else:
        hints = source_hints(mod)
        for g in gens:
            if (name, g) in NOT_GENERATOR:
                how[g] = 'unmodelled: ' + NOT_GENERATOR[(name, g)]
                continue
            mine = []
            for h in hints:
                if h['gen'] != g or any(x['payload'] == h['payload'] and x['check'] == h['check'] for x in mine):
                    continue
                fit = sum(1 for n in canon if holds(mod, h, n))
                if canon and fit * 2 >= len(canon):     # majority: disagreements are reported by (a)
                    mine.append(h)
            if mine:
                projs += mine
                how[g] = 'hint'
                continue
            best, bestfit = None, 0
            for pl, chk in GENERIC:      # best fitting candidate, earlier candidates win ties
                c = P(g, pl, chk)
                fit = sum(1 for n in canon if holds(mod, c, n))
                if fit > bestfit:
                    best, bestfit = c, fit
            if best is not None and bestfit * 2 >= len(canon):    # majority: disagreements are reported by (a)
                projs.append(best)
                how[g] = 'generic'
                continue
            # no projection fits the majority of ALL valid numbers: look at the numbers of each length separately
            # (the largest class first).  Evidence needed: a source hint that holds for at least two numbers and more
            # than half of the class; or one of the four plain candidates (check at the end) holding for at least
            # three (a chance fit of a wrong projection on three numbers has probability 1/1000)
            classes = {}
            for n in canon:
                classes.setdefault(len(n), []).append(n)
            found = None
            cands = [(h, 2) for h in hints if h['gen'] == g] + [(P(g, pl, chk), 3) for pl, chk in GENERIC[:4]]
            for L in sorted(classes, key=lambda L: (-len(classes[L]), L)):
                ns = classes[L]
                if len(ns) < 2:
                    continue
                for c, need in cands:
                    fit = sum(1 for n in ns if holds(mod, c, n))
                    if fit * 2 > len(ns) and fit >= need:
                        found = (c, L, fit, len(ns))
                        break
                if found:
                    break
            if found:
                projs.append(found[0])
                how[g] = 'length-class: fits %d of the %d valid corpus numbers of length %d' % (found[2], found[3], found[1])
            else:
                how[g] = 'unmodelled: no projection fits the majority of the %d valid corpus numbers' % len(canon)
    if canon and name not in HARD:    # completion order: by position of the check characters
        L = len(canon[0])
        projs.sort(key=lambda p: slice(*p['check']).indices(L)[0])
    return projs, how


def proj_text(p):
    a, b = p['check']
    chk = 'n[%s:%s]' % ('' if a is None else a, '' if b is None else b)
    s = '%s(%s) %s %s' % (p['gen'], p['payload'], '==' if p['mode'] == 'eq' else 'contains', chk)
    if p.get('guard'):
        s += '  if ' + p['guard']
    return s


def check_alphabet(mod, p, pool, rng):
    """digits, or digits+letters (+ whatever else the generator emits) when the check can be a non-digit"""
    seen = set()
    for n in pool[:200]:
        g = gen_call(mod, p, n)
        if g[0] == 'ok':
            seen.update(g[1])
    extra = ''.join(sorted(c for c in seen if c not in DIGITS + UPPER))
    if seen and all(c in DIGITS for c in seen):
        return DIGITS
    return DIGITS + UPPER + extra


# ----------------------------------------------------------------------------- per module work


def _validate(mod, kw):
    return lambda s: _chk.call(mod.validate, s, **kw)


def _own_checksum(modname, o):
    """the InvalidChecksum was raised by the module itself or by a generic algorithm it calls directly
    (not by another number module such as a national IBAN validator or an embedded number)"""
    own = _chk.relfile(modname)
    return all(f == own for f in _chk.owner_files(o)) if modname not in common.GENERIC_MODULES else True


def complete(mod, projs, n):
    """apply every applicable generator in order; -> (completed string | None, verdicts)"""
    verdicts = []
    for p in projs:
        if not applies(p, n):
            continue
        g = gen_call(mod, p, n)
        verdicts.append((p, g))
        if g[0] != 'ok':
            return None, verdicts
        a, b = check_span(p, n)
        n = n[:a] + (g[1] if p['mode'] == 'eq' else g[1][0]) + n[b:]
    return n, verdicts


def mutate_payload(rng, n, check_pos):
    free = [i for i in range(len(n)) if i not in check_pos and _chk.char_class(n[i])]
    if not free:
        return n
    r = rng.random()
    k = 1 if r < 0.35 else 2 if r < 0.55 else 3 if r < 0.7 else len(free) if r < 0.85 else rng.randrange(1, len(free) + 1)
    s = list(n)
    for i in rng.sample(free, min(k, len(free))):
        s[i] = rng.choice(_chk.char_class(n[i]))
    return ''.join(s)


def shape_variants(n, check_pos):
    """strings of other lengths made from the valid number n: 1-3 characters deleted from, or copies of a neighbouring
    character / zeros inserted into, the payload at every position outside the check positions (which keep their
    distance from the nearer end of the number)"""
    out, seen = [], {n}
    L = len(n)
    free = [i for i in range(L) if i not in check_pos]
    for i in free:
        for k in (1, 2, 3):
            if all(j in free for j in range(i, i + k)) and L - k >= 2:
                v = n[:i] + n[i + k:]
                if v not in seen:
                    seen.add(v)
                    out.append(v)
            for fill in (n[i], '0'):
                if _chk.char_class(fill) is None:
                    continue
                v = n[:i] + fill * k + n[i:]
                if v not in seen:
                    seen.add(v)
                    out.append(v)
    return out


def module_job(arg):
    modname, kw, seed, tier = arg
    mod = common.module(modname)
    rng = random.Random('C05:%d:%s:%r' % (seed, modname, sorted(kw.items())))
    col = _chk.Collector()
    dist = {'a_checked': 0, 'b_variants': 0, 'b_accepted_documented_alternative': 0, 'c_completed': 0,
            'c_accepted': 0, 'c_rejected_other_validation_error': 0, 'c_rejected_checksum_other_module': 0,
            'c_generator_no_check': 0, 'c_no_generator_applies': 0, 'b_skipped_number_fails_a': 0,
            'enum_variants': 0, 'enum_accepted': 0, 'enum_skipped_too_large': 0, 'c_generator_exception': 0, 'generator_reads_check_position': 0}
    cases = 0
    nontrivial = set()
    samples = []
    val = _validate(mod, kw)
    vlabel = modname + (' ' + repr(kw) if kw else '')
    # canonical valid corpus numbers
    canon = []
    for v in common.valid_numbers(modname):
        o = val(v)
        if o[0] == 'ok' and isinstance(o[1], str) and o[1] not in canon and val(o[1])[:2] == ('ok', o[1]):
            canon.append(o[1])
    projs, how = build_model(mod, canon)
    info = {'generators': how, 'projections': [proj_text(p) for p in projs], 'corpus_valid': len(canon)}
    if not projs or not canon:
        return {'module': vlabel, 'info': info, 'dist': dist, 'cases': 0, 'nontrivial': 0, 'sites': [], 'samples': []}
    canon = _chk.diverse(canon)      # every length / shape of the corpus survives the cap below
    if tier == 'quick':
        seeds = canon[:200]
        nsynth = 6000
    else:
        seeds = canon
        nsynth = 60000
    # length-/letter-extremal valid numbers (common.extremal_numbers) are seeds as well
    for x in common.extremal_numbers(modname):
        if val(x)[:2] == ('ok', x) and x not in seeds:
            seeds.append(x)

    fails_a = set()

    def check_a(n, origin):
        nonlocal cases
        for p in projs:
            if not applies(p, n):
                continue
            cases += 1
            dist['a_checked'] += 1
            nontrivial.add(('a', p['gen'], n))
            g = gen_call(mod, p, n)
            a, b = check_span(p, n)
            ok = g[0] == 'ok' and (n[a:b] == g[1] if p['mode'] == 'eq' else n[a:b] in g[1])
            if len(samples) < 3:
                samples.append({'module': modname, 'relation': 'a', 'number': n, 'projection': proj_text(p),
                                'generator': g[1], 'check': n[a:b], 'agrees': ok})
            if not ok:
                fails_a.add(n)
                wl = n in getattr(mod, 'whitelist', ())
                col.add(_chk.make_case(
                    modname, p['gen'], [payload_of(p, n)], 'generator gives %s' % (g[1],),
                    'the check character(s) %r of the valid number %r' % (n[a:b], n),
                    _chk.value_site(modname, p['gen'], 'generator-disagrees-with-whitelisted-valid-number' if wl
                                    else 'generator-disagrees-with-valid-number'),
                    'a: generator(payload(v)) == check(v)', number=n, projection=p, vkwargs=kw, origin=origin))
            # a-rest: generators that take the whole number in validate() but are callable on the bare payload
            if ok and p['payload'].strip() == 'n' and p['mode'] == 'eq' and not p.get('guard') and modname in PAYLOAD_ONLY_OK:
                rest = n[:a] + n[b:]
                try:
                    gr = ('ok', getattr(mod, p['gen'])(rest))
                except Exception as e:   # noqa: B902
                    gr = ('exc', type(e).__name__)
                cases += 1
                dist['a_rest_checked'] = dist.get('a_rest_checked', 0) + 1
                if gr != ('ok', n[a:b]):
                    col.add(_chk.make_case(
                        modname, p['gen'], [rest], 'generator gives %s on the payload alone' % (gr[1],),
                        'the check character(s) %r of the valid number %r (as it gives on the whole number)' % (n[a:b], n),
                        _chk.value_site(modname, p['gen'], 'generator-wrong-on-bare-payload'),
                        'a-rest: generator(number without its check characters) == check(v)', number=n, projection=p,
                        vkwargs=kw, origin=origin))
            # does the generator look at the check position itself?
            if g[0] == 'ok' and p['payload'] == 'n':
                other = n[:a] + ''.join('1' if c == '0' else '0' for c in n[a:b]) + n[b:]
                g2 = gen_call(mod, p, other)
                if g2 != g:
                    dist['generator_reads_check_position'] += 1

    def check_b(n, alphabets):
        nonlocal cases
        if n in fails_a:      # same root cause as the (a) failure already reported for n
            dist['b_skipped_number_fails_a'] += 1
            return
        for p in projs:
            if not applies(p, n):
                continue
            a, b = check_span(p, n)
            g = gen_call(mod, p, n)
            for i in range(a, b):
                for c in alphabets[p['gen']]:
                    if c == n[i]:
                        continue
                    v = n[:i] + c + n[i + 1:]
                    cases += 1
                    dist['b_variants'] += 1
                    nontrivial.add(('b', v))
                    o = val(v)
                    if o[0] != 'ok':
                        continue
                    # accepted: documented alternative?
                    if p['mode'] == 'in' and g[0] == 'ok' and c in g[1]:
                        dist['b_accepted_documented_alternative'] += 1
                        continue
                    if p.get('alt') and ALT[p['alt']](v):
                        dist['b_accepted_documented_alternative'] += 1
                        continue
                    col.add(_chk.make_case(
                        modname, 'validate', [v], _chk.fmt_outcome(o),
                        'ValidationError: check character %d of the valid number %r replaced by %r' % (i, n, c),
                        _chk.value_site(modname, 'validate', 'other-check-character-accepted-whitelisted-number'
                                        if v in getattr(mod, 'whitelist', ()) else 'other-check-character-accepted'),
                        'b: other check character must be rejected', kwargs=kw, number=n, projection=p))

    def check_enum(n, alphabets):
        """validator side enumeration: every combination of check alphabet characters at the check positions of n;
        whatever validate accepts must carry the generated check (finds aliases that differ in two characters,
        e.g. mod 97 check digits 00/97, which (b) cannot see)"""
        nonlocal cases
        ps = [p for p in projs if applies(p, n)]
        groups = [ps]
        pos = sorted(set(i for p in ps for i in range(*check_span(p, n))))
        alpha = ''.join(sorted(set(''.join(alphabets[p['gen']] for p in ps)), key=(DIGITS + UPPER + '*').find))
        if len(alpha) ** len(pos) > 1300:
            groups = [[p] for p in ps]
        for g in groups:
            pos = sorted(set(i for p in g for i in range(*check_span(p, n))))
            alpha = ''.join(sorted(set(''.join(alphabets[p['gen']] for p in g)), key=(DIGITS + UPPER + '*').find))
            if not pos or len(alpha) ** len(pos) > 1300:
                dist['enum_skipped_too_large'] += 1
                continue
            s = list(n)
            for combo in itertools.product(alpha, repeat=len(pos)):
                for i, c in zip(pos, combo):
                    s[i] = c
                v = ''.join(s)
                if v == n:
                    continue
                cases += 1
                dist['enum_variants'] += 1
                nontrivial.add(('b', v))
                o = val(v)
                if o[0] == 'ok' and o[1] == v and v not in fails_a:
                    dist['enum_accepted'] += 1
                    check_a(v, 'enumerated check characters of ' + n)

    # (a) on the corpus
    for n in seeds:
        check_a(n, 'corpus')
    # synthesis + (c)
    pool = list(seeds)
    poolset = set(pool)

    def check_positions(n0):
        cpos = set()
        for p in projs:
            if applies(p, n0):
                a, b = check_span(p, n0)
                cpos.update(range(a, b))
        return cpos

    def admissible(comp, used):
        """some choice of check characters makes validate() accept the payload of comp"""
        nonlocal cases
        pos = sorted(set(i for p in used for i in range(*check_span(p, comp))))
        alpha = DIGITS + UPPER if len(pos) == 1 else DIGITS
        if not pos or len(alpha) ** len(pos) > 1300:
            return False
        t = list(comp)
        for combo in itertools.product(alpha, repeat=len(pos)):
            for i, c in zip(pos, combo):
                t[i] = c
            cases += 1
            v = ''.join(t)
            if val(v)[:2] == ('ok', v):     # a valid number in canonical form of this very shape (not another
                return True                 # presentation that validate() converts, e.g. it.aic base 32 / ch.uid prefix)
        return False

    def attempt(m, n0, origin):
        """complete the payload carrier m (a string of the shape of a number; its check positions are overwritten)
        with the generated check character(s) and ask validate()"""
        nonlocal cases
        comp, verdicts = complete(mod, projs, m)
        cases += 1
        if comp is None:
            if not verdicts:
                dist['c_no_generator_applies'] += 1
                return
            p, g = verdicts[-1]
            if g[0] == 'exc':
                dist['c_generator_exception'] += 1
                return
            # generator says: this payload has no check character -> nothing may be accepted
            dist['c_generator_no_check'] += 1
            a, b = check_span(p, m)
            if b - a == 1:
                for c in DIGITS + UPPER:
                    v = m[:a] + c + m[b:]
                    cases += 1
                    o = val(v)
                    if o[0] == 'ok' and o[1] != v:
                        # accepted as another presentation of a number (prefix added, base converted): the
                        # projection speaks about the canonical number, which (a) checks
                        if isinstance(o[1], str) and val(o[1])[:2] == ('ok', o[1]) and o[1] not in poolset:
                            poolset.add(o[1])
                            pool.append(o[1])
                        continue
                    if o[0] == 'ok' and applies(p, v) and not (p.get('alt') and ALT[p['alt']](v)):
                        nontrivial.add(('n', v))
                        col.add(_chk.make_case(
                            modname, 'validate', [v], _chk.fmt_outcome(o),
                            'ValidationError: %s(%r) %s, so no check character is valid' % (p['gen'], payload_of(p, v), g[1]),
                            _chk.value_site(modname, p['gen'], 'valid-number-without-generated-check'),
                            'a: generator(payload(v)) == check(v)', kwargs=kw, projection=p))
            return
        dist['c_completed'] += 1
        o = val(comp)
        if len(samples) < 6:
            samples.append({'module': modname, 'relation': 'c', 'payload_from': n0, 'completed': comp,
                            'validate': _chk.fmt_outcome(o), 'origin': origin})
        if o[0] == 'ok':
            nontrivial.add(('c', comp))
            dist['c_accepted'] += 1
            if o[1] == comp and comp not in poolset and all(holds(mod, p, comp) for p in projs if applies(p, comp)):
                poolset.add(comp)
                pool.append(comp)
                if len(comp) not in lengths:
                    lengths.add(len(comp))
                    dist['lengths_found_by_probing'] = dist.get('lengths_found_by_probing', 0) + 1
        elif o[0] == 'verr' and o[1] == 'InvalidChecksum':
            nontrivial.add(('c', comp))
            if not _own_checksum(modname, o):
                dist['c_rejected_checksum_other_module'] += 1
                return
            # every applicable generator agrees with the completed number, yet the module says checksum error
            if not all(holds(mod, p, comp) for p in projs if applies(p, comp)):
                dist['c_rejected_other_validation_error'] += 1    # guard changed by completion: not our payload any more
                return
            used = [p for p in projs if applies(p, comp)]
            if not used:
                dist['c_no_generator_applies'] += 1
                return
            cfn = getattr(mod, 'compact', None)
            if cfn is not None and _chk.call(cfn, comp)[:2] != ('ok', comp):
                # the projections are defined on canonical numbers; this string is re-shaped by compact() before
                # the check (e.g. a prefix is added), so its payload is not the one the generator was given
                dist['c_not_canonical'] = dist.get('c_not_canonical', 0) + 1
                return
            if len(comp) not in lengths:
                # a payload of a length that no valid number seen so far has: it is a well-formed payload only if
                # SOME completion validates (otherwise the checksum error is just the module's way of rejecting
                # the length)
                if bad_lengths.get(len(comp), 0) >= 4 or not admissible(comp, used):
                    bad_lengths[len(comp)] = bad_lengths.get(len(comp), 0) + 1
                    dist['c_probed_length_not_admissible'] = dist.get('c_probed_length_not_admissible', 0) + 1
                    return
                lengths.add(len(comp))
                dist['lengths_found_by_probing'] = dist.get('lengths_found_by_probing', 0) + 1
            col.add(_chk.make_case(
                modname, 'validate', [comp], _chk.fmt_outcome(o),
                'accepted or a non-checksum ValidationError: check generated by %s' % ', '.join(p['gen'] for p in used),
                _chk.site(o), 'c: payload + generated check is never a checksum error', kwargs=kw, projections=used,
                origin=origin))
        elif o[0] == 'verr':
            dist['c_rejected_other_validation_error'] += 1
        else:
            dist['c_generator_exception'] += 1

    # payload shapes: every length the format accepts.  Known lengths come from the corpus; the others are probed:
    # characters deleted from / inserted into the payload of a valid number (at every payload position, 1-3
    # characters), completed with the generated check; accepted completions join the pool and seed the random synthesis
    lengths = set(len(n) for n in seeds)
    bad_lengths = {}
    per_length = {}
    for n in seeds:
        per_length.setdefault(len(n), [])
        if len(per_length[len(n)]) < (2 if tier == 'quick' else 6):
            per_length[len(n)].append(n)
    for L in sorted(per_length):
        for n0 in per_length[L]:
            for m in shape_variants(n0, check_positions(n0)):
                dist['shape_probes'] = dist.get('shape_probes', 0) + 1
                attempt(m, n0, 'shape probe')
    info['lengths'] = sorted(lengths)
    for _ in range(nsynth):
        n0 = rng.choice(pool if rng.random() < 0.5 else seeds)
        m = mutate_payload(rng, n0, check_positions(n0))
        if m == n0:
            continue
        attempt(m, n0, 'random payload')
    # (a) on synthesised numbers, (b) on everything
    alphabets = {p['gen']: check_alphabet(mod, p, pool, rng) for p in projs}
    info['check_alphabet'] = {g: ('digits' if a == DIGITS else 'digits+letters' + a[36:]) for g, a in alphabets.items()}
    info['synthesised_valid'] = len(pool) - len(seeds)
    bpool = pool if tier != 'quick' else pool[:1000]
    if tier != 'quick' and len(bpool) > 10000:
        bpool = seeds + rng.sample(pool[len(seeds):], 10000 - len(seeds))
    for n in pool[len(seeds):]:
        check_a(n, 'synthesised')
    for n in bpool:
        check_b(n, alphabets)
    epool = [n for n in bpool if n not in fails_a]
    for n in epool[:40] + rng.sample(epool[40:], min(len(epool) - 40, 160 if tier == 'quick' else 1500)) if len(epool) > 40 else epool:
        check_enum(n, alphabets)
    if bpool:
        n = bpool[-1]
        samples.append({'module': modname, 'relation': 'b', 'number': n, 'origin': 'synthesised' if n not in seeds else 'corpus',
                        'alphabets': info['check_alphabet']})
    return {'module': vlabel, 'info': info, 'dist': dist, 'cases': cases, 'nontrivial': len(nontrivial),
            'sites': col.export(), 'samples': samples[:4]}


def target_modules():
    out = []
    for m in common.number_modules():
        if generators(m):
            out.append(m.__name__)
    return out


def validate_option_sets(name):
    """the validate() options a module is checked under: the VALIDATE_KWARGS table, else the defaults and every
    boolean option flipped (one at a time).  Options named validate_check_digit* are documented to switch the check
    off: they are never used with the value False."""
    if name in VALIDATE_KWARGS:
        return VALIDATE_KWARGS[name]
    out = [{}]
    try:
        ps = list(inspect.signature(common.module(name).validate).parameters.values())[1:]
    except (TypeError, ValueError):
        return out
    for p in ps:
        if isinstance(p.default, bool):
            v = not p.default
            if p.name.startswith('validate_check_digit') and v is False:
                continue
            out.append({p.name: v})
    return out


def search(seed, tier):
    jobs = []
    for name in target_modules():
        for kw in validate_option_sets(name):
            jobs.append((name, kw, seed, tier))
    common.corpus()    # build the cache before forking
    results = _chk.pmap(module_job, jobs)
    col = _chk.Collector()
    dist = {'per_module': {}, 'totals': {}, 'how_modelled': {}, 'unmodelled': {}, 'projection_table': {}}
    cases = nontrivial = 0
    samples = []
    for r in results:
        col.merge(r['sites'])
        cases += r['cases']
        nontrivial += r['nontrivial']
        _chk.add_counts(dist['totals'], r['dist'])
        dist['per_module'][r['module']] = dict(
            {k: v for k, v in r['dist'].items() if v}, corpus_valid=r['info']['corpus_valid'],
            synthesised_valid=r['info'].get('synthesised_valid', 0))
        dist['projection_table'][r['module']] = {'projections': r['info']['projections'],
                                                 'check_alphabet': r['info'].get('check_alphabet', {})}
        for g, h in r['info']['generators'].items():
            kind = h.split(':')[0]
            dist['how_modelled'][kind] = dist['how_modelled'].get(kind, 0) + 1
            if kind == 'unmodelled':
                dist['unmodelled']['%s.%s' % (r['module'], g)] = h
        if r['samples'] and len(samples) < 9:
            samples.append(r['samples'][len(samples) % len(r['samples'])])
    dist['modules'] = len(set(j[0] for j in jobs))
    dist['failing_per_site'] = col.per_site()
    return {
        'cases': cases,
        'distinct_nontrivial': nontrivial,
        'rule': ('per module with a public calc_* generator: projection (payload, check) from HARD table / source '
                 'hint / candidate list; (a) generator vs check of every valid number (corpus + synthesised); '
                 '(b) every check position x every other character of the check alphabet must be rejected '
                 '(documented alternatives excepted); (a\') for a sample of valid numbers every combination of check '
                 'alphabet characters at the check positions: whatever validate accepts must carry the generated check; '
                 '(c) class-preserving random payloads (1..all positions of a '
                 'valid number re-drawn) completed with the generated check must not raise InvalidChecksum in the '
                 'module itself.  Non-trivial = distinct (a) valid numbers checked + distinct (b) variants + distinct '
                 '(c) completions that reached the checksum verdict (accepted or InvalidChecksum); completions '
                 'rejected earlier (format, component) are trivial.'),
        'failing': col.failing(),
        'samples': samples,
        'distribution': dist,
    }


def _replay_site(case):
    """entries written in the census shape lack the projection / the number: re-run the module's job (quick tier)
    and report the smallest case found at the same (function, site), if any"""
    col = _chk.Collector()
    for kw in validate_option_sets(case['module']):
        col.merge(module_job((case['module'], kw, int(case.get('seed', 1)), 'quick'))['sites'])
    same = [c for c in col.failing(None) if c['function'] == case['function'] and c['site'] == case.get('site')]
    return dict(case, **{k: v for k, v in same[0].items() if k not in ('site_total',)}) if same else None


def replay(case):
    with common.frozen_today(_chk.case_today(case)):
        if 'relation' not in case or ('projection' not in case and 'projections' not in case):
            return _replay_site(case)
        mod = common.module(case['module'])
        args, kwargs = _chk.case_args(case)
        rel = case.get('relation', '')[:1]
        if case.get('relation', '').startswith('a-rest'):
            n, p = case['number'], case['projection']
            a, b = check_span(p, n)
            if _chk.call(mod.validate, n, **case.get('vkwargs', {}))[0] != 'ok':
                return None
            try:
                gr = ('ok', getattr(mod, p['gen'])(n[:a] + n[b:]))
            except Exception as e:   # noqa: B902
                gr = ('exc', type(e).__name__)
            return None if gr == ('ok', n[a:b]) else dict(case, observed='generator gives %s on the payload alone' % (gr[1],))
        if rel == 'a' and case['function'] != 'validate':
            n, p = case['number'], case['projection']
            o = _chk.call(mod.validate, n, **case.get('vkwargs', {}))
            if o[0] != 'ok' or not applies(p, n) or holds(mod, p, n):
                return None
            return dict(case, observed='generator gives %s' % (gen_call(mod, p, n)[1],))
        o = _chk.call(mod.validate, *args, **kwargs)
        v = args[0]
        if rel == 'c':
            if o[:2] != ('verr', 'InvalidChecksum') or not _own_checksum(case['module'], o):
                return None
            if not all(holds(mod, p, v) for p in case['projections'] if applies(p, v)):
                return None
            return dict(case, observed=_chk.fmt_outcome(o), site=_chk.site(o))
        # b, and a/valid-number-without-generated-check: the variant is accepted although the generator disagrees
        if o[0] != 'ok':
            return None
        p = case['projection']
        if applies(p, v) and holds(mod, p, v):
            return None
        if p.get('alt') and ALT[p['alt']](v):
            return None
        if 'number' in case and _chk.call(mod.validate, case['number'], **kwargs)[0] != 'ok':
            return None
        return dict(case, observed=_chk.fmt_outcome(o))


if __name__ == '__main__':
    _chk.cli(globals())
