"""Shared plumbing for the search engines c08/c09/c11/c12/c16 (stdlib + common only).

* call()       run a function, classify the outcome like common.outcome but keep the root-cause site
* Collector    counts evaluations, deduplicates failures by (module, function, site), keeps <= 3 minimal
               examples per site but counts all of them, keeps a measured distribution
* pmap()       deterministic fork-based parallel map (results in task order)
* main()       the `python cNN.py [quick|thorough]` command line
"""
import json
import multiprocessing
import os
import sys
import time
import traceback

sys.path.insert(0, os.path.dirname(os.path.dirname(os.path.abspath(__file__))))   # tools/
import common  # noqa: E402

REPO = common.REPO
_STDNUM_DIR = os.path.join(REPO, 'stdnum') + os.sep
MAX_FAILING = 200
PER_SITE = 3


def VE():
    return common.validation_error_class()


def exc_site(exc):
    """innermost frame inside /repo/stdnum: '<relative file>:<function>:<stripped source line>'"""
    frames = traceback.extract_tb(exc.__traceback__)
    for fr in reversed(frames):
        if fr.filename.startswith(_STDNUM_DIR):
            rel = os.path.relpath(fr.filename, REPO)
            return '%s:%s:%s' % (rel, fr.name, (fr.line or '').strip())
    return 'outside-stdnum:%s' % type(exc).__name__


class Out(tuple):
    """('ok', value) | ('verr', class name, site) | ('exc', class name, site)"""
    kind = property(lambda s: s[0])
    value = property(lambda s: s[1] if s[0] == 'ok' else None)
    name = property(lambda s: s[1] if s[0] != 'ok' else None)
    site = property(lambda s: s[2] if s[0] != 'ok' else None)

    def show(self):
        if self[0] == 'ok':
            return 'returns %s' % (short(self[1]),)
        return 'raises %s' % self[1]


def short(v, n=160):
    r = repr(v)
    return r if len(r) <= n else r[:n - 3] + '...'


def call(f, *a, **k):
    ve = VE()
    try:
        return Out(('ok', f(*a, **k)))
    except ve as e:
        return Out(('verr', type(e).__name__, exc_site(e)))
    except RecursionError as e:
        return Out(('exc', 'RecursionError', exc_site(e)))
    except Exception as e:   # noqa: B902
        return Out(('exc', type(e).__name__, exc_site(e)))


def relfile(modname):
    mod = common.module(modname)
    return os.path.relpath(mod.__file__, REPO)


def value_site(modname, function, relation):
    """site label for a wrong value: '<relative file>:<function>:<relation>'"""
    return '%s:%s:%s' % (relfile(modname), function, relation)


def mkcase(module, function, args, observed, expected, site, relation, kwargs=None, today=None, **extra):
    case = {'module': module, 'function': function,
            'args': [common.describe(a) for a in args],
            'observed': observed, 'expected': expected, 'site': site, 'relation': relation}
    if kwargs:
        case['kwargs'] = dict((k, common.describe(v)) for k, v in kwargs.items())
    if today is not None:
        case['today'] = today.isoformat() if hasattr(today, 'isoformat') else today
    case.update(extra)
    return case


def case_args(case):
    args = [common.rebuild(a) for a in case.get('args', [])]
    kwargs = dict((k, common.rebuild(v)) for k, v in case.get('kwargs', {}).items())
    return args, kwargs


def _size(case):
    return (len(json.dumps(case.get('args', []))) + len(json.dumps(case.get('kwargs', {}))),
            json.dumps(case, sort_keys=True, default=str))


class Collector:
    def __init__(self):
        self.cases = 0
        self.nontrivial = set()
        self.sites = {}          # key -> [count, [cases]]
        self.dist = {}
        self.samples = []

    def tick(self, *labels, n=1):
        self.cases += n
        for lab in labels:
            self.dist[lab] = self.dist.get(lab, 0) + n

    def count(self, label, n=1):
        self.dist[label] = self.dist.get(label, 0) + n

    def nontriv(self, key):
        self.nontrivial.add(key)

    def sample(self, d, cap=8):
        if len(self.samples) < cap:
            self.samples.append(d)

    def fail(self, case):
        key = (case['module'], case['function'], case['site'])
        ent = self.sites.setdefault(key, [0, []])
        ent[0] += 1
        ent[1].append(case)
        if len(ent[1]) > 4 * PER_SITE:
            ent[1] = sorted(ent[1], key=_size)[:PER_SITE]

    # ---- merging of worker results
    def dump(self):
        return {'cases': self.cases, 'nontrivial': sorted(self.nontrivial), 'dist': self.dist,
                'sites': [(list(k), v[0], sorted(v[1], key=_size)[:PER_SITE]) for k, v in self.sites.items()],
                'samples': self.samples}

    def merge(self, d):
        self.cases += d['cases']
        self.nontrivial.update(d['nontrivial'])
        for k, v in d['dist'].items():
            self.dist[k] = self.dist.get(k, 0) + v
        for k, n, cs in d['sites']:
            ent = self.sites.setdefault(tuple(k), [0, []])
            ent[0] += n
            ent[1] = sorted(ent[1] + cs, key=_size)[:PER_SITE]
        for s in d['samples']:
            self.sample(s)

    def result(self, rule, **extra):
        failing = []
        site_counts = {}
        for key in sorted(self.sites):
            n, cs = self.sites[key]
            site_counts['%s %s @ %s' % key] = n
            for c in sorted(cs, key=_size)[:PER_SITE]:
                failing.append(dict(c, site_count=n))
        res = {'cases': self.cases, 'distinct_nontrivial': len(self.nontrivial), 'rule': rule,
               'failing': failing[:MAX_FAILING], 'samples': self.samples[:10],
               'distribution': dict(sorted(self.dist.items())),
               'failing_sites': site_counts, 'distinct_failing_sites': len(site_counts)}
        res.update(extra)
        return res


def _run(args):
    fn, task = args
    return fn(task)


def load_corpus(tries=5):
    """common.corpus() with a retry: the cache file under work/ is written non-atomically and other processes
    may be (re)writing it while we read"""
    for i in range(tries):
        try:
            return common.corpus()
        except ValueError:
            time.sleep(1 + i)
    return common.corpus()


def pmap(fn, tasks, procs=None):
    """[fn(t) for t in tasks] in forked workers; order preserved => deterministic."""
    tasks = list(tasks)
    load_corpus()          # in the parent, so that forked workers inherit it instead of racing for the cache file
    procs = min(procs or min(16, os.cpu_count() or 1), max(1, len(tasks)))
    if procs <= 1 or len(tasks) <= 1 or multiprocessing.current_process().daemon:
        return [fn(t) for t in tasks]      # (daemonic pool workers may not fork again)
    ctx = multiprocessing.get_context('fork')
    with ctx.Pool(procs) as pool:
        return pool.map(_run, [(fn, t) for t in tasks], chunksize=1)


def main(mod):
    tier = sys.argv[1] if len(sys.argv) > 1 else common.tier()
    t0 = time.time()
    res = mod.search(common.seed(), tier)
    res = dict(res)
    res['failing'] = res['failing'][:50]
    res['seconds'] = round(time.time() - t0, 2)
    json.dump(res, sys.stdout, indent=1, default=str, sort_keys=True)
    sys.stdout.write('\n')
