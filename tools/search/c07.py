"""C07 - international identifiers agree with an independent reading of their standard.

predicate: module.validate(x) accepts  <=>  c07_reference.reference(module, x) is not None, and then the same
canonical form.  (A non-ValidationError exception of validate counts as "does not accept": crash freedom is
C01; such cases are counted in the distribution.)

IBAN is compared twice: with check_country=False (exact equivalence with the registry rules) and with the default
(the national validators of BE/ES/ME/NO may only reject more: a rejection raised outside stdnum/iban.py,
stdnum/iso7064 and stdnum/numdb.py is counted as 'rejected_by_national_validator', not as a failure).
"""
import itertools
import os
import random
import sys

sys.path.insert(0, os.path.dirname(os.path.dirname(os.path.abspath(__file__))))   # tools/
sys.path.insert(0, os.path.dirname(os.path.abspath(__file__)))
import common  # noqa: E402
import _chk  # noqa: E402
import c07_reference as R  # noqa: E402
from _chk import DIGITS as D, UPPER as U  # noqa: E402

PROPERTY = 'C07'
AN = D + U
CONS = 'BCDFGHJKLMNPQRSTVWXYZ'


def F(alphabet, lengths, check=None, check_alpha=AN, variants=({},), prefixes=('',)):
    return {'alphabet': alphabet, 'lengths': lengths, 'check': check, 'check_alpha': check_alpha,
            'variants': variants, 'prefixes': prefixes}


FORMATS = {
    'stdnum.isbn': F(D + 'X', (9, 10, 13), (-1,), D + 'X' + 'x'),
    'stdnum.ean': F(D, (8, 12, 13, 14), (-1,), D),
    'stdnum.issn': F(D + 'X', (8,), (-1,), AN),
    'stdnum.ismn': F(D + 'M', (10, 13), (-1,), D),
    'stdnum.isin': F(AN, (12,), (-1,), AN),
    'stdnum.iban': F(AN, tuple(range(15, 35)), (2, 3), AN, variants=({'check_country': False}, {})),
    'stdnum.imei': F(D, (14, 15, 16), (-1,), D),
    'stdnum.iso11649': F(AN, tuple(range(4, 27)), (2, 3), AN, prefixes=('RF',)),
    'stdnum.isni': F(D + 'X', (16,), (-1,), AN),
    'stdnum.lei': F(AN, (18, 19, 20, 21), (-2, -1), AN),
    'stdnum.grid': F(AN, (18,), (-1,), AN, prefixes=('A1', '')),
    'stdnum.cusip': F(AN + '*@#', (9,), (-1,), AN + '*@#'),
    'stdnum.gb.sedol': F(AN, (7,), (-1,), AN),
    'stdnum.figi': F(AN, (12,), (-1,), AN, prefixes=('BBG', '')),
    'stdnum.imo': F(D, (7,), (-1,), D, prefixes=('', 'IMO')),
    'stdnum.casrn': F(D + '-', tuple(range(5, 13)), (-1,), D),
    'stdnum.bic': F(AN, (8, 11)),
    'stdnum.isrc': F(AN, (12,)),
    'stdnum.bitcoin': F(R.B58, tuple(range(26, 36))),
}
_NATIONAL_OK = ('stdnum/iban.py:', 'stdnum/iso7064/', 'stdnum/numdb.py:')
_UNI_DIGIT_BASES = (0x0660, 0x06F0, 0x0966, 0xFF10, 0x1D7CE)


class Ctx:
    def __init__(self, modname, kw):
        self.modname = modname
        self.mod = common.module(modname)
        self.kw = kw
        self.col = _chk.Collector()
        self.seen = set()
        self.cases = 0
        self.nontrivial = 0
        self.dist = {}
        self.samples = []

    def count(self, k, n=1):
        self.dist[k] = self.dist.get(k, 0) + n

    def compare(self, s, origin):
        """evaluate one string; returns True when both sides accept"""
        if s in self.seen:
            return None
        self.seen.add(s)
        self.cases += 1
        o = _chk.call(self.mod.validate, s, **self.kw)
        ref, why = R.explain(self.modname, s)
        acc = o[0] == 'ok'
        if acc or ref is not None or why == 'checksum' or o[1] == 'InvalidChecksum':
            self.nontrivial += 1
        self.count('by_generator:' + origin)
        if o[0] == 'exc':
            self.count('real_raises_non_validation_exception:' + o[1])
        if acc and ref is not None:
            self.count('both_accept')
            if o[1] != ref:
                self.fail(s, o, 'canonical-form-differs', 'canonical form %r' % (ref,), origin)
            return True
        if not acc and ref is None:
            self.count('both_reject')
            return False
        if acc:
            self.fail(s, o, 'accepts-what-the-standard-rejects:' + why, 'rejected (reference: %s)' % why, origin)
            return False
        if self.kw == {} and self.modname == 'stdnum.iban' and o[0] == 'verr' and not _chk.site(o).startswith(_NATIONAL_OK):
            self.count('rejected_by_national_validator')
            return False
        what = ('rejects-what-the-standard-accepts:' if o[0] == 'verr' else 'raises-where-the-standard-accepts:') + o[1]
        self.fail(s, o, what, 'returns %r' % (ref,), origin, raised_at=_chk.site(o))
        return False

    def fail(self, s, o, relation, expected, origin, **extra):
        self.count('disagreements')
        self.col.add(_chk.make_case(self.modname, 'validate', [s], _chk.fmt_outcome(o), expected,
                                    _chk.value_site(self.modname, 'validate', relation), relation, kwargs=self.kw,
                                    generator=origin, **extra))


# ----------------------------------------------------------------------------- generators

def single_edits(n, alphabet):
    for i in range(len(n)):
        for c in alphabet:
            if c != n[i]:
                yield n[:i] + c + n[i + 1:]
        yield n[:i] + n[i + 1:]
        if i + 1 < len(n) and n[i] != n[i + 1]:
            yield n[:i] + n[i + 1] + n[i] + n[i + 2:]
    for i in range(len(n) + 1):
        for c in alphabet:
            yield n[:i] + c + n[i:]


def unicode_edits(n):
    """same-value non-ASCII decimal digits, and the shared hostile characters, at every position"""
    for i, ch in enumerate(n):
        if ch in D:
            for base in _UNI_DIGIT_BASES:
                yield n[:i] + chr(base + int(ch)) + n[i + 1:]
    for i in sorted({0, 1, 2, 3, len(n) // 2, len(n) - 2, len(n) - 1} & set(range(len(n)))):
        for h in common.HOSTILE:
            yield n[:i] + h + n[i + 1:]
            yield n[:i] + h + n[i:]
    for h in common.HOSTILE:
        yield n + h
        yield h + n


def brute_check(ctx, rng, fmt, n, origin):
    """re-draw some payload positions of n, then try every combination at the check positions on both sides"""
    L = len(n)
    pos = sorted(p % L for p in fmt['check'])
    free = [i for i in range(L) if i not in pos and _chk.char_class(n[i])]
    s = list(n)
    if free:
        r = rng.random()
        k = 1 if r < 0.4 else 2 if r < 0.6 else rng.randrange(1, len(free) + 1)
        for i in rng.sample(free, min(k, len(free))):
            s[i] = rng.choice(_chk.char_class(n[i]))
    found = []
    for combo in itertools.product(fmt['check_alpha'], repeat=len(pos)):
        for p, c in zip(pos, combo):
            s[p] = c
        v = ''.join(s)
        if ctx.compare(v, origin):
            found.append(v)
    return found


def random_strings(rng, fmt, count):
    for _ in range(count):
        L = rng.choice(fmt['lengths']) + rng.choice((0, 0, 0, 0, -1, 1))
        pre = rng.choice(fmt['prefixes'])
        yield pre + ''.join(rng.choice(fmt['alphabet']) for _ in range(max(0, L - len(pre))))


def gen_iban(rng, cc=None, cd=None):
    reg = R.iban_registry()
    cc = cc or rng.choice(sorted(reg))
    bban = ''.join(rng.choice({'n': D, 'a': U, 'c': AN}[k]) for n, k in reg[cc] for _ in range(n))
    if cd is None:
        cd = '%02d' % (98 - R.mod97(bban + cc + '00'))
    return cc + cd + bban


def directed(ctx, rng, tier):
    """format specific material"""
    m = ctx.modname
    big = tier != 'quick'
    if m == 'stdnum.iban':
        for cc in sorted(R.iban_registry()):
            for _ in range(40 if big else 6):
                v = gen_iban(rng, cc)
                ctx.compare(v, 'directed:registry-valid')
                ctx.compare(v.lower(), 'directed:registry-valid')
                ctx.compare(v[:-1], 'directed:registry-length')
                ctx.compare(v + rng.choice(D), 'directed:registry-length')
                # alternative representations of the same remainder: check digits +-97
                n = int(v[2:4])
                for alt in (n - 97, n + 97):
                    if 0 <= alt <= 99:
                        ctx.compare(v[:2] + '%02d' % alt + v[4:], 'directed:check-digits-00-01-99')
        for a in U:
            for b in U:
                if a + b not in R.iban_registry():
                    ctx.compare(gen_iban(rng, 'DE').replace('DE', a + b, 1), 'directed:unknown-country')
    elif m in ('stdnum.bic', 'stdnum.isrc', 'stdnum.isin'):
        seedn = {'stdnum.bic': 'AGRI%sPP', 'stdnum.isrc': '%sSKG1912345', 'stdnum.isin': None}[m]
        for a in U:
            for b in U:
                if seedn:
                    ctx.compare(seedn % (a + b), 'directed:all-country-codes')
                else:
                    body = a + b + '037833100'
                    for c in D:
                        ctx.compare(body + c, 'directed:all-country-codes')
    elif m == 'stdnum.figi':
        for a in CONS + 'AE1':
            for b in CONS + 'AE1':
                body = a + b + 'G000BLNQ1'
                for c in D:
                    ctx.compare(body + c, 'directed:all-prefixes')
    elif m == 'stdnum.gb.sedol':
        for _ in range(3000 if big else 400):
            first = rng.choice(AN)
            body = first + ''.join(rng.choice(AN if rng.random() < 0.3 else D + CONS) for _ in range(5))
            for c in D:
                ctx.compare(body + c, 'directed:old-new-style')
    elif m == 'stdnum.imei':
        for L in range(12, 19):
            for _ in range(300 if big else 40):
                ctx.compare(''.join(rng.choice(D) for _ in range(L)), 'directed:lengths')
    elif m in ('stdnum.lei', 'stdnum.iso11649'):
        pre = 'RF' if m.endswith('11649') else ''
        for L in range(1, 27):
            for _ in range(60 if big else 8):
                body = ''.join(rng.choice(AN if rng.random() < 0.5 else D) for _ in range(L))
                if pre:
                    cd = '%02d' % (98 - R.mod97(body + 'RF00'))
                    ctx.compare('RF' + cd + body, 'directed:all-lengths-with-valid-mod97')
                else:
                    cd = '%02d' % (98 - R.mod97(body + '00'))
                    ctx.compare(body + cd, 'directed:all-lengths-with-valid-mod97')
        for v in ('1', '01', '001', '98', 'RF', 'RF1', 'RF01', '1RF', 'RF 97', 'RF001'):
            ctx.compare(v, 'directed:tiny')
    elif m == 'stdnum.casrn':
        for _ in range(4000 if big else 500):
            a = str(rng.randrange(0, 10 ** rng.randrange(1, 9))).zfill(rng.randrange(1, 9))
            b = '%02d' % rng.randrange(100)
            for c in D:
                ctx.compare('%s-%s-%s' % (a, b, c), 'directed:hyphenated')
                if rng.random() < 0.2:
                    ctx.compare(a + b + c, 'directed:unhyphenated')
            ctx.compare('%s-%s%s' % (a, b, rng.choice(D)), 'directed:misplaced-hyphen')
            ctx.compare('%s--%s-%s' % (a, b, rng.choice(D)), 'directed:misplaced-hyphen')
    elif m == 'stdnum.bitcoin':
        directed_bitcoin(ctx, rng, big)


def directed_bitcoin(ctx, rng, big):
    n = 1500 if big else 200
    for _ in range(n):
        ver = rng.choice((0, 0, 5, 5, 4, 6, 7, 1, 111, 196, 128, rng.randrange(256)))
        hlen = rng.choice((20, 20, 20, 20, 19, 21, 32))
        h = bytes(rng.randrange(256) for _ in range(hlen))
        if rng.random() < 0.2:
            h = b'\x00' * rng.randrange(1, 4) + h[3:]
        v = R.b58check_encode(bytes([ver]) + h)
        ctx.compare(v, 'directed:base58check version=%d len=%d' % (ver if ver in (0, 5, 4, 6, 7) else -1, hlen))
        i = rng.randrange(len(v))
        ctx.compare(v[:i] + rng.choice(R.B58) + v[i + 1:], 'directed:base58check corrupted')
    ctx.compare('1' * 24, 'directed:base58check zeros')
    ctx.compare('1' * 25, 'directed:base58check zeros')
    ctx.compare('1' * 34, 'directed:base58check zeros')
    for _ in range(n):
        wver = rng.choice((0, 0, 0, 1, 1, 2, 15, 16, 17, 20, 31))
        plen = rng.choice((20, 20, 32, 32, 1, 2, 3, 19, 21, 31, 33, 40, 41, 16))
        prog = [rng.randrange(256) for _ in range(plen)]
        data = [wver] + R.convertbits(prog, 8, 5, True)
        hrp = rng.choice(('bc', 'bc', 'bc', 'bc', 'tb', 'BC'))
        const = rng.choice((1, 1, 1, 0x2bc830a3))
        v = R.bech32_encode(hrp.lower(), data, const)
        if hrp == 'BC':
            v = v.upper()
        label = 'directed:bech32 v%s prog%d %s %s' % ('0' if wver == 0 else '1-16' if wver <= 16 else '>16', plen,
                                                     hrp, 'bech32' if const == 1 else 'bech32m')
        ctx.compare(v, label)
        if rng.random() < 0.3:
            i = rng.randrange(3, len(v))
            ctx.compare(v[:i] + v[i].swapcase() + v[i + 1:], 'directed:bech32 mixed case')
            ctx.compare(v[:1].swapcase() + v[1:], 'directed:bech32 mixed case')
        if rng.random() < 0.3:
            # non-zero padding / extra padding group: re-encode with a modified last data value
            d2 = list(data)
            d2[-1] ^= rng.choice((1, 2, 3))
            ctx.compare(R.bech32_encode('bc', d2), 'directed:bech32 padding')
            ctx.compare(R.bech32_encode('bc', data + [0]), 'directed:bech32 padding')
        if rng.random() < 0.1:
            i = rng.randrange(4, len(v))
            ctx.compare(v[:i] + rng.choice(R.B32) + v[i + 1:], 'directed:bech32 corrupted')
    ctx.compare(R.bech32_encode('bc', []), 'directed:bech32 empty')
    ctx.compare(R.bech32_encode('bc', [0]), 'directed:bech32 empty')
    ctx.compare('bc1', 'directed:bech32 empty')
    # overall length limit of 90
    for plen in (40, 41, 45, 50, 52, 53):
        data = [1] + R.convertbits([rng.randrange(256) for _ in range(plen)], 8, 5, True)
        ctx.compare(R.bech32_encode('bc', data), 'directed:bech32 long')


# ----------------------------------------------------------------------------- jobs

def module_job(arg):
    modname, kw, seed, tier = arg
    fmt = FORMATS[modname]
    ctx = Ctx(modname, kw)
    rng = random.Random('C07:%d:%s:%r' % (seed, modname, sorted(kw.items())))
    corp = common.corpus()[modname]
    quick = tier == 'quick'
    for s in corp['valid'] + corp['invalid']:
        ctx.compare(s, 'corpus')
    canon = []
    for v in corp['valid']:
        r = R.reference(modname, v)
        if r is not None and r not in canon:
            canon.append(r)
    seeds = canon[:12] if quick else canon[:80]
    if len(canon) > len(seeds):
        seeds += rng.sample(canon[len(seeds):], min(len(canon) - len(seeds), 8 if quick else 40))
    alpha = fmt['alphabet']
    if modname == 'stdnum.bitcoin':
        alpha = R.B58 + '0OIl'
    for n in seeds:
        for v in single_edits(n, alpha):
            ctx.compare(v, 'single-edit')
        for v in single_edits(n, 'a#*@ Xx'):
            ctx.compare(v, 'single-edit-foreign')
    for n in seeds[:6 if quick else 30]:
        for v in unicode_edits(n):
            ctx.compare(v, 'hostile')
    for n in seeds:
        for v in common.mutations(rng, n, 30 if quick else 200):
            ctx.compare(v, 'hostile')
    if fmt['check'] and canon:
        pool = list(canon)
        two = len(fmt['check']) > 1
        for _ in range((60 if two else 600) if quick else (600 if two else 8000)):
            n0 = rng.choice(pool)
            new = brute_check(ctx, rng, fmt, n0, 'payload-x-all-check-characters')
            for v in new:
                r = R.reference(modname, v)
                if r == v and len(pool) < 5000:
                    pool.append(v)
        # single edits around synthesised numbers as well
        for n in rng.sample(pool, min(len(pool), 10 if quick else 150)):
            for v in single_edits(n, alpha):
                ctx.compare(v, 'single-edit')
            for v in unicode_edits(n):
                ctx.compare(v, 'hostile')
    for v in random_strings(rng, fmt, 3000 if quick else 60000):
        ctx.compare(v, 'random-over-alphabet')
    directed(ctx, rng, tier)
    return {'label': modname + (' ' + repr(kw) if kw else ''), 'cases': ctx.cases, 'nontrivial': ctx.nontrivial,
            'dist': ctx.dist, 'sites': ctx.col.export(), 'samples': ctx.samples}


def exhaustive_job(arg):
    """complete payload spaces: every payload x every check character, both sides"""
    kind, lo, hi, step = arg
    modname, width, checks = {'imo': ('stdnum.imo', 6, D), 'issn': ('stdnum.issn', 7, D + 'X'),
                              'ean8': ('stdnum.ean', 7, D), 'isbn10': ('stdnum.isbn', 9, D + 'X'),
                              'sbn': ('stdnum.isbn', 8, D + 'X')}[kind]
    ctx = Ctx(modname, {})
    validate = ctx.mod.validate
    ref = R.REFERENCES[modname]
    VE = common.validation_error_class()
    cases = agree_acc = 0
    for p in range(lo, hi, step):
        body = str(p).zfill(width)
        for c in checks:
            s = body + c
            cases += 1
            try:
                a = validate(s)
            except VE:
                a = None
            try:
                b = ref(s)
            except R.Reject:
                b = None
            if a != b:
                ctx.compare(s, 'exhaustive:' + kind)
            elif a is not None:
                agree_acc += 1
    return {'label': 'exhaustive:' + kind, 'cases': cases, 'nontrivial': cases,
            'dist': dict(ctx.dist, both_accept=agree_acc + ctx.dist.get('both_accept', 0), **{'by_generator:exhaustive:' + kind: cases}),
            'sites': ctx.col.export(), 'samples': []}


def exhaustive_jobs(seed, tier):
    jobs = []

    def split(kind, total, step, parts):
        off = seed % step
        size = -(-total // parts)
        size += (-size) % step
        for lo in range(0, total, size):
            jobs.append((kind, lo + off, min(total, lo + size), step))
    if tier == 'quick':
        split('imo', 10 ** 6, 1, 16)
        split('issn', 10 ** 7, 100, 16)
        split('ean8', 10 ** 7, 100, 8)
        split('isbn10', 10 ** 9, 20011, 8)
    else:
        split('imo', 10 ** 6, 1, 16)
        split('issn', 10 ** 7, 1, 64)
        split('ean8', 10 ** 7, 1, 64)
        split('isbn10', 10 ** 9, 2003, 32)
        split('sbn', 10 ** 8, 211, 16)
    return jobs


def _dispatch(arg):
    return exhaustive_job(arg[1]) if arg[0] == 'x' else module_job(arg[1])


def search(seed, tier):
    common.corpus()
    R.iban_registry()
    jobs = []
    for name in FORMATS:     # module jobs first: the long ones (iban, lei, iso11649) must not trail
        for kw in FORMATS[name]['variants']:
            jobs.append(('m', (name, kw, seed, tier)))
    jobs += [('x', j) for j in exhaustive_jobs(seed, tier)]
    results = _chk.pmap(_dispatch, jobs)
    col = _chk.Collector()
    dist = {'per_module': {}, 'totals': {}}
    cases = nontrivial = 0
    for r in results:
        col.merge(r['sites'])
        cases += r['cases']
        nontrivial += r['nontrivial']
        _chk.add_counts(dist['per_module'].setdefault(r['label'], {}), dict(r['dist'], cases=r['cases']))
        _chk.add_counts(dist['totals'], {k: v for k, v in r['dist'].items() if not k.startswith('by_generator:directed')})
    dist['failing_per_site'] = col.per_site()
    failing = col.failing()
    samples = []
    for name in ('stdnum.issn', 'stdnum.iban', 'stdnum.bitcoin', 'stdnum.lei', 'stdnum.figi'):
        v = (common.valid_numbers(name) or ['?'])[0]
        ref, why = R.explain(name, v)
        o = _chk.call(common.module(name).validate, v)
        samples.append({'module': name, 'input': v, 'validate': _chk.fmt_outcome(o), 'reference': ref, 'generator': 'corpus'})
        w = v[:-1] + ('0' if v[-1] != '0' else '1')
        ref, why = R.explain(name, w)
        o = _chk.call(common.module(name).validate, w)
        samples.append({'module': name, 'input': w, 'validate': _chk.fmt_outcome(o), 'reference': ref,
                        'reference_reason': why, 'generator': 'single-edit'})
    return {
        'cases': cases,
        'distinct_nontrivial': nontrivial,
        'rule': ('19 modules; per module: corpus strings, every single edit (substitution by every alphabet character, '
                 'deletion, insertion, adjacent swap) of canonical valid numbers (corpus + synthesised), payload x all '
                 'check characters (class preserving payload re-draws, every combination at the check position(s) '
                 'evaluated on both sides), random strings over the alphabet at the plausible lengths, hostile / '
                 'non-ASCII characters, format specific directed generators (all country prefixes, IBAN registry '
                 'driven, Base58Check / Bech32 encoders), exhaustive payload spaces: IMO all 10^6, ISSN / EAN-8 '
                 '10^5 stride sample (quick) or all 10^7 (thorough), ISBN-10 / SBN stride samples; each payload x '
                 'every check character.  Distinct strings only.  Non-trivial = at least one side accepts, or a '
                 'side rejects for the checksum only (the string passed every shape gate).'),
        'failing': failing,
        'samples': samples,
        'distribution': dist,
    }


def replay(case):
    with common.frozen_today(_chk.case_today(case)):
        args, kwargs = _chk.case_args(case)
        ctx = Ctx(case['module'], kwargs)
        ctx.compare(args[0], case.get('generator', 'replay'))
        for c in ctx.col.failing():
            c.pop('site_total', None)
            return dict(case, observed=c['observed'], expected=c['expected'], site=c['site'], relation=c['relation'])
        return None


if __name__ == '__main__':
    _chk.cli(globals())
