"""C16 - GS1-128 decoding and encoding are mutually consistent.

Mappings of 1..5 registered application identifiers (own reading of gs1_ai.dat, see _gs1.py) with values admitted
by the declared format/type are generated; for separator in {'' (none), '\\x1d', '^', '~'} x parentheses on/off:
  (a) round-trip        info(encode(m, sep, par), sep) == m          (values compared as Python values)
  (b) hand-built x      x = concatenation, in random order, of AI + value text (+ separator after every value whose
                        AI needs FNC1, except the last; without a separator such values are padded to their maximum
                        length the way the library documents: spaces for text, zeros for numbers):
                            info(x, sep) == m,  v = validate(x, sep) succeeds,  info(v, sep) == info(x, sep),
                            validate(v, sep) == v
  (c) is_valid          is_valid(x, sep) <=> validate(x, sep) succeeds
Outside the property and never generated: values with spaces, years outside strptime's %y window (1969..2068),
values containing the separator, empty values, AIs that are not in the registry.  Values containing '(' or ')'
(legal in GS1 character set 82) are generated but labelled separately because compact() deletes parentheses.
"""
import datetime
import os
import random
import sys

sys.path.insert(0, os.path.dirname(os.path.abspath(__file__)))
sys.path.insert(0, os.path.dirname(os.path.dirname(os.path.abspath(__file__))))   # tools/
import common  # noqa: E402
import _engine as E  # noqa: E402
import _gs1  # noqa: E402

PROPERTY = 'C16'
SEPARATORS = ['', '\x1d', '^', '~', '[FNC1]']   # the last one is the multi-character stand-in of the library's own doctests

RULE = ('mappings: k in 1..5 distinct AIs drawn from the 213 registered ones (every AI is drawn at least once as a '
        'singleton with min / max / random length values), values from the declared format: fixed and variable '
        'numeric, alphanumeric over GS1 character set 82 / 39 / 64, dates (hand-built strings also with day 00), date '
        'ranges, datetimes with optional minutes/seconds, decimals with 0..9 implied places incl. leading zeros, '
        'currency-prefixed amounts, optional tails; each mapping x 4 separators x parentheses on/off x relations (a) '
        '(b) (c). Failing mappings are minimised (AIs dropped while the same relation still fails) and the label names '
        'the formats left. Non-trivial = distinct (mapping, separator, parentheses) triples; every relation '
        'evaluation counts as a case.')


def gs1():
    return common.module('stdnum.gs1_128')


_AIS = None


def ais():
    global _AIS
    if _AIS is None:
        lst, problems = _gs1.load_ais(common.REPO)
        _AIS = dict((a.ai, a) for a in lst)
    return _AIS


# ----------------------------------------------------------------------------- building inputs

def last_day(d):
    return (datetime.date(d.year + (d.month == 12), d.month % 12 + 1, 1) - datetime.timedelta(days=1))


def gen_item(rng, ai, mode='any'):
    """-> (ai, value, text, tags)"""
    v, text, tags = _gs1.gen_value(rng, ai, mode)
    return [ai.ai, v, text, sorted(tags)]


def handbuilt(items, sep, par, order, day00, extra_sep):
    """element string built by hand from the mapping; -> (x, expected mapping as list)"""
    table = ais()
    out = []
    want = []
    seq = [items[i] for i in order]
    for pos, (ai, value, text, tags) in enumerate(seq):
        a = table[ai]
        last = pos == len(seq) - 1
        if ai in day00 and a.type == 'date' and isinstance(value, datetime.date) and not isinstance(value, datetime.datetime) and len(text) == 6:
            value = last_day(value)
            text = text[:4] + '00'
        want.append((ai, value))
        s = ('(%s)' % ai if par else ai)
        if a.fnc1 and not last:
            s += (text + sep) if sep else _gs1.pad(a, text)
        else:
            s += text
            if sep and not last and ai in extra_sep:
                s += sep
        out.append(s)
    return ''.join(out), want


# ----------------------------------------------------------------------------- relations

def rel_roundtrip(items, sep, par):
    """-> None | (function, args description, observed Out/str, expected, exc site or None)"""
    g = gs1()
    m = dict((ai, v) for ai, v, t, tg in items)
    enc = E.call(g.encode, m, sep, par)
    if enc.kind != 'ok':
        return ('encode', enc.show(), 'an element string', enc.site if enc.kind == 'exc' else None, 'encode-accepts-admitted-values')
    dec = E.call(g.info, enc.value, sep)
    if dec.kind != 'ok':
        return ('info', 'encode gives %r; info %s' % (enc.value, dec.show()), 'the mapping', dec.site if dec.kind == 'exc' else None,
                'round-trip')
    if not _gs1.same_mapping(dec.value, m):
        return ('info', 'encode gives %r; info returns %s' % (enc.value, E.short(dec.value, 300)), 'the mapping %s' % E.short(m, 300), None,
                'round-trip')
    return None


def rel_handbuilt(items, sep, par, order, day00, extra_sep):
    g = gs1()
    x, want = handbuilt(items, sep, par, order, day00, extra_sep)
    want = dict(want)
    ix = E.call(g.info, x, sep)
    if ix.kind != 'ok':
        return ('info', 'x=%r; info(x) %s' % (x, ix.show()), 'the mapping', ix.site if ix.kind == 'exc' else None, 'handbuilt-decodes')
    if not _gs1.same_mapping(ix.value, want):
        return ('info', 'x=%r; info(x) returns %s' % (x, E.short(ix.value, 300)), 'the mapping %s' % E.short(want, 300), None, 'handbuilt-decodes')
    vo = E.call(g.validate, x, sep)
    if vo.kind != 'ok':
        return ('validate', 'x=%r; validate(x) %s' % (x, vo.show()), 'the validated form', vo.site if vo.kind == 'exc' else None,
                'validate-accepts-wellformed')
    iv = E.call(g.info, vo.value, sep)
    if iv.kind != 'ok' or not _gs1.same_mapping(iv.value, ix.value):
        return ('validate', 'x=%r; v=%r; info(v) %s; info(x) returns %s' % (x, vo.value, iv.show(), E.short(ix.value, 200)),
                'info(v) == info(x)', iv.site if iv.kind == 'exc' else None, 'validated-form-decodes-the-same')
    vv = E.call(g.validate, vo.value, sep)
    if vv.kind != 'ok' or vv.value != vo.value:
        return ('validate', 'x=%r; v=%r; validate(v) %s' % (x, vo.value, vv.show()), 'validate(v) == v',
                vv.site if vv.kind == 'exc' else None, 'validated-form-is-fixed-point')
    return None


def rel_is_valid(items, sep, par, order, day00, extra_sep):
    g = gs1()
    x, want = handbuilt(items, sep, par, order, day00, extra_sep)
    vo = E.call(g.validate, x, sep)
    io = E.call(g.is_valid, x, sep)
    if io.kind != 'ok' or io.value is not (vo.kind == 'ok'):
        return ('is_valid', 'x=%r; is_valid(x, sep) %s; validate(x, sep) %s' % (x, io.show(), vo.show()),
                'is_valid agrees with validate', io.site if io.kind == 'exc' else None, 'is_valid-agrees-with-validate')
    return None


RELATIONS = {'roundtrip': rel_roundtrip, 'handbuilt': rel_handbuilt, 'is_valid': rel_is_valid}
SALIENT = ['decimal-text-longer-than-field', 'decimal-exponent-notation', 'time-0000', 'minute-00', 'second-00', 'round-time-field',
           'int-leading-zeros', 'date-range']


def run_relation(name, items, sep, par, order, day00, extra_sep):
    if name == 'roundtrip':
        return rel_roundtrip(items, sep, par)
    return RELATIONS[name](items, sep, par, order, day00, extra_sep)


def minimise(name, items, sep, par, order, day00, extra_sep, failure):
    """drop AIs while the same relation (same function / relation label / exception site) still fails"""
    cur, cur_order = list(items), list(order)
    changed = True
    while changed and len(cur) > 1:
        changed = False
        for i in range(len(cur)):
            cand = cur[:i] + cur[i + 1:]
            rank = [o for o in cur_order if o != i]
            cand_order = [sorted(rank).index(o) for o in rank]
            f = run_relation(name, cand, sep, par, cand_order, day00, extra_sep)
            if f is not None and (f[0], f[4], f[3]) == (failure[0], failure[4], failure[3]):
                cur, cur_order, failure, changed = cand, cand_order, f, True
                break
    return cur, cur_order, failure


def diagnose(items, sep, failure, name='roundtrip', order=None):
    """categorical description of the (minimised) failing mapping for the root-cause label: value shapes
    (fixed/variable length, type, FNC1 needed, salient value class), never the concrete AIs or values"""
    table = ais()
    sepword = 'no separator' if sep == '' else 'with separator'
    if failure[4] == 'is_valid-agrees-with-validate':
        return sepword
    def shape(a):
        return '%s-%s%s' % ('fixed' if a.fixed_length() else 'variable', a.type, '-fnc1' if a.fnc1 else '')
    if len(items) == 1:
        ai, v, text, tags = items[0]
        sal = [t for t in SALIENT if t in tags]
        return shape(table[ai]) + ('[' + ','.join(sal) + ']' if sal else '')
    if sep == '':
        if name == 'roundtrip' or failure[4].startswith('validated-form'):      # encode(): fixed-size values first, then the FNC1 ones, each group sorted by AI
            seq = sorted(ai for ai, v, text, tags in items if table[ai].fnc1)[:-1]
        else:
            seq = [items[i][0] for i in (order or range(len(items)))][:-1]
        padded = sorted(set(shape(table[ai]) for ai in seq if table[ai].fnc1))
        return 'no separator, padded value of ' + (' + '.join(padded) or 'nothing')
    return ' + '.join(sorted(set(shape(table[ai]) for ai, v, text, tags in items))) + ' ; ' + sepword


def noparen(v):
    if isinstance(v, str):
        return v.replace('(', '*').replace(')', '*')
    return v


def evaluate(ctx_col, found, items, sep, par, order, day00, extra_sep, names=('roundtrip', 'handbuilt', 'is_valid')):
    for name in names:
        if ctx_col is not None:
            ctx_col.tick('relation:' + name, 'sep:%r' % sep, 'par:%s' % par, 'k:%d' % len(items))
        f = run_relation(name, items, sep, par, order, day00, extra_sep)
        if f is None:
            continue
        mitems, morder, f = minimise(name, items, sep, par, order, day00, extra_sep, f)
        function, observed, expected, site, relation = f
        paren_cause = False
        if any('parenthesis-in-value' in tg for ai, v, t, tg in mitems):
            # does the failure go away when the parentheses inside the values are replaced by another character?
            sub = [[ai, noparen(v), noparen(t), [x for x in tg if x != 'parenthesis-in-value']] for ai, v, t, tg in mitems]
            f2 = run_relation(name, sub, sep, par, morder, day00, extra_sep)
            if f2 is None:
                paren_cause = True
            else:       # the parentheses are not the cause: go on with the parenthesis-free mapping
                mitems, morder, f = minimise(name, sub, sep, par, morder, day00, extra_sep, f2)
                function, observed, expected, site, relation = f
        diag = 'value contains parenthesis' if paren_cause else diagnose(mitems, sep, f, name, morder)
        if paren_cause:
            # compact() deletes every parenthesis, also those inside values; how it surfaces (wrong value, or an
            # exception after the fixed-width slicing got out of step) depends on the input, the cause does not
            site = 'stdnum/gs1_128.py:compact:%s: %s' % (relation, diag)
        elif site is None:
            site = 'stdnum/gs1_128.py:%s:%s: %s' % (function, relation, diag)
        else:       # an exception: the raising line names the symptom, the diagnosis the shape of the values that cause it
            site = '%s [%s]' % (site, diag)
        m = [(ai, v) for ai, v, t, tg in mitems]
        x = handbuilt(mitems, sep, par, morder, day00, extra_sep)[0] if name != 'roundtrip' else None
        args = [repr(dict(m)) if name == 'roundtrip' else x, sep] + ([par] if name == 'roundtrip' else [])
        case = E.mkcase('stdnum.gs1_128', function, args, observed, expected, site, relation,
                        check=name, items=[[ai, _gs1.enc_value(v), t, tg] for ai, v, t, tg in mitems], sep=sep, par=par,
                        order=morder, day00=sorted(day00), extra_sep=sorted(extra_sep), diagnosis=diag)
        found.append(case)
        if ctx_col is not None:
            ctx_col.fail(case)


# ----------------------------------------------------------------------------- driver

def _worker(task):
    seed, tier, chunk, nchunks, nmappings = task
    rng = random.Random('%s/c16/%d' % (seed, chunk))
    col = E.Collector()
    table = ais()
    keys = sorted(table)
    found = []
    mappings = []
    # every AI alone, in three length modes
    for ai in keys[chunk::nchunks]:
        for mode in ('min', 'max', 'any'):
            mappings.append([gen_item(rng, table[ai], mode)])
    for _ in range(nmappings):
        k = rng.choice([1, 2, 2, 3, 3, 4, 5])
        chosen = rng.sample(keys, k)
        mappings.append([gen_item(rng, table[ai], rng.choice(['any', 'any', 'min', 'max'])) for ai in chosen])
    for items in mappings:
        if any(v is None for ai, v, t, tg in items):
            col.count('skipped:no-value-model')
            continue
        order = list(range(len(items)))
        rng.shuffle(order)
        day00 = set(ai for ai, v, t, tg in items if rng.random() < 0.25)
        extra_sep = set(ai for ai, v, t, tg in items if rng.random() < 0.2)
        for ai, v, t, tg in items:
            a = table[ai]
            col.count('format:%s/%s' % (a.format, a.type))
            for tag in tg:
                col.count('value:' + tag)
        for sep in SEPARATORS:
            for par in (False, True):
                col.nontriv('%s|%r|%s' % (sorted((ai, t) for ai, v, t, tg in items), sep, par))
                evaluate(col, found, items, sep, par, order, day00, extra_sep)
        if len(col.samples) < 2:
            m = dict((ai, v) for ai, v, t, tg in items)
            col.sample({'mapping': E.short(m, 300), 'encode(sep=\\x1d)': E.call(gs1().encode, m, '\x1d').show(),
                        'handbuilt(sep=\\x1d, parentheses)': handbuilt(items, '\x1d', True, order, day00, extra_sep)[0]})
    return col.dump()


def search(seed, tier):
    nchunks = 16
    nmappings = 50 if tier == 'quick' else 450
    tasks = [(seed, tier, c, nchunks, nmappings) for c in range(nchunks)]
    col = E.Collector()
    for d in E.pmap(_worker, tasks):
        col.merge(d)
    return col.result(RULE, registered_ais=len(ais()))


def replay(case):
    if 'items' not in case:
        return None
    items = [[ai, _gs1.dec_value(v), t, tg] for ai, v, t, tg in case['items']]
    found = []
    evaluate(None, found, items, case.get('sep', ''), case.get('par', False), case.get('order', list(range(len(items)))),
             set(case.get('day00', [])), set(case.get('extra_sep', [])), names=(case.get('check', 'roundtrip'),))
    same = [c for c in found if c['relation'] == case.get('relation')]
    found = same or found
    return found[0] if found else None


if __name__ == '__main__':
    E.main(sys.modules[__name__])
