"""C01 - validate()/is_valid() error contract holds for every input.  Failing-input search, real code only."""
import os
import sys
import time

sys.path.insert(0, os.path.dirname(os.path.dirname(os.path.abspath(__file__))))   # tools/
sys.path.insert(0, os.path.dirname(os.path.abspath(__file__)))
import common   # noqa: E402
import _modgen as G   # noqa: E402

PROPERTY = 'C01'

RULE = (
    'per module (all of common.number_modules()): corpus valid/invalid numbers; common.mutations of them; every '
    'common.HOSTILE character inserted and substituted at every position of a few shape-diverse valid numbers; '
    'near-valid numbers (every position x every digit / some letters, deletions, duplications, transpositions); '
    'very long strings (10^4..10^5 characters of digits and of a repeated valid number, 4300/4301-digit '
    'boundary; failing long inputs are shrunk by bisection on the repeat count); empty / whitespace-only '
    'strings; all common.non_strings() values plus str subclass and objects whose __str__/__iter__/__len__ '
    'raise ordinary exceptions (fresh object per call); random garbage; every keyword option of '
    'validate/is_valid found by inspect.signature at documented values (one at a time and small products); '
    'several frozen dates for the modules that read the clock (source grep for today()/now() + importers). '
    'Predicate: validate returns a str or raises a ValidationError subclass; is_valid does not raise, returns '
    'exactly True/False, and equals "validate returned" for a fresh equal input and the same options (only '
    'options that both functions accept are passed to is_valid). ' + G.NONTRIVIAL_RULE)

EXPECT_V = 'str result or ValidationError subclass'
EXPECT_I = 'exactly True/False, True iff validate() returns, never raises'

PARAMS = {
    'quick': dict(corpus=60, mut_numbers=40, mut_each=2, hostile_numbers=2, near_numbers=2, long_sizes=(10000,),
                  garbage=150, opt_inputs=40, dates=G.QUICK_DATES, pairs=100),
    'thorough': dict(corpus=400, mut_numbers=400, mut_each=12, hostile_numbers=8, near_numbers=6,
                     long_sizes=(10000, 100000), garbage=3000, opt_inputs=250, dates=G.THOROUGH_DATES, pairs=3000),
}

BLANKS = ['', ' ', '  ', '\n', '\t', '\r\n', ' \n ', '\x00', '\x0b\x0c', '\xa0', '　', '   ',
          '-', '--', '.', '/', ' - ', '\ud800', '\x1c\x1d\x1e\x1f', '\x85', ' ', ' ', '﻿', '​']


def _worker(task):
    modname, part, nparts, seed, tier = task
    mod = common.module(modname)
    sc = G.budget_scale(mod)
    P = G.scaled_params(PARAMS[tier], sc, tier)
    rng = G.task_rng(seed, PROPERTY, modname, part)
    fnd, st = G.Findings(), G.Stats()
    rf = G.relfile(mod)
    generic = modname in common.GENERIC_MODULES
    corp = common.corpus()[modname]
    valid_all = corp['valid']
    valid = G.part_slice(valid_all[:P['corpus']], part, nparts)
    invalid = G.part_slice(corp['invalid'][:P['corpus']], part, nparts)
    vopts = G.option_sets(mod, 'validate')
    samples = []

    def violation(fn, site, x, spec, kw, today, observed, expected, relation):
        size = G.wsize(kw, x)
        # ties: plain common.non_strings() values before the hostile objects
        tb = ('0' if spec is None or spec[0] == 'ns' else '1') + repr(
            (x if spec is None else spec, G.kw_key(kw), str(today)))[:400]
        fnd.add(modname, fn, site, size, tb, lambda: G.make_case(
            modname, fn, [x], kw, observed, expected, site, relation, today=today,
            arg_descr=[G.describe_spec(spec)] if spec is not None else None))

    def evaluate(x, spec, kw, timeout=0):
        """-> (outcome of validate, list of (fn, site, observed, expected, relation))"""
        viol = []
        a = G.build_spec(spec) if spec is not None else x
        o = G.call(mod, 'validate', mod.validate, (a,), kw, timeout)
        if o[0] == 'exc':
            viol.append(('validate', o[2], 'raises %s' % o[1], EXPECT_V, 'validate raises only ValidationError'))
        elif o[0] == 'ok' and not isinstance(o[1], str):
            viol.append(('validate', '%s:validate:returns_non_string' % rf,
                         'returns %s %s' % (type(o[1]).__name__, G.short(repr(o[1]), 50)), EXPECT_V,
                         'validate returns a string'))
        if o[0] != 'timeout' and G.accepts(mod, 'is_valid', kw):
            a = G.build_spec(spec) if spec is not None else x
            i = G.call(mod, 'is_valid', mod.is_valid, (a,), kw, timeout)
            if i[0] in ('exc', 'verr'):
                site = i[2] or '%s:is_valid:raises_validation_error' % rf
                viol.append(('is_valid', site, 'raises %s' % i[1], EXPECT_I, 'is_valid never raises'))
            elif i[0] == 'ok' and not (i[1] is True or i[1] is False):
                viol.append(('is_valid', '%s:is_valid:not_bool' % rf, 'returns %s' % G.short(repr(i[1]), 50),
                             EXPECT_I, 'is_valid returns exactly True or False'))
            elif i[0] == 'ok' and i[1] != (o[0] == 'ok'):
                viol.append(('is_valid', '%s:is_valid:disagrees_with_validate' % rf,
                             'is_valid -> %r but validate %s' % (
                                 i[1], 'returned ' + G.short(repr(o[1]), 40) if o[0] == 'ok' else 'raised ' + o[1]),
                             EXPECT_I, 'is_valid is True precisely when validate returns'))
        return o, viol

    thin = G.Thinner(sc, tier)

    def check(gen, x, kw=None, today=None, spec=None, timeout=0):
        kw = kw or {}
        if thin.skip(gen):
            return None, []
        o, viol = evaluate(x, spec, kw, timeout)
        klass = 'ok' if o[0] == 'ok' else '%s:%s' % (o[0], o[1])
        key = (x if spec is None else ('<ns>',) + tuple(spec), G.kw_key(kw), today)
        st.record(gen, key, klass)
        for fn, site, observed, expected, relation in viol:
            violation(fn, site, x, spec, kw, today, observed, expected, relation)
        if len(samples) < 12 and not any(s['gen'] == gen for s in samples):
            samples.append({'module': modname, 'gen': gen, 'function': 'validate+is_valid',
                            'args': [G.describe_spec(spec) if spec is not None else
                                     G.describe_arg(x if len(x) <= 200 else x[:200])],
                            'kwargs': G.describe_kwargs(kw), 'today': today and today.isoformat(),
                            'outcome': klass, 'violations': len(viol)})
        return o, viol

    # --- corpus
    for v in valid:
        check('corpus-valid', v)
    for v in invalid:
        check('corpus-invalid', v)
    # --- mutations
    pool = (valid + invalid)
    for v in pool[:P['mut_numbers']]:
        for y in common.mutations(rng, v, P['mut_each']):
            check('mutation', y)
        if tier == 'thorough':      # second-order mutations
            for y in common.mutations(rng, v, 2):
                for z in common.mutations(rng, y, 1):
                    check('mutation2', z)
    base = G.diverse(valid_all, max(P['hostile_numbers'], P['near_numbers']) * nparts)
    base = G.part_slice(base, part, nparts)
    compact = getattr(mod, 'compact', None)
    # --- hostile characters at every position
    for v in base[:P['hostile_numbers']]:
        forms = [v]
        if compact is not None:
            try:
                c = compact(v)
                if isinstance(c, str) and c != v and c:
                    forms.append(c)
            except Exception:   # noqa: B902
                pass
        for f in forms[:2 if tier == 'thorough' else 1]:
            for ch in common.HOSTILE:
                for i in range(len(f) + 1):
                    check('hostile-insert', f[:i] + ch + f[i:])
                for i in range(len(f)):
                    check('hostile-subst', f[:i] + ch + f[i + 1:])
    # --- pairs of hostile characters
    if base:
        for _ in range(P['pairs'] // nparts):
            v = rng.choice(base)
            i, j = sorted((rng.randrange(len(v) + 1), rng.randrange(len(v) + 1)))
            a, b = rng.choice(common.HOSTILE), rng.choice(common.HOSTILE)
            check('hostile-pair', v[:i] + a + v[i:j] + b + v[j:])
    # --- near valid
    for v in base[:P['near_numbers']]:
        f = v
        if compact is not None:
            try:
                c = compact(v)
                if isinstance(c, str) and c:
                    f = c
            except Exception:   # noqa: B902
                pass
        for i in range(len(f)):
            for ch in '0123456789' + ('AXZ' if tier == 'quick' else 'ABCDEFGHIJKLMNOPQRSTUVWXYZ'):
                if ch != f[i]:
                    check('near-valid', f[:i] + ch + f[i + 1:])
            check('near-valid', f[:i] + f[i + 1:])
            check('near-valid', f[:i] + f[i] + f[i:])
            if i + 1 < len(f):
                check('near-valid', f[:i] + f[i + 1] + f[i] + f[i + 2:])
        for ch in '0123456789AX':
            check('near-valid', f + ch)
            check('near-valid', ch + f)
    if part == 0:
        # --- one input per row of the tables of the module (aliases, codes), self-similar numbers, extremal shapes
        for v in valid_all[:2]:
            for lab, y in G.table_variants(mod, v, rng, 400 if tier == 'quick' else 6000):
                check('table', y)
        for v in valid_all[:1 if tier == 'quick' else 8]:
            for lab, y in G.self_similar(v, rng, 150 if tier == 'quick' else 1500):
                o, _v = check('self-similar', y)
                if o is not None and o[0] == 'ok':
                    for z in G.case_presentations(y):
                        check('self-similar', z)
        for v in common.extremal_numbers(modname):
            check('extremal', v)
            for y in common.mutations(rng, v, 4):
                check('extremal', y)
        # --- blanks
        for b in BLANKS + [w * k for w in common.WHITESPACE for k in (1, 2, 7)]:
            check('blank', b)
        # --- non strings
        payloads = [''] + valid_all[:1]
        for spec in G.nonstring_specs(payloads):
            check('non-string', None, spec=spec)
        for v in valid_all[:3]:
            check('non-string', None, spec=('extra', 'StrSub', v))
            check('non-string', None, spec=('extra', 'IterOnly', v))
        # --- very long strings
        longs = []
        v0 = valid_all[0] if valid_all else '1'
        units = ['1', '0', '9', '12', v0, 'A', ' ', '-', '\n', '1 ', '٣', '１']
        if compact is not None:
            try:
                c = compact(v0)
                if isinstance(c, str) and c and c not in units:
                    units.append(c)
            except Exception:   # noqa: B902
                pass
        for size in P['long_sizes']:
            for u in units:
                longs.append((u, max(1, size // len(u))))
        for n in (4299, 4300, 4301, 5000):
            longs.append(('1', n))
            longs.append(('7', n))
        for u, times in longs:
            x = u * times
            o, viol = evaluate(x, None, {}, timeout=60)
            klass = 'ok' if o[0] == 'ok' else '%s:%s' % (o[0], o[1])
            st.record('long', (u, times), klass)
            for fn, site, observed, expected, relation in viol:
                # shrink: smallest repeat count with the same violation (assumes monotone; verified at the end)
                lo, hi = 1, times
                while lo < hi:
                    mid = (lo + hi) // 2
                    _o, v2 = evaluate(u * mid, None, {}, timeout=60)
                    if any(w[0] == fn and w[1] == site for w in v2):
                        hi = mid
                    else:
                        lo = mid + 1
                _o, v2 = evaluate(u * lo, None, {}, timeout=60)
                hit = [w for w in v2 if w[0] == fn and w[1] == site]
                if hit:
                    violation(fn, site, u * lo, None, {}, None, hit[0][2], expected, relation)
                else:
                    violation(fn, site, x, None, {}, None, observed, expected, relation)
        # also: a valid number followed / preceded by a long tail
        for tail in ('0' * 5000, ' ' * 20000, '\n' * 3000):
            check('long', v0 + tail, timeout=60)
            check('long', tail + v0, timeout=60)
    # --- random garbage
    alpha = '0123456789' * 3 + 'ABCDEFGHIJKLMNOPQRSTUVWXYZabcxyz' + ''.join(common.HOSTILE)
    lens = sorted(set(len(v) for v in valid_all[:50])) or [8]
    for _ in range(P['garbage'] // nparts):
        k = rng.choice(lens) + rng.choice((0, 0, 0, -1, 1, 2))
        r = rng.random()
        if r < 0.4:
            s = ''.join(rng.choice('0123456789') for _ in range(max(0, k)))
        elif r < 0.6:
            s = ''.join(rng.choice('0123456789ABCDEFGHIJKLMNOPQRSTUVWXYZ') for _ in range(max(0, k)))
        else:
            s = ''.join(rng.choice(alpha) for _ in range(max(0, k)))
        check('random', s)
    # --- options
    opt_inputs = (valid + invalid[:len(valid) // 2 + 5])[:P['opt_inputs']]
    extra = []
    for v in opt_inputs[:P['opt_inputs'] // 4]:
        extra.extend(common.mutations(rng, v, 2))
    for kw in vopts[1:]:
        gen = 'option:' + ','.join(sorted(kw))
        for x in opt_inputs + extra:
            check(gen, x, kw)
        if part == 0:
            for b in BLANKS[:8]:
                check(gen, b, kw)
            for spec in G.nonstring_specs(['']):
                check(gen, None, kw, spec=spec)
        # the generic algorithms: numbers over the supplied alphabet
        alphabet = kw.get('alphabet')
        if isinstance(alphabet, str):
            ccd = getattr(mod, 'calc_check_digit', None)
            for _ in range(200 if tier == 'quick' else 1500):
                s = ''.join(rng.choice(alphabet) for _ in range(rng.randrange(0, 14)))
                check(gen, s, kw)
                if ccd is not None and s:
                    try:
                        check(gen, s + ccd(s, alphabet), kw)
                    except Exception:   # noqa: B902
                        pass
                if s:
                    check(gen, common.mutations(rng, s, 1)[0], kw)
        if 'table' in kw and kw['table'] is not None:
            for _ in range(200 if tier == 'quick' else 1500):
                s = ''.join(rng.choice('0123456789') for _ in range(rng.randrange(0, 14)))
                check(gen, s, kw)
                if s:
                    try:
                        check(gen, s + mod.calc_check_digit(s, kw['table']), kw)
                    except Exception:   # noqa: B902
                        pass
        if 'separator' in kw and kw['separator']:
            sep = kw['separator']
            for v in valid[:60]:
                for i in range(0, len(v) + 1):
                    check(gen, v[:i] + sep + v[i:], kw)
    # --- frozen dates
    clock = G.clock_modules()
    if modname in clock['all']:
        direct = modname in clock['direct']
        d_inputs = valid + invalid[:len(valid)]
        if not direct:
            d_inputs = d_inputs[:30]
        near = []
        for v in base[:2]:
            f = v
            for i in range(len(f)):
                if f[i].isdigit():
                    for ch in '0159':
                        if ch != f[i]:
                            near.append(f[:i] + ch + f[i + 1:])
        for today in P['dates']:
            with common.frozen_today(today):
                for kw in (vopts if direct else vopts[:1]):
                    for x in d_inputs:
                        check('date', x, kw, today=today)
                    if direct:
                        for x in near:
                            check('date', x, kw, today=today)
    return {'module': modname, 'task': (modname, part), 'stats': st.summary(), 'findings': fnd.export(),
            'samples': samples}


def search(seed, tier):
    t0 = time.time()
    names = [m.__name__ for m in common.number_modules()]
    tasks = [(n, p, k, seed, tier) for (n, p, k) in G.module_tasks(names, tier, 60 if tier == 'thorough' else 30)]
    results = G.run_tasks(_worker, G.schedule(tasks))
    results.sort(key=lambda r: r['task'])
    clock = G.clock_modules()
    options = {}
    for m in common.number_modules():
        o = G.option_sets(m, 'validate')
        if len(o) > 1:
            options[m.__name__] = [dict((k, repr(v)[:40]) for k, v in kw.items()) for kw in o]
    res, _ = G.merge_results(PROPERTY, RULE, results, t0, {
        'clock_modules_direct': clock['direct'], 'clock_modules_all': clock['all'], 'option_sets': options})
    return res


def replay(case):
    mod, args, kwargs, today = G.case_inputs(case)
    rf = G.relfile(mod)
    with G.frozen(today):
        o = G.call(mod, 'validate', mod.validate, tuple(args), kwargs, 120)
        if case['function'] == 'validate':
            if o[0] == 'exc':
                return dict(case, observed='raises %s' % o[1], site=o[2])
            if o[0] == 'ok' and not isinstance(o[1], str):
                return dict(case, observed='returns %s %s' % (type(o[1]).__name__, G.short(repr(o[1]), 50)),
                            site='%s:validate:returns_non_string' % rf)
            return None
        _m, args2, kwargs2, _t = G.case_inputs(case)       # fresh objects (iterators are consumed)
        i = G.call(mod, 'is_valid', mod.is_valid, tuple(args2), kwargs2, 120)
        if i[0] in ('exc', 'verr'):
            return dict(case, observed='raises %s' % i[1], site=i[2] or '%s:is_valid:raises_validation_error' % rf)
        if i[0] == 'ok' and not (i[1] is True or i[1] is False):
            return dict(case, observed='returns %s' % G.short(repr(i[1]), 50), site='%s:is_valid:not_bool' % rf)
        if i[0] == 'ok' and o[0] != 'timeout' and i[1] != (o[0] == 'ok'):
            return dict(case, observed='is_valid -> %r but validate %s' % (
                i[1], 'returned ' + G.short(repr(o[1]), 40) if o[0] == 'ok' else 'raised ' + o[1]),
                site='%s:is_valid:disagrees_with_validate' % rf)
    return None


if __name__ == '__main__':
    G.main(PROPERTY, search, replay)
