"""C11 - every shipped registry entry is well-formed and usable by its consumer.

Three layers, all exhaustive over the registry files (oui.dat is sampled in the quick tier):
  grammar    every non-comment line of every stdnum/**/*.dat is consumed completely by the independent line
             grammar of _dat.py (ranges a / a-b, equal-length ordered endpoints, key="value" properties with
             nothing left over, indentation that matches an open nesting level)
  lookup     for every entry (at every depth, prefix path built from the low ends of its ancestors) the numbers
             <path><low> and <path><high> are looked up with stdnum.numdb.get(name).info(); the answer must
             equal the answer of the independent model (shortest matching prefix wins, equal-length matches are
             merged in file order), the model walk must pass through the entry (else it is shadowed by a shorter
             range) and the entry's own properties must survive the merge (else overridden by a duplicate)
  consumer   the consuming module returns the entry: IBAN witness per country structure, GS1 encode/decode per
             application identifier, ISBN five-part split per registrant range, bank / branch / tax office /
             location / operator / manufacturer / classification entries through their info()/get_*() functions
"""
import datetime
import os
import random
import re
import sys

sys.path.insert(0, os.path.dirname(os.path.abspath(__file__)))
sys.path.insert(0, os.path.dirname(os.path.dirname(os.path.abspath(__file__))))   # tools/
import common  # noqa: E402
import _engine as E  # noqa: E402
import _dat  # noqa: E402
import _gs1  # noqa: E402

PROPERTY = 'C11'
TODAY = datetime.date(2026, 9, 26)

RULE = ('exhaustive enumeration: every data line of the registry files (grammar), every range of every line with its '
        'low and high end (lookup, differential against an independent model of the documented lookup rule) and one '
        'or more consumer-level witnesses per entry built from the entry itself (consumer). Quick tier: oui.dat '
        'lookup/consumer on every k-th range (k printed in the result), everything else exhaustive; thorough tier: '
        'all exhaustive. Non-trivial = distinct (file, entry, witness) triples; every entry of a registry is '
        'non-trivial by construction because the witness lies inside its range.')

DIG = '0123456789'
UP = 'ABCDEFGHIJKLMNOPQRSTUVWXYZ'


def M(name):
    return common.module('stdnum.' + name)


class _nofreeze:
    """no consumer of a registry reads the clock; nothing is frozen (see the note in c12 about gs1_128)"""

    def __enter__(self):
        return self

    def __exit__(self, *a):
        return False


# ----------------------------------------------------------------------------- independent lookup model

class Index:
    """per sibling list: lookup of matching entries by value, shortest length first"""

    def __init__(self, siblings):
        self.exact, self.ranges, self.lengths = {}, {}, set()
        for pos, e in enumerate(siblings):
            if len(e.low) != len(e.high):
                continue
            self.lengths.add(e.length)
            if e.low == e.high:
                self.exact.setdefault(e.low, []).append((pos, e))
            else:
                self.ranges.setdefault(e.length, []).append((pos, e))
        self.lengths = sorted(self.lengths)

    def match(self, value):
        for n in self.lengths:
            if n > len(value):
                break
            v = value[:n]
            found = list(self.exact.get(v, []))
            found.extend((pos, e) for pos, e in self.ranges.get(n, []) if e.low <= v <= e.high)
            if found:
                found.sort(key=lambda x: x[0])
                return n, [e for pos, e in found]
        return None, []


class Model:
    def __init__(self, top):
        self.top = top
        self._idx = {}

    def index(self, siblings):
        key = id(siblings)
        if key not in self._idx:
            self._idx[key] = (Index(siblings), siblings)
        return self._idx[key][0]

    def info(self, number):
        """-> ([(part, props)], [matched entries per level])"""
        res, walked = [], []
        levels = [self.top]
        while number:
            n, matches = None, []
            # children lists of all matches of the previous level are searched together
            cands = []
            for lv in levels:
                cands.extend(lv)
            idx = self.index(levels[0]) if len(levels) == 1 else Index(cands)
            n, matches = idx.match(number)
            if n is None:
                res.append((number, {}))
                walked.append([])
                break
            props = {}
            for e in matches:
                props.update(e.props)
            res.append((number[:n], props))
            walked.append(matches)
            seen, levels = set(), []
            for e in matches:
                if id(e.children) not in seen:
                    seen.add(id(e.children))
                    levels.append(e.children)
            if not any(levels):
                levels = [[]]
            number = number[n:]
        return res, walked


# ----------------------------------------------------------------------------- failures

class Ctx:
    def __init__(self, col, name):
        self.col, self.name = col, name
        self.relfile = 'stdnum/%s.dat' % name
        self.found = []

    def fail(self, module, function, args, observed, expected, relation, site=None, **extra):
        if site is None:
            site = '%s:%s:%s' % (self.relfile, function, relation)
        extra.setdefault('check', 'consumer')
        case = E.mkcase(module, function, args, observed, expected, site, relation, dat=self.name, **extra)
        self.found.append(case)
        if self.col is not None:
            self.col.fail(case)

    def tick(self, *labels):
        if self.col is not None:
            self.col.tick(*labels)

    def expect(self, module, function, args, want, relation, entry, kwargs=None, cmp=None):
        """call module.function(*args) and compare with `want`; unexpected exception -> site of the traceback"""
        self.tick('consumer:' + self.name)
        f = getattr(common.module(module), function)
        out = E.call(f, *args, **(kwargs or {}))
        ok = out.kind == 'ok' and (cmp(out.value, want) if cmp else out.value == want)
        if not ok:
            self.fail(module, function, list(args), out.show(), 'returns %s' % E.short(want), relation,
                      site=out.site if out.kind == 'exc' else None, entry=entry, kwargs_plain=kwargs or {})
        return out

    def accept(self, module, function, args, relation, entry, kwargs=None):
        self.tick('consumer:' + self.name)
        f = getattr(common.module(module), function)
        out = E.call(f, *args, **(kwargs or {}))
        if out.kind != 'ok':
            self.fail(module, function, list(args), out.show(), 'accepted', relation,
                      site=out.site if out.kind == 'exc' else None, entry=entry, kwargs_plain=kwargs or {})
        return out


def mod97(cc, bban):
    n = ''.join(str(int(ch, 36)) for ch in bban + cc + '00')
    return '%02d' % (98 - int(n) % 97)


def ean_check(s):
    return str((10 - sum((3, 1)[i % 2] * int(n) for i, n in enumerate(reversed(s)))) % 10)


def ends(e):
    return (0,) if e.low == e.high else (0, 1)


def pick(e, which):
    return e.low if which == 0 else e.high


def path_prefix(e):
    return ''.join(a.low for a in e.path()[:-1])


# ----------------------------------------------------------------------------- layer 1 + 2

def check_grammar(ctx, problems):
    for p in problems:
        ctx.tick('grammar-problem')
        ctx.fail('stdnum.numdb', 'read', ['%s.dat' % ctx.name, 'line %d' % p.lineno, p.text],
                 '%s: %s' % (p.kind, p.detail), 'line consumed completely by the registry line grammar',
                 'line-grammar:' + p.kind, lineno=p.lineno, check='grammar')


def check_lookup(ctx, model, e, rng=None, differential=True):
    """differential lookup + reachability of one entry (differential=False: model only, no numdb call)"""
    if len(e.low) != len(e.high):
        return
    from stdnum import numdb
    db = numdb.get(ctx.name)
    prefix = path_prefix(e)
    values = [e.low] if e.low == e.high else [e.low, e.high]
    reached = overridden = None
    for v in values:
        number = prefix + v
        ctx.tick('lookup:' + ctx.name)
        want, walked = model.info(number)
        out = E.call(db.info, number) if differential else None
        if out is not None and (out.kind != 'ok' or [tuple(x) for x in out.value] != [tuple(x) for x in want]):
            ctx.fail('stdnum.numdb', 'info', [ctx.name, number], out.show(), 'model of the file: %s' % E.short(want),
                     'lookup-differs-from-file', site=out.site if out.kind == 'exc' else None, entry=e.label(),
                     lineno=e.line, check='lookup')
        hit = len(walked) > e.depth and any(x is e for x in walked[e.depth])
        if hit:
            got = want[e.depth][1]
            bad = [k for k in e.props if got.get(k) != e.props[k]]
            if bad and overridden is None:
                others = [x for x in walked[e.depth] if x is not e]
                overridden = (number, bad, others)
        elif reached is None:
            blockers = walked[min(e.depth, len(walked) - 1)] if walked else []
            reached = (number, want, blockers)
    if reached is not None:
        # an ancestor that is itself shadowed is reported there, not again for each descendant
        number, want, blockers = reached
        anc_ok = True
        for a in e.path()[:-1]:
            w, wk = model.info(''.join(x.low for x in a.path()))
            if not (len(wk) > a.depth and any(x is a for x in wk[a.depth])):
                anc_ok = False
        ctx.tick('unreachable')
        if anc_ok:
            ctx.fail('stdnum.numdb', 'info', [ctx.name, number],
                     'lookup gives %s; entry %s (line %d) is never reached (shadowed by %s)' % (
                         E.short(want), e.label(), e.line, ', '.join('%s line %d' % (b.label(), b.line) for b in blockers[:3])),
                     'the entry of line %d' % e.line, 'entry-shadowed-by-shorter-range', entry=e.label(), lineno=e.line,
                     check='lookup')
    if overridden is not None:
        number, bad, others = overridden
        ctx.fail('stdnum.numdb', 'info', [ctx.name, number],
                 'properties %r of entry %s (line %d) are overridden by %s' % (
                     bad, e.label(), e.line, ', '.join('%s line %d' % (b.label(), b.line) for b in others[:3])),
                 'the properties of line %d' % e.line, 'entry-overridden-by-duplicate-range', entry=e.label(), lineno=e.line,
                 check='lookup')


# ----------------------------------------------------------------------------- layer 3: consumers

def consumer_iban(ctx, model, e, rng):
    cc, struct = e.low, e.props.get('bban')
    if struct is None:
        ctx.fail('stdnum.iban', 'validate', [cc], 'entry has no bban structure', 'a bban property', 'iban-structure-missing',
                 entry=e.label(), check='consumer')
        return
    toks = re.findall(r'(\d+)!([nac])', struct)
    if ''.join('%s!%s' % t for t in toks) != struct or not toks:
        ctx.fail('stdnum.iban', 'validate', [cc, struct], 'structure %r is not a sequence of <len>!<n|a|c> tokens' % struct,
                 'n/a/c tokens only', 'iban-structure-token', entry=e.label(), check='consumer')
        return
    for variant in ('first', 'last', 'random', 'random'):
        bban = ''
        for cnt, typ in toks:
            alpha = {'n': DIG, 'a': UP, 'c': DIG + UP}[typ]
            k = int(cnt)
            bban += alpha[0] * k if variant == 'first' else alpha[-1] * k if variant == 'last' else ''.join(rng.choice(alpha) for _ in range(k))
        w = cc + mod97(cc, bban) + bban
        ctx.expect('stdnum.iban', 'validate', (w,), w, 'iban-structure-admits-witness', e.label(), kwargs={'check_country': False})


def consumer_gs1(ctx, model, e, rng):
    ais = [a for a in ctx.ais if a.line == e.line and e.low <= a.ai <= e.high and len(a.ai) == len(e.low)]
    gs1 = M('gs1_128')
    for ai in ais:
        if ai.format_error:
            ctx.fail('stdnum.gs1_128', 'encode', [ai.ai, ai.format], 'format %r: %s' % (ai.format, ai.format_error),
                     'a format built from N/X/Y/Z components', 'gs1-format-not-understood', entry=ai.ai, check='consumer')
            continue
        for mode in ('plain', 'plain', 'plain'):
            v, text, tags = _gs1.gen_value(rng, ai, 'plain', charset='noparen')
            if v is None:
                ctx.fail('stdnum.gs1_128', 'encode', [ai.ai, ai.format], 'no value model for format %r type %r' % (ai.format, ai.type),
                         'a known format', 'gs1-format-not-understood', entry=ai.ai, check='consumer')
                break
            for sep, par in (('', False), ('\x1d', False), ('', True)):
                ctx.tick('consumer:gs1_ai')
                enc = E.call(gs1.encode, {ai.ai: v}, sep, par)
                if enc.kind != 'ok':
                    ctx.fail('stdnum.gs1_128', 'encode', [ai.ai, repr(v), sep], enc.show(), 'an element string',
                             'gs1-ai-encodes', site=enc.site if enc.kind == 'exc' else None, entry=ai.ai,
                             mapping=_gs1.enc_mapping([(ai.ai, v)]), sep=sep, par=par, check='consumer')
                    continue
                dec = E.call(gs1.info, enc.value, sep)
                if dec.kind != 'ok' or not _gs1.same_mapping(dec.value, {ai.ai: v}):
                    ctx.fail('stdnum.gs1_128', 'info', [enc.value, sep], dec.show(), '{%r: %r}' % (ai.ai, v),
                             'gs1-ai-decodes-what-it-encoded', site=dec.site if dec.kind == 'exc' else None, entry=ai.ai,
                             mapping=_gs1.enc_mapping([(ai.ai, v)]), sep=sep, par=par, check='consumer')


def consumer_isbn(ctx, model, e, rng):
    if e.depth != 2:
        if e.depth == 1 and e.props and not e.children:
            ctx.fail('stdnum.isbn', 'split', [e.label()], 'registration group %s has no registrant ranges' % e.label(),
                     'at least one registrant range', 'isbn-group-without-ranges', entry=e.label(), check='consumer')
        return
    prefix, group = e.path()[0].low, e.path()[1].low
    for which in ends(e):
        reg = pick(e, which)
        n = 12 - len(prefix) - len(group) - len(reg)
        if n < 1:
            ctx.fail('stdnum.isbn', 'split', [e.label()], 'no room for an item number (%d digits left)' % n,
                     'at least one item digit', 'isbn-range-too-long', entry=e.label(), check='consumer')
            return
        item = ''.join(rng.choice(DIG) for _ in range(n)) if which else '0' * n
        body = prefix + group + reg + item
        w = body + ean_check(body)
        want = (prefix, group, reg, item, w[-1])
        ctx.expect('stdnum.isbn', 'split', (w,), want, 'isbn-range-five-part-split', e.label())
        ctx.expect('stdnum.isbn', 'format', (w,), '-'.join(want), 'isbn-range-five-part-split', e.label())
        if prefix == '978':
            w10 = body[3:]
            w10 += 'X' if sum((i + 1) * int(d) for i, d in enumerate(w10)) % 11 == 10 else str(sum((i + 1) * int(d) for i, d in enumerate(w10)) % 11)
            ctx.expect('stdnum.isbn', 'split', (w10,), ('', group, reg, item, w10[-1]), 'isbn-range-five-part-split', e.label())


def merged(model, number, upto=None):
    want, walked = model.info(number)
    props = {}
    for part, p in want[:upto]:
        props.update(p)
    return props, want


def consumer_be_banks(ctx, model, e, rng):
    for which in ends(e):
        code = pick(e, which)
        acct = code + ''.join(rng.choice(DIG) for _ in range(7))
        acct += '%02d' % ((int(acct) % 97) or 97)
        w = 'BE' + mod97('BE', acct) + acct
        props = model.info(code)[0][0][1]
        ctx.expect('stdnum.be.iban', 'info', (w,), props, 'bank-entry-returned', e.label())
        ctx.expect('stdnum.be.iban', 'to_bic', (w,), props.get('bic'), 'bank-entry-returned', e.label())
        ctx.expect('stdnum.be.iban', 'validate', (w,), w, 'bank-entry-validates', e.label())
        ctx.expect('stdnum.iban', 'validate', (w,), w, 'bank-entry-validates', e.label())


def consumer_cz_banks(ctx, model, e, rng):
    for which in ends(e):
        code = pick(e, which)
        w = '19-2000145399/' + code
        props = merged(model, code)[0]
        ctx.expect('stdnum.cz.bankaccount', 'info', (w,), props, 'bank-entry-returned', e.label())
        ctx.expect('stdnum.cz.bankaccount', 'to_bic', (w,), props.get('bic'), 'bank-entry-returned', e.label())
        ctx.expect('stdnum.cz.bankaccount', 'validate', (w,), '000019-2000145399/' + code, 'bank-entry-validates', e.label())


def consumer_nz_banks(ctx, model, e, rng):
    nz = M('nz.bankaccount')
    if e.depth == 0:
        if not e.children:
            ctx.fail('stdnum.nz.bankaccount', 'info', [e.label()], 'bank without branches', 'branches', 'bank-without-branches',
                     entry=e.label(), check='consumer')
        return
    bank = e.path()[0].low
    for which in ends(e):
        branch = pick(e, which)
        props = merged(model, bank + branch)[0]
        # find an account base/suffix with a valid checksum
        w = None
        for _ in range(400):
            cand = bank + branch + ''.join(rng.choice(DIG) for _ in range(7)) + '0' + ''.join(rng.choice(DIG) for _ in range(2))
            if nz._calc_checksum(cand) == 0:
                w = cand
                break
        ctx.expect('stdnum.nz.bankaccount', 'info', (bank + branch + '0000000000',), props, 'bank-entry-returned', e.label())
        if w is not None:
            ctx.expect('stdnum.nz.bankaccount', 'validate', (w,), w, 'bank-entry-validates', e.label())
            ctx.expect('stdnum.nz.bankaccount', 'info', ('-'.join([w[:2], w[2:6], w[6:13], w[13:]]),), props, 'bank-entry-returned', e.label())


def consumer_at_fa(ctx, model, e, rng):
    tin = M('at.tin')
    for which in ends(e):
        code = pick(e, which)
        body = code + ''.join(rng.choice(DIG) for _ in range(6))
        w = body + tin.calc_check_digit(body)
        props = model.info(code)[0][0][1]
        ctx.expect('stdnum.at.tin', 'info', (w,), props, 'office-entry-returned', e.label())
        ctx.expect('stdnum.at.tin', 'validate', (w,), w, 'office-entry-validates', e.label())
        if props.get('office'):
            ctx.expect('stdnum.at.tin', 'validate', (w,), w, 'office-entry-validates', e.label(), kwargs={'office': props['office']})


def consumer_at_plz(ctx, model, e, rng):
    for which in ends(e):
        code = pick(e, which)
        props = model.info(code)[0][0][1]
        ctx.expect('stdnum.at.postleitzahl', 'info', (code,), props, 'location-entry-returned', e.label())
        ctx.expect('stdnum.at.postleitzahl', 'validate', (code,), code, 'location-entry-validates', e.label())


def consumer_cn_loc(ctx, model, e, rng):
    ric = M('cn.ric')
    for which in ends(e):
        code = pick(e, which)
        body = code + '19800229' + ''.join(rng.choice(DIG) for _ in range(3))
        w = body + ric.calc_check_digit(body + '0')
        props = model.info(code)[0][0][1]
        ctx.expect('stdnum.cn.ric', 'get_birth_place', (w,), props, 'location-entry-returned', e.label())
        ctx.expect('stdnum.cn.ric', 'validate', (w,), w, 'location-entry-validates', e.label())


def consumer_id_loc(ctx, model, e, rng):
    for which in ends(e):
        if e.depth == 0:
            code = pick(e, which) + (e.children[0].low if e.children else '00')
        else:
            code = e.path()[0].low + pick(e, which)
        w = code[:4] + '01' + '120580' + '0001'     # province, regency, district, DDMMYY, serial
        ctx.expect('stdnum.id.nik', 'validate', (w,), w, 'location-entry-validates', e.label())


def consumer_my_bp(ctx, model, e, rng):
    for which in ends(e):
        code = pick(e, which)
        w = '800229' + code + '%04d' % rng.randrange(10000)
        props = model.info(code)[0][0][1]
        ctx.expect('stdnum.my.nric', 'get_birth_place', (w,), props, 'location-entry-returned', e.label())
        ctx.expect('stdnum.my.nric', 'validate', (w,), w, 'location-entry-validates', e.label())


def consumer_imsi(ctx, model, e, rng):
    for which in ends(e):
        if e.depth == 0:
            mcc = pick(e, which)
            if not e.children:
                ctx.fail('stdnum.imsi', 'info', [mcc], 'country code %s has no network codes' % mcc, 'at least one MNC',
                         'mcc-without-mnc', entry=e.label(), check='consumer')
                return
            mnc = e.children[0].low
        else:
            mcc, mnc = e.path()[0].low, pick(e, which)
        msin = ''.join(rng.choice(DIG) for _ in range(15 - len(mcc) - len(mnc)))
        w = mcc + mnc + msin
        want, walked = model.info(w)
        props = dict(number=w, mcc=mcc, mnc=mnc, msin=msin)
        for part, p in want:
            props.update(p)
        ctx.expect('stdnum.imsi', 'split', (w,), (mcc, mnc, msin), 'operator-entry-returned', e.label())
        ctx.expect('stdnum.imsi', 'info', (w,), props, 'operator-entry-returned', e.label())
        ctx.expect('stdnum.imsi', 'validate', (w,), w, 'operator-entry-validates', e.label())


def consumer_isil(ctx, model, e, rng):
    if not e.low.endswith('$'):
        ctx.fail('stdnum.isil', 'validate', [e.low], 'agency key %r does not end with $' % e.low, 'KEY$', 'isil-key',
                 entry=e.label(), check='consumer')
        return
    agency = e.low[:-1]
    for w in (agency + '-' + ''.join(rng.choice(DIG + UP) for _ in range(6)), agency.lower() + '-1', agency + '-X/1:a'):
        ctx.expect('stdnum.isil', 'validate', (w,), w, 'agency-entry-validates', e.label())
    ctx.expect('stdnum.isil', 'format', (agency.lower() + '-1',), agency + '-1', 'agency-entry-returned', e.label())


def consumer_oui(ctx, model, e, rng):
    if e.depth == 0 and e.children:
        return          # the assignments live in the children
    for which in ends(e):
        prefix = path_prefix(e) + pick(e, which)
        rest = ''.join(rng.choice('0123456789ABCDEF') for _ in range(12 - len(prefix)))
        hexa = prefix + rest
        w = ':'.join(hexa[i:i + 2] for i in range(0, 12, 2)).lower()
        want, walked = model.info(hexa)
        o = None
        for part, p in want:
            if 'o' in p:
                o = p['o']
        if 'o' not in e.props:
            ctx.fail('stdnum.mac', 'get_manufacturer', [w], 'entry %s has no o= property' % e.label(), 'an organisation',
                     'oui-entry-without-organisation', entry=e.label(), check='consumer')
            return
        ctx.expect('stdnum.mac', 'get_manufacturer', (w,), e.props['o'].replace('%', '"'), 'manufacturer-entry-returned', e.label())
        if e.line % 8 == 0:
            ctx.expect('stdnum.mac', 'get_oui', (w,), prefix, 'manufacturer-entry-returned', e.label())
            ctx.expect('stdnum.mac', 'get_iab', (w,), rest, 'manufacturer-entry-returned', e.label())
            ctx.expect('stdnum.mac', 'validate', (w,), w, 'manufacturer-entry-validates', e.label(), kwargs={'validate_manufacturer': True})


def consumer_cfi(ctx, model, e, rng):
    """complete the entry's path to a 6 letter code and compare cfi.info with the file"""
    if e.depth < 2 or 'v' not in e.props:
        return
    for which in ends(e):
        code = path_prefix(e) + pick(e, which)
        cur = e
        while len(code) < 6:
            want, walked = model.info(code)
            nxt = []
            for m in (walked[-1] if walked else []):
                nxt.extend(m.children)
            withv = [c for c in nxt if 'v' in c.props]
            if not nxt:
                break
            code += (withv or nxt)[0].low if (withv or nxt)[0].low == (withv or nxt)[0].high else 'X'
        if len(code) != 6:
            ctx.fail('stdnum.cfi', 'info', [code], 'path of entry %s ends after %d letters' % (e.label(), len(code)),
                     'six levels', 'cfi-path-incomplete', entry=e.label(), check='consumer')
            return
        want, walked = model.info(code)
        props, ok = {}, len(want) == 6
        if ok:
            props.update(want[0][1])
            props.update(want[1][1])
            for part, p in want[2:]:
                if part != 'X' and 'v' not in p:
                    ok = False
                if 'v' in p:
                    if 'a' not in p:
                        ok = None
                        break
                    props[p['a']] = p['v']
        if ok is None:
            ctx.fail('stdnum.cfi', 'info', [code], 'value entry without attribute name (a=) at some level: %s' % E.short(want),
                     'an attribute name for every value', 'cfi-value-without-attribute', entry=e.label(), check='consumer')
        elif ok:
            ctx.expect('stdnum.cfi', 'info', (code,), props, 'classification-entry-returned', e.label())
            ctx.expect('stdnum.cfi', 'validate', (code,), code, 'classification-entry-validates', e.label())
        else:
            ctx.tick('cfi-filler-not-valid')


def consumer_nace(ctx, model, e, rng):
    for which in ends(e):
        code = path_prefix(e) + pick(e, which)
        props, want = merged(model, code)
        ctx.expect('stdnum.eu.nace', 'info', (code,), props, 'classification-entry-returned', e.label())
        if 'label' in e.props:
            ctx.expect('stdnum.eu.nace', 'get_label', (code,), e.props['label'], 'classification-entry-returned', e.label())
        ctx.expect('stdnum.eu.nace', 'validate', (code,), code, 'classification-entry-validates', e.label())
        if len(code) > 2:
            ctx.expect('stdnum.eu.nace', 'validate', (code[:2] + '.' + code[2:],), code, 'classification-entry-validates', e.label())


def consumer_ein(ctx, model, e, rng):
    for which in ends(e):
        code = pick(e, which)
        w = code + ''.join(rng.choice(DIG) for _ in range(7))
        ctx.expect('stdnum.us.ein', 'get_campus', (w,), e.props.get('campus'), 'campus-entry-returned', e.label())
        ctx.expect('stdnum.us.ein', 'validate', (code + '-' + w[2:],), w, 'campus-entry-validates', e.label())


CONSUMERS = {
    'iban': consumer_iban, 'gs1_ai': consumer_gs1, 'isbn': consumer_isbn, 'be/banks': consumer_be_banks,
    'cz/banks': consumer_cz_banks, 'nz/banks': consumer_nz_banks, 'at/fa': consumer_at_fa,
    'at/postleitzahl': consumer_at_plz, 'cn/loc': consumer_cn_loc, 'id/loc': consumer_id_loc, 'my/bp': consumer_my_bp,
    'imsi': consumer_imsi, 'isil': consumer_isil, 'oui': consumer_oui, 'cfi': consumer_cfi, 'eu/nace': consumer_nace,
    'us/ein': consumer_ein,
}


# ----------------------------------------------------------------------------- driver

def _load(name):
    path = os.path.join(common.REPO, 'stdnum', name + '.dat')
    return _dat.parse(path)


def _worker(task):
    seed, tier, name, start, step, stride = task
    col = E.Collector()
    ctx = Ctx(col, name)
    top, allentries, problems, nlines = _load(name)
    model = Model(top)
    if name == 'gs1_ai':
        ctx.ais = _gs1.load_ais(common.REPO)[0]
    if start == 0:
        col.count('lines:' + name, nlines)
        col.count('entries:' + name, len(allentries))
        check_grammar(ctx, problems)
        col.tick('grammar:' + name, n=nlines)
    consumer = CONSUMERS.get(name)
    with _nofreeze():
        for i in list(range(0, len(allentries), stride))[start::step]:
            e = allentries[i]
            rng = random.Random('%s/%s/%d' % (seed, name, i))
            col.nontriv('%s|%d' % (name, i))
            # oui.dat: a numdb lookup scans 35 000 prefixes; for leaf entries the consumer call (get_manufacturer,
            # which is numdb.info + the 'o' property of this very entry) is the differential evidence
            heavy = name == 'oui' and 'o' in e.props and not (e.depth == 0 and e.children) and i % 16
            check_lookup(ctx, model, e, rng, differential=not heavy)
            if consumer is not None and len(e.low) == len(e.high):
                consumer(ctx, model, e, rng)
            elif consumer is None and start == 0 and i == 0:
                ctx.fail('stdnum.numdb', 'get', [name], 'no consumer model for registry %s' % name, 'a consumer',
                         'registry-without-known-consumer', check='none')
    if start == 0 and allentries:
        e = allentries[0]
        col.sample({'registry': name, 'entry': e.label(), 'line': e.line, 'props': e.props,
                    'lookup': E.short(model.info(path_prefix(e) + e.low)[0])})
    return col.dump()


def registry_names():
    return [_dat.dat_name(common.REPO, p) for p in _dat.dat_files(common.REPO)]


def search(seed, tier):
    tasks = []
    stride = 1
    for name in registry_names():
        n = 16 if name == 'oui' else 8 if name == 'cn/loc' else 4 if name in ('imsi', 'at/postleitzahl', 'nz/banks', 'isbn') else 1
        st = 1
        if name == 'oui' and tier == 'quick':
            st = stride = 20
        for k in range(n):
            tasks.append((seed, tier, name, k, n, st))
    col = E.Collector()
    for d in E.pmap(_worker, tasks):
        col.merge(d)
    return col.result(RULE, exhaustive=(stride == 1), oui_sampling_stride=stride, registries=registry_names())


def replay(case):
    name = case.get('dat')
    if not name:
        return None
    ctx = Ctx(None, name)
    top, allentries, problems, nlines = _load(name)
    model = Model(top)
    if name == 'gs1_ai':
        ctx.ais = _gs1.load_ais(common.REPO)[0]
    with _nofreeze():
        if case.get('check') == 'grammar':
            check_grammar(ctx, problems)
            found = [c for c in ctx.found if c.get('lineno') == case.get('lineno')]
            return found[0] if found else None
        ents = [e for e in allentries if e.label() == case.get('entry')]
        if name == 'gs1_ai':
            ents = [e for e in allentries if e.low <= case.get('entry', '') <= e.high and len(e.low) == len(case.get('entry', ''))]
        for e in ents:
            rng = random.Random('replay')
            if case.get('check') == 'lookup':
                check_lookup(ctx, model, e, rng)
            elif name in CONSUMERS:
                for _ in range(3):
                    CONSUMERS[name](ctx, model, e, rng)
    same = [c for c in ctx.found if c['relation'] == case.get('relation') and c['function'] == case.get('function')]
    found = same or [c for c in ctx.found if c['relation'] == case.get('relation')]
    return found[0] if found else None


if __name__ == '__main__':
    E.main(sys.modules[__name__])
