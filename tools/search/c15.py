"""C15 - accepted numbers are spelled in ASCII.  Failing-input search, real code only."""
import os
import sys
import time
import unicodedata

sys.path.insert(0, os.path.dirname(os.path.dirname(os.path.abspath(__file__))))   # tools/
sys.path.insert(0, os.path.dirname(os.path.abspath(__file__)))
import common   # noqa: E402
import _modgen as G   # noqa: E402

PROPERTY = 'C15'

# formats whose own alphabet contains national letters (named in the property): exactly these are allowed
EXEMPT = {
    'stdnum.de.handelsregisternummer': set('ÄÖÜäöüß'),
    'stdnum.mx.rfc': set('Ñ'),
    'stdnum.es.referenciacatastral': set('Ñ'),
}

LETTERS = (
    'éÉèêëñÑäÄöÖüÜçÇøØåÅłŁśžŽ'          # accented Latin
    'ΑαΒβΕεΚκΜΟοΡρΤΧχΩως'                # Greek (several look like Latin capitals)
    'АаВЕеКМНОоРрСсТХхЖяЁ'               # Cyrillic
    'ＡａＢＸｘＺｚ'                           # full-width
    'ßŉǆǅǰΐﬁﬂﬆ'                          # case-expanding / title-case
    'ıſKİÅ'                            # dotless i, long s, Kelvin sign, dotted capital I, Angstrom sign
    'ªºᴬᵃℂℍℕⒶⓐ𝐀𝐚𝑨'                       # ordinal indicators, modifier letters, letter-like symbols, math
    'אبあ漢가'                            # other scripts (Lo)
)

RULE = (
    'per identifier module (all number modules except the eight generic algorithm modules): shape-diverse corpus '
    'valid numbers (as written, first also in compact form); at EVERY position substitute and insert (insert '
    'covers prepend/append) EVERY code point of general category Nd/No/Nl that is not a key of '
    'stdnum.util._char_map (found by scanning all 0x110000 code points with unicodedata) and %d representatives '
    'of non-ASCII letter classes (accented Latin, Greek, Cyrillic, full-width, case-expanding, dotless i, long s, '
    'Kelvin/Angstrom signs, dotted I, ordinal indicators, modifier/letter-like/mathematical letters, other '
    'scripts) plus common.NONASCII_DIGITS/NONASCII_LETTERS; every validate option set on the first form (quick tier: every fourth character for the non-default sets) of the '
    'first number.  Predicate: if validate returns v (a str) then every non-ASCII character of v is one of the '
    'national letters allowed for the exempt formats (de.handelsregisternummer: ÄÖÜäöüß; mx.rfc, '
    'es.referenciacatastral: Ñ); exceptions other than ValidationError are ignored here (C01).  site = '
    '<file>:validate:non_ascii_output[<general category of the first offending output character>].  '
    % len(LETTERS) + G.NONTRIVIAL_RULE)

PARAMS = {
    'quick': dict(numbers=4, compact_forms=1),
    'thorough': dict(numbers=4, compact_forms=1),
}
EXPECT = 'validate(x) is pure ASCII (or rejects x), apart from the national letters of the three exempt formats'

_chars = None


def foreign_chars():
    """(digits, letters): all Nd/No/Nl code points outside the clean-up table, and the letter representatives"""
    global _chars
    if _chars is None:
        cm = G.char_map()
        digits = []
        for cp in range(128, 0x110000):
            c = chr(cp)
            if unicodedata.category(c) in ('Nd', 'No', 'Nl') and c not in cm:
                digits.append(c)
        letters = []
        for c in LETTERS + ''.join(common.NONASCII_LETTERS):
            if c not in letters and ord(c) >= 128 and c not in cm:
                letters.append(c)
        _chars = (digits, letters)
    return _chars


_alikes = None


def letter_alikes():
    """{ASCII upper-case letter: [non-ASCII characters that a case mapping, case folding or compatibility
    normalisation turns into that letter]} (Kelvin sign -> K, long s -> S, dotless i -> I, full-width and
    mathematical letters ...), restricted to characters outside the clean-up table.  Code that tests a lower-cased /
    upper-cased / normalised copy but returns the original text passes exactly these through."""
    global _alikes
    if _alikes is None:
        cm = G.char_map()
        res = {}
        for cp in range(128, 0x110000):
            c = chr(cp)
            if c in cm:
                continue
            for f in (c.lower(), c.upper(), c.casefold(), unicodedata.normalize('NFKC', c), unicodedata.normalize('NFKD', c)):
                if len(f) == 1 and f.isascii() and f.isalpha():
                    lst = res.setdefault(f.upper(), [])
                    if c not in lst:
                        lst.append(c)
        # keep the case-mapping ones all, thin the (many) compatibility letters to a few per letter
        _alikes = {}
        for L, lst in res.items():
            strong = [c for c in lst if any(len(g) == 1 and g.isascii() for g in (c.lower(), c.upper(), c.casefold()))]
            weak = [c for c in lst if c not in strong]
            _alikes[L] = strong + weak[:4]
    return _alikes


def behaviour_class(c):
    """what Python level tests can see of a character; used ONLY to thin out the quick tier (3 per class)"""
    import re
    try:
        iv = int(c)
    except ValueError:
        iv = None
    try:
        i36 = int(c, 36)
    except ValueError:
        i36 = None
    return (unicodedata.category(c), unicodedata.decimal(c, None), unicodedata.digit(c, None),
            c.isdigit(), c.isdecimal(), c.isnumeric(), c.isalnum(), c.isalpha(), iv, i36,
            bool(re.match(r'\d', c)), bool(re.match(r'\w', c)), c.upper().isascii(), c.lower().isascii(),
            len(c.upper()), unicodedata.normalize('NFKC', c).isascii(), ord(c) > 0xffff)


def quick_subset(chars, per_class=3):
    seen = {}
    out = []
    for c in chars:
        k = behaviour_class(c)
        if seen.get(k, 0) < per_class:
            seen[k] = seen.get(k, 0) + 1
            out.append(c)
    return out


def offending(modname, v):
    """first character of v that may not occur in an accepted number of this module, or None"""
    if v.isascii():
        return None
    allowed = EXEMPT.get(modname, ())
    for ch in v:
        if ord(ch) >= 128 and ch not in allowed:
            return ch
    return None


def module_forms(mod, P):
    """[(index of the valid number, spelling)]: shape-diverse valid numbers as written, the first ones also in
    compact form"""
    numbers = G.diverse(common.valid_numbers(mod.__name__), P['numbers'])
    forms = []
    compact = getattr(mod, 'compact', None)
    for i, v in enumerate(numbers):
        forms.append((i, v))
        if i < P['compact_forms'] and compact is not None:
            try:
                c = compact(v)
                if isinstance(c, str) and c and c != v:
                    forms.append((i, c))
            except Exception:   # noqa: B902
                pass
    return forms


def _worker(task):
    modname, part, nparts, seed, tier = task
    mod = common.module(modname)
    sc = G.budget_scale(mod)
    P = G.scaled_params(PARAMS[tier], sc, tier)
    fnd, st = G.Findings(), G.Stats()
    rf = G.relfile(mod)
    VE = G.VE
    validate = mod.validate
    digits, letters = foreign_chars()
    if tier == 'quick':
        digits = quick_subset(digits)
    chars = [(c, 'digit:' + unicodedata.category(c)) for c in digits] + [(c, 'letter') for c in letters]
    forms = module_forms(mod, P)
    chars = G.part_slice(chars, part, nparts)
    opts = G.option_sets(mod, 'validate')
    samples = []
    first = st.first
    by_gen, by_gen_acc, by_out = st.by_gen, st.by_gen_accepted, st.by_outcome

    def run(gen, y, kw, kwk):
        try:
            v = validate(y, **kw)
        except VE as e:
            klass = 'verr:' + type(e).__name__
            k0 = 'verr'
        except Exception as e:   # noqa: B902
            klass = 'exc:' + type(e).__name__
            k0 = 'exc'
        else:
            klass = k0 = 'ok'
        st.cases += 1
        by_gen[gen] = by_gen.get(gen, 0) + 1
        by_out[k0] = by_out.get(k0, 0) + 1
        key = (y, kwk)
        if key not in first:
            first[key] = klass
        if k0 != 'ok':
            return
        by_gen_acc[gen] = by_gen_acc.get(gen, 0) + 1
        if not isinstance(v, str):
            return
        bad = offending(modname, v)
        if bad is not None:
            site = '%s:validate:non_ascii_output[%s]' % (rf, unicodedata.category(bad))
            observed = 'validate(%s) returns %s (contains U+%04X %s)' % (
                G.short(y, 40), G.short(v, 40), ord(bad), unicodedata.name(bad, '?'))
            fnd.add(modname, 'validate', site, len(y) + len(kw), repr((y, kwk)), lambda: G.make_case(
                modname, 'validate', [y], kw, observed, EXPECT, site, 'accepted number is ASCII', generator=gen))
        if len(samples) < 4 and not any(s['gen'] == gen for s in samples):
            samples.append({'module': modname, 'gen': gen, 'function': 'validate', 'args': [G.describe_arg(y)],
                            'kwargs': G.describe_kwargs(kw), 'outcome': 'returns ' + G.short(v, 40),
                            'violation': bad is not None})

    for idx, f in forms:
        kws = opts if idx == 0 else opts[:1]
        for ki, kw in enumerate(kws):
            kwk = G.kw_key(kw)
            # quick tier: the non-default option sets see every fourth foreign character (all of them in thorough)
            for c, cls in (chars if ki == 0 or tier == 'thorough' else chars[::4]):
                gs, gi = 'subst-' + cls, 'insert-' + cls
                for i in range(len(f)):
                    run(gs, f[:i] + c + f[i + 1:], kw, kwk)
                for i in range(len(f) + 1):
                    run(gi, f[:i] + c + f[i:], kw, kwk)
    # same-letter look-alikes: every valid number of the corpus (prefixes and table members differ per number), every
    # position holding an ASCII letter, every character that a case mapping / normalisation turns into that letter
    if part == 0:
        alikes = letter_alikes()
        cap = 400 if tier == 'quick' else 4000
        for v in G.diverse(common.valid_numbers(modname), cap):
            for i, ch in enumerate(v):
                for c in alikes.get(ch.upper(), ()) if ch.isascii() and ch.isalpha() else ():
                    run('subst-same-letter', v[:i] + c + v[i + 1:], {}, ())
    for idx, f in forms:
        # whole-number respelling in one foreign decimal script (every digit replaced by the same-valued digit)
        for zero in ('٠', '۰', '०', '০', '๐', '\U0001d7ce', '\U0001e950', '\U00011066'):
            if unicodedata.decimal(zero, None) == 0 and zero not in G.char_map():
                y = ''.join(chr(ord(zero) + int(ch)) if ch in '0123456789' else ch for ch in f)
                if y != f and part == 0:
                    run('respell-script', y, {}, ())
    return {'module': modname, 'task': (modname, part), 'stats': st.summary(), 'findings': fnd.export(),
            'samples': samples}


def modules():
    return [m.__name__ for m in common.number_modules() if m.__name__ not in common.GENERIC_MODULES]


def search(seed, tier):
    t0 = time.time()
    digits, letters = foreign_chars()      # computed before the fork
    names = modules()
    tasks = []
    for n in names:
        mod = common.module(n)
        sc = G.budget_scale(mod)
        forms = module_forms(mod, G.scaled_params(PARAMS[tier], sc, tier))
        nkw = len(G.option_sets(mod, 'validate'))
        if tier != 'thorough':
            nkw = 1 + (nkw - 1) / 4.0
        est = (sum(len(f) for _i, f in forms) + (nkw - 1) * (len(forms[0][1]) if forms else 0)) / sc
        parts = max(1, min(16, int(round(est / (40.0 if tier == 'thorough' else 25.0)))))
        for p in range(parts):
            tasks.append((n, p, parts, seed, tier))
    results = G.run_tasks(_worker, G.schedule(tasks))
    results.sort(key=lambda r: r['task'])
    cats = {}
    for c in digits:
        k = unicodedata.category(c)
        cats[k] = cats.get(k, 0) + 1
    res, _ = G.merge_results(PROPERTY, RULE, results, t0, {
        'foreign_digit_code_points': len(digits), 'foreign_digit_categories': cats,
        'letter_representatives': len(letters), 'exempt': dict((k, ''.join(sorted(v))) for k, v in EXEMPT.items()),
        'excluded_generic_modules': common.GENERIC_MODULES})
    return res


def replay(case):
    mod, args, kwargs, today = G.case_inputs(case)
    with G.frozen(today):
        o = G.call(mod, 'validate', mod.validate, tuple(args), kwargs)
    if o[0] != 'ok' or not isinstance(o[1], str):
        return None
    bad = offending(case['module'], o[1])
    if bad is None:
        return None
    return dict(case, site='%s:validate:non_ascii_output[%s]' % (G.relfile(mod), unicodedata.category(bad)),
                observed='validate(%s) returns %s (contains U+%04X %s)' % (
                    G.short(args[0], 40), G.short(o[1], 40), ord(bad), unicodedata.name(bad, '?')))


if __name__ == '__main__':
    G.main(PROPERTY, search, replay)
