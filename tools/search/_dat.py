"""Independent reader for the registry (*.dat) files of python-stdnum (own line grammar, own tree, own lookup).

Line grammar (everything must be consumed):
    line   := INDENT ranges ( SP+ prop )* SP* EOL          INDENT := ' '*
    ranges := range ( ',' range )*
    range  := TOK | TOK '-' TOK                             TOK := [^-,\\s"=]+
    prop   := KEY '="' [^"]* '"'                            KEY := [0-9a-zA-Z_-]+
Comment lines start with '#'; blank lines are ignored.
"""
import glob
import os
import re

_TOK = r'[^-,\s"=]+'
_RANGE = r'%s(?:-%s)?' % (_TOK, _TOK)
_LINE = re.compile(r'^(?P<indent> *)(?P<ranges>%s(?:,%s)*)(?P<rest>(?: +[0-9a-zA-Z_-]+="[^"]*")*) *$' % (_RANGE, _RANGE))
_PROP = re.compile(r' +([0-9a-zA-Z_-]+)="([^"]*)"')


class Entry:
    __slots__ = ('low', 'high', 'props', 'children', 'line', 'depth', 'parent', 'group')

    def __init__(self, low, high, props, line, depth, parent, group):
        self.low, self.high, self.props, self.line = low, high, props, line
        self.depth, self.parent, self.group = depth, parent, group
        self.children = None     # shared list object for all ranges of one line

    @property
    def length(self):
        return len(self.low)

    def path(self):
        res, e = [], self
        while e is not None:
            res.append(e)
            e = e.parent
        return res[::-1]

    def label(self):
        return '/'.join(x.low if x.low == x.high else '%s-%s' % (x.low, x.high) for x in self.path())


class Problem:
    def __init__(self, lineno, kind, text, detail):
        self.lineno, self.kind, self.text, self.detail = lineno, kind, text, detail

    def __repr__(self):
        return 'line %d: %s (%s): %r' % (self.lineno, self.kind, self.detail, self.text[:80])


def dat_files(repo):
    return sorted(glob.glob(os.path.join(repo, 'stdnum', '**', '*.dat'), recursive=True))


def dat_name(repo, path):
    return os.path.relpath(path, os.path.join(repo, 'stdnum'))[:-4]


def parse(path):
    """-> (top-level entries, all entries in file order, problems, number of data lines)"""
    problems, top, allentries = [], [], []
    stack = []         # [(indent, children list, parent entry)]
    last = None        # entries of the previous line
    nlines = 0
    with open(path, encoding='utf-8') as f:
        raw = f.read()
    for lineno, line in enumerate(raw.split('\n'), 1):
        if line.startswith('#') or line.strip() == '':
            continue
        nlines += 1
        m = _LINE.match(line)
        if not m:
            problems.append(Problem(lineno, 'syntax', line, 'line not consumed completely by the grammar'))
            continue
        indent = len(m.group('indent'))
        props_list = _PROP.findall(m.group('rest'))
        props = dict(props_list)
        if len(props) != len(props_list):
            problems.append(Problem(lineno, 'duplicate-property', line, 'a property key occurs twice'))
        # nesting
        if not stack:
            if indent != 0:
                problems.append(Problem(lineno, 'indent', line, 'first entry is indented'))
            stack = [(indent, top, None)]
        elif indent > stack[-1][0]:
            if last is None:
                problems.append(Problem(lineno, 'indent', line, 'indented line without a parent'))
                continue
            stack.append((indent, last[-1].children, last[-1]))
        else:
            while stack and stack[-1][0] > indent:
                stack.pop()
            if not stack or stack[-1][0] != indent:
                problems.append(Problem(lineno, 'indent', line, 'dedent to a level that is not open'))
                stack = stack or [(indent, top, None)]
                if stack[-1][0] != indent:
                    stack.append((indent, stack[-1][1], stack[-1][2]))
        _ind, siblings, parent = stack[-1]
        children = []
        group = []
        for rng in m.group('ranges').split(','):
            if '-' in rng:
                low, high = rng.split('-')
            else:
                low = high = rng
            if len(low) != len(high):
                problems.append(Problem(lineno, 'range-length', line, 'endpoints %s-%s differ in length' % (low, high)))
            elif low > high:
                problems.append(Problem(lineno, 'range-order', line, 'endpoints %s-%s not ordered' % (low, high)))
            e = Entry(low, high, props, lineno, len(stack) - 1, parent, group)
            e.children = children
            group.append(e)
            siblings.append(e)
            allentries.append(e)
        last = group
    return top, allentries, problems, nlines


def siblings_of(entry, top):
    return entry.parent.children if entry.parent is not None else top


def merged_props(siblings, value):
    """-> (shadowing entry or None, merged props of all same-length matches, matching entries)"""
    shortest = None
    for s in siblings:
        if s.length <= len(value) and s.low <= value[:s.length] <= s.high:
            if shortest is None or s.length < shortest:
                shortest = s.length
    props, matches = {}, []
    for s in siblings:
        if s.length == shortest and s.low <= value[:s.length] <= s.high:
            props.update(s.props)
            matches.append(s)
    return shortest, props, matches
